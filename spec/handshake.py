"""Connection phase layouts (MySQL protocol documentation)."""
CLIENT_PROTOCOL_41 = 0x00000200
CLIENT_SSL = 0x00000800
CLIENT_SECURE_CONNECTION = 0x00008000
CLIENT_PLUGIN_AUTH = 0x00080000


def parse_handshake_v10(b):
    """Parse a protocol-10 initial handshake packet payload; returns dict or raises ValueError."""
    if not b or b[0] != 10:
        raise ValueError("protocol version byte is not 10")
    i = b.find(b"\0", 1)
    if i < 0:
        raise ValueError("server version is not NUL-terminated")
    version = b[1:i]
    i += 1
    if len(b) < i + 4 + 8 + 1 + 2:
        raise ValueError("truncated after version")
    conn_id = int.from_bytes(b[i:i + 4], "little"); i += 4
    auth1 = b[i:i + 8]; i += 8
    if b[i] != 0:
        raise ValueError("filler after auth-plugin-data-part-1 is not 0")
    i += 1
    cap_lo = int.from_bytes(b[i:i + 2], "little"); i += 2
    out = {"version": version, "conn_id": conn_id, "auth1": auth1, "cap": cap_lo}
    if i == len(b):
        return out
    if len(b) < i + 1 + 2 + 2 + 1 + 10:
        raise ValueError("truncated in the extended part")
    out["charset"] = b[i]; i += 1
    out["status"] = int.from_bytes(b[i:i + 2], "little"); i += 2
    cap_hi = int.from_bytes(b[i:i + 2], "little"); i += 2
    out["cap"] = cap_lo | (cap_hi << 16)
    out["auth_len"] = b[i]; i += 1
    if b[i:i + 10] != b"\0" * 10:
        raise ValueError("reserved bytes are not zero")
    i += 10
    rest = b[i:]
    # auth-plugin-data-part-2 (clients read max(13, auth_len-8) bytes when SECURE_CONNECTION; older clients read to NUL)
    if not rest.endswith(b"\0") or len(rest) < 13:
        raise ValueError("auth-plugin-data-part-2 must be at least 13 bytes and NUL-terminated")
    out["auth2"] = rest
    return out


# HandshakeResponse41: cap u32 | max packet u32 | charset u8 | filler[23] | user NUL ...   (SSLRequest: first 32 bytes)
RESPONSE41 = {"cap_lo": (0, 2), "cap_hi": (2, 2), "max_packet": (4, 4), "charset": (8, 1), "filler": (9, 23), "user": (32, None)}
# HandshakeResponse320: cap u16 | max packet u24 | user NUL ...
RESPONSE320 = {"cap": (0, 2), "max_packet_lo": (2, 2), "max_packet_hi": (4, 1), "user": (5, None)}
ACCESS_DENIED = (1045, b"28000")
