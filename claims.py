"""Claim table: which properties are claimed, at which level, by which technique."""
DEFERRED = "rules for this property are not armed yet (build order: DESIGN.md Appendix D); not claimed until a self-tested rule exists"

CLAIMS = {
    "C18": {
        "level": "other",
        "text": "Shape clauses of the TLS upgrade (default-features build): the TLS stream is seeded with bytes[len-remaining..] (affine) and remaining := 0 on every path, the prepending reader is Cursor(prepended.to_vec()).chain(socket) and forwards write/flush to the socket half, SwitchableConn forwards read/write/flush to the active variant in all 6 arms, the plain socket is taken out and wrapped (no second handle), the switch has one call site reached in a clean connection state, a client requesting TLS without a configuration is refused before the shim, and the TLS path runs switch -> read -> parse(after_tls) -> username -> certificates -> after_authentication. The behaviour of rustls over arbitrary chunkings, certificate delivery and absence of plaintext produced inside rustls are NOT decided. The delegation receiver is the variant's payload itself (not a part of the TLS session); CLIENT_SSL is tested on the capability word the client sent, unmasked. The wire bundle (C04 framing + C05 sequence rules) is evaluated here as well: after the switch the transport accepts short writes.",
        "note": "Trusted: rustls, std::io::Chain/Cursor. Relies on C01.window-invariant for the meaning of bytes[len-remaining..].",
        "technique": "affine slice-offset analysis, delegation table check, typestate at the switch site, path-order rules over the handshake",
    },
    "C06": {
        "level": "other",
        "text": "Cell framing, NULL marker and text grammar of the text protocol encoders: every to_mysql_text path emits exactly one lenenc string through the library writer, or FB (only on the None path), or one delegation; text-mode write_col encodes once into the connection and end_row ends one packet; the compiled format_args! template of each encoder is decoded and compared, with the origin of each argument, to the MySQL literal grammar (`{}` of the value for integers/floats; %04-%02-%02 [%02:%02:%02[.%06]] of the named chrono accessors with the fraction exactly when non-zero; TIME %02:%02:%02[.%06] of secs/3600, secs%3600/60, secs%60, subsec_micros). What Display prints for numbers and how a client parses text back is NOT decided (std / client behaviour). Cells of 16 MiB and more are split by the framer, so the framing clauses of C04 (sole writer, header = payload, split threshold, empty terminator, write progress) are evaluated here as well. The sequence-id clauses of C05 (stamp and wrap, reset per exchange) are evaluated together with them (one `wire bundle`).",
        "note": "Trusted: write_lenenc_str; core::fmt Display for integers and floats; the template encoding of this toolchain's core::fmt (a different encoding fails closed).",
        "technique": "emission-sequence analysis + decoding of compiled format templates with def-use of their arguments",
    },
    "C07": {
        "level": "other",
        "text": "Binary row layout rules: bitmap length (n+9)/8 and NULL bit (c+2)/8, (c+2)%8 as affine normal forms (offset 2 in all three places, for every column count); row header 00 once at column 0 followed by a zero-filled bitmap of bitmap_len bytes, relying on the buffer being empty (constructor + clear() in end_row, which writes the buffer whole before exactly one packet end); NULL for NOT NULL refused, NULL never encoded, non-NULL never sets a bit; per (impl, column-type arm) emission layouts for f32/f64/byte strings/DATE/DATETIME/TIME vs the protocol, with length-byte self-consistency, slot sources by accessor name, TIME div/mod formulas, zero-length TIME only when seconds and micros are zero, 7-byte DATETIME exactly when the fraction is zero, other column types refused. Rows of 16 MiB and more are split by the framer, so the framing clauses of C04 are evaluated here as well. The sequence-id clauses of C05 (stamp and wrap, reset per exchange) are evaluated together with them (one `wire bundle`). The 00 row header is required exactly once in front of the bitmap of each row packet, wherever it is written (column 0 of write_col or end_row). Wrapper impls of the value trait whose binary encoder delegates to an inner value that may be NULL answer is_null() with the inner value's answer (found and fixed: &T and Option<T> did not, a NULL offered by reference or as Some(Value::NULL) panicked the connection instead of setting its bitmap bit).",
        "note": "Trusted: chrono accessors, lenenc writer. Integer exactness is C15's. Generic Value::Date/Time conversion through chrono is not decided.",
        "technique": "affine normal forms, emission-sequence analysis per column-type arm, path rules on write_col/end_row",
    },
    "C08": {
        "level": "other",
        "text": "Reader-side layout rules for COM_STMT_EXECUTE parameters: NULL bitmap = payload[0..(params+7)/8) (affine), NULL test = byte col/8 bit col%8, per column-type arm and unsigned flag of the value parser the exact sequence of stateful cursor reads (widths, signedness, lenenc + guarded split, length byte + guarded split) and the variant produced, widening only; one column increment per yielded parameter, stop at col >= params, params = the statement's declared count; encoder/decoder agree on the 14 byte-string column types; the temporal converters' accepted length forms vs the protocol's, and satisfiability of every length test given the bytes already consumed (found and fixed: microseconds never decoded, 4-byte DATETIME panicked; zero-date forms remain known findings). Flag byte / type table / value start offsets are C16's rules. A parameter sent as long data is one of the bound values: C17's rules (append-only storage under the looked-up statement, inline path only after a lookup that found nothing, cleared after execute, per-statement isolation) are evaluated here as well. C01's reassembly rules (the EXECUTE payload is the reassembled message) are evaluated here as well.",
        "note": "Trusted: mysql_common::read_lenenc_int, chrono constructors, IEEE widening, byteorder cursor reads. Value equality through chrono/float formatting is not decided.",
        "technique": "cursor/read-sequence analysis over enumerated paths per column-type arm, affine normal forms, length-form satisfiability",
    },
    "C01": {
        "level": "other",
        "text": "Mechanism clauses that make reassembly independent of chunking, decided symbolically: single transport read site and window-field ownership; the receive-window invariant start + remaining = len(bytes) established on entry and re-established around the read loop (inductive check with a Vec length model and a ghost `consumed prefix` counter: parser gets bytes[start..], remaining := len(rest), drain removes exactly the consumed prefix, the transport reads into bytes[old_len..], len := end + n); short buffers (parser Incomplete/Error) lead to another read, only Failure is an error; framing constants of the two packet parsers as affine cursor offsets (u24 length @0, sequence @3, payload @4 of exactly that length / ffffff + 0xFFFFFF bytes) and in-order appends of fragments. Byte-for-byte equality through nom's combinators is not decided (trusted library). The reader goes (back) to the transport without a parse attempt only on a path that established remaining == 0 (entry/header → read and read → read paths); a verdict the framing parsers build themselves (fragment ids out of order) is a Failure, never Error/Incomplete, which the reader takes as `read more`. The read buffer is resized to a length that exceeds the buffered length for every length (the transport is never handed an empty buffer). The fragment fold advances its id with every fragment and the in-order test compares the new id with wrapping_add(previous, 1).",
        "note": "Trusted: nom combinators return a suffix of their input; Read contract; Vec semantics.",
        "technique": "symbolic (affine) evaluation of buffer bookkeeping along enumerated loop paths with an inductive invariant check; cursor-offset analysis",
    },
    "C15": {
        "level": "proof",
        "text": "Exhaustive path-sensitive interval analysis of all 10 integer encoders x 6 integer column types x 2 signednesses plus the generic Int/UInt arms: on every writing path the written width equals the wire width, the accepted interval (from the path's comparisons / TryFrom results, constants folded with wrapping semantics) is included in every intermediate type and in the client's read type (so the decoded number equals the source for all accepted values; a concrete counterexample is produced otherwise), whole fixed-width ranges are accepted whenever the column can hold them, usize/isize accept exactly range(T) ∩ range(column), and non-writing paths return Err or diverge. All obligations discharge on the repaired tree (two defects found and fixed: sign-extension of negatives into unsigned columns; always-refused usize/isize). What the client decodes depends on the column definition that announces the column: C09's column-definition rules (type byte and flags word are the column's own, unmodified) are evaluated here as well; a generic arm that delegates to an unmodelled callee fails closed.",
        "note": "Trusted base: exporter, the cast/From/TryFrom interval model for a 64-bit target, byteorder's LE two's-complement writes. The column's representable range is taken to be its wire range.",
        "technique": "path-sensitive interval abstract interpretation over MIR (trace partitioning by column arm and signedness)",
    },
    "C04": {
        "level": "other",
        "text": "Framing arithmetic from the constants and affine forms of the framer's MIR, for all message sizes: single transport write site writing the whole pending buffer, single flush site; header length field = len(to_write) - H with H = 4 = truncate length = initial length, byte 3 = sequence counter; split comparison constant K equals the copy bound K2 and K - H = 0xFFFFFF; emission skipped only when payload == 0 and the last-full flag is clear, every emitting path sets flag := payload == 0xFFFFFF; write() leaves len < K or ends the packet and returns the buffered count. Found and fixed: threshold counted the header (0xFFFFFB packets) and no empty terminator after an exact multiple.",
        "note": "Trusted: byteorder write_u24, Vec semantics. Client reassembly is the protocol's rule.",
        "technique": "constant/affine extraction from MIR, path rules on the terminator and Write::write",
    },
    "C05": {
        "level": "other",
        "text": "Sequence-counter rules: stamped into header[3] then advanced by u8::wrapping_add(_,1) on every emitting path and untouched otherwise; no checked u8 addition on non-constant operands anywhere on the client path; in every enumerated loop-iteration path the setter is called with wrapping_add(id returned by this iteration's read, 1) before the first write or callback, same for each handshake read; counter written only by constructor (0), setter, terminator; reassembled packets report the final fragment's id. Found and fixed: checked seq + 1 (panic at 255) at five sites.",
        "note": "Trusted: u8::wrapping_add.",
        "technique": "path-precise def-use on enumerated paths, who-writes-field table, assert-terminator scan",
    },
    "C20": {
        "level": "other",
        "text": "Panic-site obligations over the MIR of all client-path functions (call-graph reachability from run_on minus writer/encoder code, plus the parameter-decoding API): every Assert terminator, core::panicking call, unwrap/expect, split_at, indexing, drain and byteorder slice writer is either discharged mechanically (constant folding, type-derived intervals, dominating-branch facts with affine length/index forms, loop-range bounds), justified in a reasoned table tied to the invariant rule that backs it, or reported. Found and fixed three crashes (sequence id 255, unknown/truncated command, out-of-order fragments); seven sites in the parameter iterator remain as known findings with a triggering input. Plus loop-shape progress rule and feasibility of the iterator's unreachable!(). The framing parsers answer a complete malformed message with Failure (Error/Incomplete would make the reader wait forever).",
        "note": "Trusted: no panics inside dependencies; Vec length <= isize::MAX; Read contract. A new panic-capable construct on the client path fails the check until discharged or reasoned.",
        "technique": "panic-site enumeration over MIR + interval/affine discharge with dominating branch facts; reasoned exception table",
    },
    "C11": {
        "level": "other",
        "text": "The greeting is computed statically per path (all emissions before the first flush are constants; a local capability array OR-ed under tls_config().is_some() is folded by forward constant propagation) and parsed with an independent protocol-10 parser: PROTOCOL_41 always, CLIENT_SSL exactly on the TLS-offered path and never in the no-tls build, one packet, sequence 0. HandshakeResponse41/320 cursor offsets (caps @0/@2, user @32 / @5, NUL-delimited; user omitted only for the pre-TLS SSL request). Gate: every accepting path passes exactly one after_authentication and its Ok arm, then one flushed OK; rejecting paths write ERR 1045/28000, flush, return the shim's error; no other callback; command loop only after Ok. The user name handed to the shim is a copy of the last parsed response's user slice; a client that set CLIENT_SSL never reaches the shim without the TLS switch and a second response. Both feature configurations.",
        "note": "Trusted: nom combinators; client acceptance of the constant version/salt is structural only.",
        "technique": "constant folding of emission sequences + independent greeting parser, affine cursor offsets, path rules over all enumerated handshake paths",
    },
    "C03": {
        "level": "other",
        "text": "Structural clauses of the response discipline: (1) the writer API is linear by types — completing methods consume self, writers are neither Clone nor Copy, fields and constructors are private (signature/impl/ADT tables from the type-checked program; thorough tier: 10 compile_fail witnesses with compiling twins); (2) the pending terminator is flushed first with more_results=true in start/complete_one/error and with false in no_more_results/Drop, the status word carries bit 0x0008 exactly on the more_results path, consumed with take(); (3) Finalizer::Ok iff zero columns, Eof otherwise, none on finish_error; (4) Drop impls complete; (5) per enumerated loop-iteration path: no-reply commands write nothing, library-answered commands always write, default shim methods use their writer (found and fixed: default on_init sent no reply); (6) a row packet ends only on paths whose conditions imply col == columns.len(), binary cells only after columns.get(col). The packet grammar for arbitrary writer programs is NOT decided. The OK and EOF packet layouts (position of the status word that carries the more-results bit) are checked on the symbolic byte stream; every store of a new pending terminator in a QueryResultWriter method is preceded by finalize on all paths; C04's framing clauses are evaluated here as well. The sequence-id clauses of C05 (stamp and wrap, reset per exchange) are evaluated together with them (one `wire bundle`).",
        "note": "Trusted: rustc's move checking; protocol grammar of OK/EOF/ERR as encoded in spec/. Does not model arbitrary shim programs.",
        "technique": "type-level typestate (signature tables + compile_fail witnesses), path rules with branch-condition bounds, effect analysis per loop-iteration path",
    },
    "C14": {
        "level": "other",
        "text": "OK-packet layout on every Ok path with both counts being the u64 parameters handed unmodified to the library lenenc writer; def-use of (rows, last_insert_id) from complete_one through the Finalizer aggregate into the OK writer's parameters in order; zero-column counter: +1 per end_row on every zero-column path, untouched by write_col, exactly one end_row per write_row, starts at 0, and completion reads the counter on a path on which nothing may have modified it (clobber-aware path-precise load) with last_insert_id 0. The OK layout is compared on the symbolic byte stream; C04's framing clauses are evaluated here as well. The sequence-id clauses of C05 (stamp and wrap, reset per exchange) are evaluated together with them (one `wire bundle`).",
        "note": "Trusted: mysql_common::write_lenenc_int size classes.",
        "technique": "emission-sequence analysis + path-precise def-use with memory clobber tracking (field-write summaries)",
    },
    "C19": {
        "level": "other",
        "text": "Error-discipline rules on every Result-producing call site in non-test code (def-use to `?`, tail return, adaptor chains or an explicit match whose Err arm cannot reach an Ok return), the reader's Ok(None) only under read==0 && empty buffer with the sibling EOF-inside-packet path returning Err, Ok exits of the command loop only from the reader's None arm or Quit, every reader result in the handshake turned into an error on None, identity conversion of shim errors, no shim callback reachable after an error-building block, an inventory of unwrap/expect on connection-touching io results (found and fixed: the two Drop impls panicked on a transport error), and the deferred-error channel that replaced them (Drop hands the finaliser's error to the connection on every error path, flush returns it before doing anything else). The flush that reports a deferred error is C12's: its rules (flush complete before every wait, on every path) are evaluated here as well.",
        "note": "Trusted: dependencies do not swallow errors; panics inside the shim are the shim's. Fault injection at run time is not performed: the rules are necessary conditions on all paths.",
        "technique": "def-use result-discipline analysis, path rules on enumerated CFG paths, reachability from error blocks",
    },
    "C09": {
        "level": "other",
        "text": "Writer-side wire-layout analysis: emission sequences of the column-definition, resultset-header and PREPARE_OK writers on every Ok path vs the protocol layouts — slot kinds/widths, constants, which Column field feeds which slot, 0x0c fixed-field length vs bytes actually emitted, one packet per definition, count = lenenc(iter.len()) of the same iterator through the library lenenc writer without narrowing, PREPARE_OK field order and single u16 casts, EOF policy. Independent of name content/length and of counts (up to the u16 bound). C04's framing clauses (one transport write site, whole pending packet, in order) are evaluated here as well. The sequence-id clauses of C05 (stamp and wrap, reset per exchange) are evaluated together with them (one `wire bundle`).",
        "note": "Trusted: mysql_common lenenc writers; byteorder. Counts > 65535 out of the property's range.",
        "technique": "emission-sequence (wire layout) extraction over enumerated Ok-paths with origin terms per slot",
    },
    "C02": {
        "level": "other",
        "text": "Command-byte table extracted from the parser's MIR vs the protocol table (9 pairs, bijective); affine cursor offsets of Execute/SendLongData/Close fields vs the request layouts; per enumerated path through one loop iteration: which shim callbacks are reached and how often (table), none in inner loops; the text handed to the shim is the Ok payload of a checked from_utf8 over the command's whole payload (USE: payload[len(matched prefix)..] then trims only), ids are the variant's stmt; invalid UTF-8 exits with an error before any callback; slice starts agree with the prefix matched on that path. A delivered command presupposes a faithful packet reader: C01's reassembly rules are evaluated here as well.",
        "note": "Trusted: nom combinator semantics, str::trim*. Does not decide what trim yields for each spelling of USE (string values).",
        "technique": "MIR table extraction, affine cursor-offset analysis, path-precise def-use on enumerated CFG paths",
    },
    "C10": {
        "level": "other",
        "text": "Registry life-cycle rules over MIR (who creates/inserts/removes; lookup-or-error dominating on_execute and the long-data append with the same id on every enumerated path through one loop iteration; nothing but an error return after a failed lookup; close = on_close once + remove same id + no write; reply() inserts a fresh Default-based entry). Decides these structural necessary conditions for all interleavings because they hold on every CFG path; does not model HashMap itself.",
        "note": "Trusted: std HashMap semantics, rustc MIR, msqlx exporter; the shim replying with the id it means.",
        "technique": "call-graph who-may-call rules + path-precise def-use over enumerated CFG paths of the command loop",
    },
    "C12": {
        "level": "other",
        "text": "Interprocedural typestate {clean,dirty} over MIR with callee summaries: at every call of the single transport-reading function in the handshake and in the command loop (back edge included) the connection must be clean on all non-error paths; plus flush completeness (packet terminator then transport flush on every Ok path, TLS wrappers delegate), parse-before-read and single wait site. A path property over all schedules, decided on all CFG paths. After a read that delivered bytes, the next wait is preceded by a parse attempt unless remaining == 0 was established (read → read paths).",
        "note": "Trusted: the transport's flush() flushes; shim callbacks write only through the writer they are handed.",
        "technique": "typestate dataflow (forward may-analysis with interprocedural summaries), must-pass-through on enumerated paths",
    },
    "C16": {
        "level": "other",
        "text": "Def-use/dominance/cursor-offset rules on the parameter iterator: type table = bound_types of the statement entry handed in, mutated only there; clear+push confined to the types-present branch, clear dominates the push loop, loop over 0..params with one push per iteration, entry i = (byte 1+2i, bit 7 of byte 2+2i) after the flag; value cursor after the header = nullmap_len+1(+2n) on both branches (affine offsets from split_at/index chains); parser uses entry `col`. Found and fixed the reuse-branch defect (flag byte not consumed). Any `&mut` access to the type table or a store through `&mut (ColumnType, bool)` outside the rebind branch of the parameter iterator is a violation.",
        "note": "Trusted: Vec/slice semantics; protocol layout of COM_STMT_EXECUTE as encoded in the rule.",
        "technique": "affine cursor-offset analysis over origin terms, dominator rules, loop-shape check",
    },
    "C17": {
        "level": "other",
        "text": "Append-only (entry(param).or_insert_with.extend on the looked-up statement's long_data with this command's data), cleared on the same entry after on_execute on every completed path, long-data parameters bypass the inline parser with the NULL test first, storage owned by the per-statement entry only. Structural necessary conditions on every path; ordering of bytes inside Vec::extend is std's. The per-statement entry's life cycle (C10's registry rules: created fresh by the PREPARE reply only, removed by CLOSE only) is evaluated here as well.",
        "note": "Trusted: std Vec/HashMap semantics; reassembly of multi-packet chunks (C01).",
        "technique": "path-precise def-use over enumerated CFG paths, ownership table from the ADT export",
    },
    "C13": {
        "level": "other",
        "text": "Static table + dataflow check: the 886 ErrorKind discriminants are compared with the MIR switch tables of From<u16> and sqlstate() (bijection, totality, 5-byte states), the ERR writer's emission sequence is compared slot by slot with the protocol layout including the source of each slot, and the four public error entry points are followed by def-use to the ERR writer. Complete for the finite table clause; decides forwarding for all messages because the message is passed through untouched. The code→kind and kind→SQLSTATE tables are read off by path enumeration (match arms, or-patterns, wildcard arms, if-chains, helpers), the ERR layout is compared on the symbolic byte stream, and C04's framing clauses are evaluated here as well. The sequence-id clauses of C05 (stamp and wrap, reset per exchange) are evaluated together with them (one `wire bundle`). The ERR packet starts on a packet boundary: a refusal handed back to the shim by write_col/end_row/write_row has put nothing into the packet on that path, and finish_inner reaches Ok only with the pending row ended, none pending, or merely staged (found and fixed: the binary row header was buffered before the first value was encoded, so an error after a refused first cell arrived as 00 ff ..).",
        "note": "Trusted: rustc's MIR for match/enum casts, the msqlx exporter, byteorder/std write semantics. Client-side decoding is not analysed.",
        "technique": "MIR switch-table extraction, emission-sequence (wire layout) analysis, def-use of call arguments",
    },
}

NOT_APPLICABLE = {p: DEFERRED for p in ["C%02d" % i for i in range(1, 21)] if p not in CLAIMS}

NOTES = ("Technique family: static analysis only. Every check re-extracts facts from /repo's current working tree "
         "(content-hash keyed) with the msqlx rustc driver and evaluates python rules over MIR; nothing in msql-srv is executed.")
