// D9 (C20): a multi-packet request whose fragments carry non-consecutive sequence ids must be an
// error (or be served), never a panic.
mod harness;
use harness::*;
use msql_srv::*;
use std::io;
struct Shim;
impl MysqlShim<Pipe> for Shim {
    type Error = io::Error;
    fn on_prepare(&mut self, _: &str, i: StatementMetaWriter<'_, Pipe>) -> io::Result<()> { i.reply(1, &[], &[]) }
    fn on_execute(&mut self, _: u32, _: ParamParser<'_>, r: QueryResultWriter<'_, Pipe>) -> io::Result<()> { r.completed(0, 0) }
    fn on_close(&mut self, _: u32) {}
    fn on_query(&mut self, _: &str, r: QueryResultWriter<'_, Pipe>) -> io::Result<()> { r.completed(0, 0) }
}
fn big(seqs: &[u8]) -> Vec<u8> {
    let mut bytes = handshake();
    let mut body = vec![b' '; 0xFF_FFFF];
    body[0] = 0x03;
    let mut first = vec![0xff, 0xff, 0xff, seqs[0]];
    first.extend_from_slice(&body);
    bytes.extend(first);
    if seqs.len() == 3 {
        let mut second = vec![0xff, 0xff, 0xff, seqs[1]];
        second.extend_from_slice(&vec![b' '; 0xFF_FFFF]);
        bytes.extend(second);
    }
    bytes.extend(packet(*seqs.last().unwrap(), b"x"));
    bytes.extend(packet(0, &[0x01]));
    bytes
}
#[test]
fn out_of_order_fragments_do_not_panic() {
    for seqs in [&[0u8, 5][..], &[0, 1, 7][..], &[3, 3][..]] {
        let r = std::panic::catch_unwind(|| run(Shim, big(seqs)));
        let (res, _) = r.unwrap_or_else(|_| panic!("run_on panicked on fragment ids {:?}", seqs));
        assert!(res.is_err(), "non-consecutive fragment ids {:?} must be refused", seqs);
    }
}
#[test]
fn fragment_ids_wrap_at_255() {
    let r = std::panic::catch_unwind(|| run(Shim, big(&[255, 0])));
    let (res, out) = r.expect("run_on panicked on fragment ids 255, 0");
    res.unwrap();
    assert_eq!(split(&out).last().unwrap().0, 1);
    let r = std::panic::catch_unwind(|| run(Shim, big(&[254, 255, 0])));
    let (res, _) = r.expect("run_on panicked on fragment ids 254, 255, 0");
    res.unwrap();
}
