//! Compile-fail witnesses: the writer API of msql-srv cannot be used after completion.
//! Each `compile_fail,E….` block has a `no_run` twin that differs only by the offending line.
#![allow(dead_code)]

/// Shared prelude for the doctests below (a shim skeleton generic over the transport).
#[macro_export]
macro_rules! shim {
    ($body_query:item, $body_prepare:item) => {
        use msql_srv::*;
        use std::io;
        struct S;
        impl<W: io::Read + io::Write> MysqlShim<W> for S {
            type Error = io::Error;
            $body_prepare
            fn on_execute(&mut self, _: u32, _: ParamParser, r: QueryResultWriter<W>) -> io::Result<()> { r.completed(0, 0) }
            fn on_close(&mut self, _: u32) {}
            $body_query
        }
        fn main() {}
    };
}

/// W1: `start` twice on one QueryResultWriter.
/// ```compile_fail,E0382
/// msqlx_witnesses::shim!(
///   fn on_query(&mut self, _: &str, r: QueryResultWriter<W>) -> io::Result<()> {
///       let a = r.start(&[])?; drop(a);
///       let b = r.start(&[])?; b.finish()
///   },
///   fn on_prepare(&mut self, _: &str, i: StatementMetaWriter<W>) -> io::Result<()> { i.reply(1, &[], &[]) });
/// ```
/// ```no_run
/// msqlx_witnesses::shim!(
///   fn on_query(&mut self, _: &str, r: QueryResultWriter<W>) -> io::Result<()> {
///       let a = r.start(&[])?;
///       let r = a.finish_one()?; let b = r.start(&[])?; b.finish()
///   },
///   fn on_prepare(&mut self, _: &str, i: StatementMetaWriter<W>) -> io::Result<()> { i.reply(1, &[], &[]) });
/// ```
pub struct W1;

/// W2: `completed` then `start`.
/// ```compile_fail,E0382
/// msqlx_witnesses::shim!(
///   fn on_query(&mut self, _: &str, r: QueryResultWriter<W>) -> io::Result<()> {
///       r.completed(1, 0)?;
///       r.start(&[])?.finish()
///   },
///   fn on_prepare(&mut self, _: &str, i: StatementMetaWriter<W>) -> io::Result<()> { i.reply(1, &[], &[]) });
/// ```
/// ```no_run
/// msqlx_witnesses::shim!(
///   fn on_query(&mut self, _: &str, r: QueryResultWriter<W>) -> io::Result<()> {
///       let r = r.complete_one(1, 0)?;
///       r.start(&[])?.finish()
///   },
///   fn on_prepare(&mut self, _: &str, i: StatementMetaWriter<W>) -> io::Result<()> { i.reply(1, &[], &[]) });
/// ```
pub struct W2;

/// W3: `write_col` after `finish()`.
/// ```compile_fail,E0382
/// msqlx_witnesses::shim!(
///   fn on_query(&mut self, _: &str, r: QueryResultWriter<W>) -> io::Result<()> {
///       let mut w = r.start(&[])?;
///       w.finish()?;
///       w.write_col(1u8)
///   },
///   fn on_prepare(&mut self, _: &str, i: StatementMetaWriter<W>) -> io::Result<()> { i.reply(1, &[], &[]) });
/// ```
/// ```no_run
/// msqlx_witnesses::shim!(
///   fn on_query(&mut self, _: &str, r: QueryResultWriter<W>) -> io::Result<()> {
///       let mut w = r.start(&[])?;
///       w.write_col(1u8)?;
///       w.finish()
///   },
///   fn on_prepare(&mut self, _: &str, i: StatementMetaWriter<W>) -> io::Result<()> { i.reply(1, &[], &[]) });
/// ```
pub struct W3;

/// W4: `write_row` after `finish_one()`.
/// ```compile_fail,E0382
/// msqlx_witnesses::shim!(
///   fn on_query(&mut self, _: &str, r: QueryResultWriter<W>) -> io::Result<()> {
///       let mut w = r.start(&[])?;
///       let r2 = w.finish_one()?;
///       w.write_row(&[1u8])?;
///       r2.no_more_results()
///   },
///   fn on_prepare(&mut self, _: &str, i: StatementMetaWriter<W>) -> io::Result<()> { i.reply(1, &[], &[]) });
/// ```
/// ```no_run
/// msqlx_witnesses::shim!(
///   fn on_query(&mut self, _: &str, r: QueryResultWriter<W>) -> io::Result<()> {
///       let mut w = r.start(&[])?;
///       w.write_row(&[1u8])?;
///       let r2 = w.finish_one()?;
///       r2.no_more_results()
///   },
///   fn on_prepare(&mut self, _: &str, i: StatementMetaWriter<W>) -> io::Result<()> { i.reply(1, &[], &[]) });
/// ```
pub struct W4;

/// W5: `finish_error` then `finish`.
/// ```compile_fail,E0382
/// msqlx_witnesses::shim!(
///   fn on_query(&mut self, _: &str, r: QueryResultWriter<W>) -> io::Result<()> {
///       let w = r.start(&[])?;
///       w.finish_error(ErrorKind::ER_NO, &b"x".to_vec())?;
///       w.finish()
///   },
///   fn on_prepare(&mut self, _: &str, i: StatementMetaWriter<W>) -> io::Result<()> { i.reply(1, &[], &[]) });
/// ```
/// ```no_run
/// msqlx_witnesses::shim!(
///   fn on_query(&mut self, _: &str, r: QueryResultWriter<W>) -> io::Result<()> {
///       let w = r.start(&[])?;
///       w.finish_error(ErrorKind::ER_NO, &b"x".to_vec())
///   },
///   fn on_prepare(&mut self, _: &str, i: StatementMetaWriter<W>) -> io::Result<()> { i.reply(1, &[], &[]) });
/// ```
pub struct W5;

/// W6: `reply` then `error` on a StatementMetaWriter.
/// ```compile_fail,E0382
/// msqlx_witnesses::shim!(
///   fn on_query(&mut self, _: &str, r: QueryResultWriter<W>) -> io::Result<()> { r.completed(0, 0) },
///   fn on_prepare(&mut self, _: &str, i: StatementMetaWriter<W>) -> io::Result<()> {
///       i.reply(1, &[], &[])?;
///       i.error(ErrorKind::ER_NO, &b"x"[..])
///   });
/// ```
/// ```no_run
/// msqlx_witnesses::shim!(
///   fn on_query(&mut self, _: &str, r: QueryResultWriter<W>) -> io::Result<()> { r.completed(0, 0) },
///   fn on_prepare(&mut self, _: &str, i: StatementMetaWriter<W>) -> io::Result<()> {
///       i.error(ErrorKind::ER_NO, &b"x"[..])
///   });
/// ```
pub struct W6;

/// W7: `error` twice on a QueryResultWriter.
/// ```compile_fail,E0382
/// msqlx_witnesses::shim!(
///   fn on_query(&mut self, _: &str, r: QueryResultWriter<W>) -> io::Result<()> {
///       r.error(ErrorKind::ER_NO, &b"x"[..])?;
///       r.error(ErrorKind::ER_NO, &b"y"[..])
///   },
///   fn on_prepare(&mut self, _: &str, i: StatementMetaWriter<W>) -> io::Result<()> { i.reply(1, &[], &[]) });
/// ```
/// ```no_run
/// msqlx_witnesses::shim!(
///   fn on_query(&mut self, _: &str, r: QueryResultWriter<W>) -> io::Result<()> {
///       r.error(ErrorKind::ER_NO, &b"x"[..])
///   },
///   fn on_prepare(&mut self, _: &str, i: StatementMetaWriter<W>) -> io::Result<()> { i.reply(1, &[], &[]) });
/// ```
pub struct W7;

/// W8: using the QueryResultWriter while its RowWriter is alive (it was moved into it).
/// ```compile_fail,E0382
/// msqlx_witnesses::shim!(
///   fn on_query(&mut self, _: &str, r: QueryResultWriter<W>) -> io::Result<()> {
///       let mut w = r.start(&[])?;
///       r.completed(0, 0)?;
///       w.write_col(1u8)
///   },
///   fn on_prepare(&mut self, _: &str, i: StatementMetaWriter<W>) -> io::Result<()> { i.reply(1, &[], &[]) });
/// ```
/// ```no_run
/// msqlx_witnesses::shim!(
///   fn on_query(&mut self, _: &str, r: QueryResultWriter<W>) -> io::Result<()> {
///       let mut w = r.start(&[])?;
///       w.write_col(1u8)?;
///       w.finish()
///   },
///   fn on_prepare(&mut self, _: &str, i: StatementMetaWriter<W>) -> io::Result<()> { i.reply(1, &[], &[]) });
/// ```
pub struct W8;

/// W9: writers cannot be constructed by a shim (private fields).
/// ```compile_fail,E0451
/// use msql_srv::*;
/// fn forge<'a, W: std::io::Read + std::io::Write>(w: &'a mut Vec<u8>) -> InitWriter<'a, W> {
///     InitWriter { writer: unimplemented!() }
/// }
/// fn main() {}
/// ```
/// ```no_run
/// use msql_srv::*;
/// fn pass<'a, W: std::io::Read + std::io::Write>(i: InitWriter<'a, W>) -> InitWriter<'a, W> {
///     i
/// }
/// fn main() {}
/// ```
pub struct W9;

/// W10: `InitWriter::ok` twice.
/// ```compile_fail,E0382
/// use msql_srv::*;
/// fn twice<W: std::io::Read + std::io::Write>(i: InitWriter<W>) -> std::io::Result<()> {
///     i.ok()?;
///     i.ok()
/// }
/// fn main() {}
/// ```
/// ```no_run
/// use msql_srv::*;
/// fn once<W: std::io::Read + std::io::Write>(i: InitWriter<W>) -> std::io::Result<()> {
///     i.ok()
/// }
/// fn main() {}
/// ```
pub struct W10;
