// D8 (C20): malformed COM_STMT_EXECUTE parameter blocks panic inside Params::next (driven by the
// shim iterating the parameters): truncated bitmap, truncated type table, unknown type code,
// reuse of types on a never-bound statement, truncated value.
mod harness;
use harness::*;
use msql_srv::*;
use std::io;
struct Shim;
impl MysqlShim<Pipe> for Shim {
    type Error = io::Error;
    fn on_prepare(&mut self, _: &str, i: StatementMetaWriter<'_, Pipe>) -> io::Result<()> {
        let p: Vec<Column> = (0..9).map(|_| Column { table: String::new(), column: "p".into(), coltype: ColumnType::MYSQL_TYPE_LONG, colflags: ColumnFlags::empty() }).collect();
        i.reply(1, &p, &[])
    }
    fn on_execute(&mut self, _: u32, p: ParamParser<'_>, r: QueryResultWriter<'_, Pipe>) -> io::Result<()> {
        let _n = p.into_iter().count();
        r.completed(0, 0)
    }
    fn on_close(&mut self, _: u32) {}
    fn on_query(&mut self, _: &str, r: QueryResultWriter<'_, Pipe>) -> io::Result<()> { r.completed(0, 0) }
}
fn exec(tail: &[u8]) -> Vec<u8> {
    let mut b = handshake();
    b.extend(packet(0, b"\x16SELECT ?"));
    let mut e = vec![0x17, 1, 0, 0, 0, 0, 1, 0, 0, 0];
    e.extend_from_slice(tail);
    b.extend(packet(0, &e));
    b.extend(packet(0, &[0x01]));
    b
}
#[test]
fn malformed_parameter_blocks_do_not_panic() {
    let cases: [(&str, &[u8]); 5] = [
        ("payload shorter than the NULL bitmap (9 params need 2 bytes)", &[0x00]),
        ("type table truncated", &[0x00, 0x00, 0x01, 0x03, 0x00]),
        ("unknown type code 0x70", &[0x00, 0x00, 0x01, 0x70, 0, 3, 0, 3, 0, 3, 0, 3, 0, 3, 0, 3, 0, 3, 0, 3, 0]),
        ("types reused on a statement that never bound any", &[0x00, 0x00, 0x00, 1, 0, 0, 0]),
        ("value truncated", &[0x00, 0x00, 0x01, 3, 0, 3, 0, 3, 0, 3, 0, 3, 0, 3, 0, 3, 0, 3, 0, 3, 0, 1, 0]),
    ];
    let mut panicked = Vec::new();
    for (name, tail) in cases {
        let bytes = exec(tail);
        if std::panic::catch_unwind(|| run(Shim, bytes)).is_err() { panicked.push(name); }
    }
    assert!(panicked.is_empty(), "run_on panicked for: {:?}", panicked);
}
