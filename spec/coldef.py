"""ColumnDefinition41, resultset header, COM_STMT_PREPARE_OK, OK, EOF layouts (protocol documentation).
Slots: (kind, meaning).  kind: lestr | lenenc | u8 | u16 | u32 | raw(n)"""
COLDEF41 = [
    ("lestr", "catalog = 'def'"),
    ("lestr", "schema"),
    ("lestr", "table"),
    ("lestr", "org_table"),
    ("lestr", "name"),
    ("lestr", "org_name"),
    ("lenenc", "length of fixed fields = 0x0c"),
    ("u16", "character set"),
    ("u32", "column length"),
    ("u8", "type"),
    ("u16", "flags"),
    ("u8", "decimals"),
    ("raw2", "filler"),
]
FIXED_FIELDS_LEN = 0x0c   # 2 + 4 + 1 + 2 + 1 + 2
PREPARE_OK = [("u8", "status 0"), ("u32", "statement id"), ("u16", "num_columns"), ("u16", "num_params"), ("u8", "filler 0"), ("u16", "warnings")]
OK = [("u8", "header 0"), ("lenenc", "affected rows"), ("lenenc", "last insert id"), ("u16", "status flags"), ("u16", "warnings")]
EOF_PKT = [("u8", "header fe"), ("u16", "warnings"), ("u16", "status flags")]
MORE_RESULTS_EXISTS = 0x0008
