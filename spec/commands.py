"""MySQL command phase: command bytes and fixed request layouts (from the protocol documentation).
Offsets are relative to the byte after the command byte."""
COMMAND_BYTES = {
    0x01: "Quit",
    0x02: "Init",          # COM_INIT_DB   : schema name = rest
    0x03: "Query",         # COM_QUERY     : text = rest
    0x04: "ListFields",    # COM_FIELD_LIST
    0x0e: "Ping",
    0x16: "Prepare",       # COM_STMT_PREPARE : text = rest
    0x17: "Execute",       # COM_STMT_EXECUTE
    0x18: "SendLongData",  # COM_STMT_SEND_LONG_DATA
    0x19: "Close",         # COM_STMT_CLOSE
}
# field -> (offset, width or None for "rest")
LAYOUT = {
    "Execute": {"stmt": (0, 4), "params": (9, None)},          # stmt u32 | flags u8 | iterations u32 | params...
    "SendLongData": {"stmt": (0, 4), "param": (4, 2), "data": (6, None)},
    "Close": {0: (0, 4)},
    "Query": {0: (0, None)}, "Prepare": {0: (0, None)}, "Init": {0: (0, None)}, "ListFields": {0: (0, None)},
}
# which shim callbacks a command may reach, and how many times on a completed iteration
CALLBACKS = {
    "Query": {"allowed": {"on_query", "on_init"}, "exact": None, "max": 1},
    "Prepare": {"allowed": {"on_prepare"}, "exact": 1},
    "Execute": {"allowed": {"on_execute"}, "exact": 1},
    "Close": {"allowed": {"on_close"}, "exact": 1},
    "Init": {"allowed": {"on_init"}, "exact": 1},
    "SendLongData": {"allowed": set(), "exact": 0},
    "ListFields": {"allowed": set(), "exact": 0},
    "Ping": {"allowed": set(), "exact": 0},
    "Quit": {"allowed": set(), "exact": 0},
}
NO_REPLY = {"Close", "SendLongData", "Quit"}
