"""Claim table: which properties are claimed, at which level, by which technique."""
DEFERRED = "rules for this property are not armed yet (build order: DESIGN.md Appendix D); not claimed until a self-tested rule exists"

CLAIMS = {
    "C13": {
        "level": "other",
        "text": "Static table + dataflow check: the 886 ErrorKind discriminants are compared with the MIR switch tables of From<u16> and sqlstate() (bijection, totality, 5-byte states), the ERR writer's emission sequence is compared slot by slot with the protocol layout including the source of each slot, and the four public error entry points are followed by def-use to the ERR writer. Complete for the finite table clause; decides forwarding for all messages because the message is passed through untouched.",
        "note": "Trusted: rustc's MIR for match/enum casts, the msqlx exporter, byteorder/std write semantics. Client-side decoding is not analysed.",
        "technique": "MIR switch-table extraction, emission-sequence (wire layout) analysis, def-use of call arguments",
    },
}

NOT_APPLICABLE = {p: DEFERRED for p in ["C%02d" % i for i in range(1, 21)] if p not in CLAIMS}

NOTES = ("Technique family: static analysis only. Every check re-extracts facts from /repo's current working tree "
         "(content-hash keyed) with the msqlx rustc driver and evaluates python rules over MIR; nothing in msql-srv is executed.")
