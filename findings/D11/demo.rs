// D11 (C08): the zero-length DATE / DATETIME form (MySQL's zero date 0000-00-00) cannot be converted:
// From<Value> for NaiveDate / NaiveDateTime panics on the length assertion.
mod harness;
use harness::*;
use msql_srv::*;
use std::io;
extern crate chrono;
use chrono::{NaiveDate, NaiveDateTime};
thread_local! { static SEEN: std::cell::RefCell<Vec<String>> = Default::default(); }
struct Shim;
impl MysqlShim<Pipe> for Shim {
    type Error = io::Error;
    fn on_prepare(&mut self, _: &str, i: StatementMetaWriter<'_, Pipe>) -> io::Result<()> {
        let p: Vec<Column> = (0..2).map(|_| Column { table: String::new(), column: "p".into(), coltype: ColumnType::MYSQL_TYPE_DATETIME, colflags: ColumnFlags::empty() }).collect();
        i.reply(1, &p, &[])
    }
    fn on_execute(&mut self, _: u32, p: ParamParser<'_>, r: QueryResultWriter<'_, Pipe>) -> io::Result<()> {
        for (i, v) in p.into_iter().enumerate() {
            let s = std::panic::catch_unwind(std::panic::AssertUnwindSafe(|| {
                if i == 0 { format!("{:?}", NaiveDateTime::from(v.value)) } else { format!("{:?}", NaiveDate::from(v.value)) }
            })).unwrap_or_else(|_| "PANIC".to_string());
            SEEN.with(|x| x.borrow_mut().push(s));
        }
        r.completed(0, 0)
    }
    fn on_close(&mut self, _: u32) {}
    fn on_query(&mut self, _: &str, r: QueryResultWriter<'_, Pipe>) -> io::Result<()> { r.completed(0, 0) }
}
#[test]
fn zero_length_date_forms_convert_without_panicking() {
    let mut b = handshake();
    b.extend(packet(0, b"\x16SELECT ?,?"));
    // DATETIME with length 0, DATE with length 0
    b.extend(packet(0, &[0x17, 1, 0, 0, 0, 0, 1, 0, 0, 0, 0x00, 0x01, 12, 0, 10, 0, 0, 0]));
    b.extend(packet(0, &[0x01]));
    let (r, _) = run(Shim, b);
    r.unwrap();
    let seen = SEEN.with(|x| x.borrow().clone());
    assert!(!seen.iter().any(|s| s == "PANIC"), "conversions: {:?}", seen);
}
