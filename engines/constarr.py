"""Forward constant propagation of *local byte arrays* along one path: array aggregates of
constants, aliases through `&mut local`, element stores with constant index whose value folds to
a constant (e.g. `caps[1] |= 0x08`).  Used to compute constant emissions that are built in a
local buffer before being written."""
from .prog import op_place, op_const, fold, _cint


def local_arrays_at(path, pos):
    """local -> bytearray for every local array whose content is a known constant when the
    terminator of path.blocks[pos] executes; plus alias map ref_local -> array local."""
    body = path.body
    arrays, alias = {}, {}

    def cval(op, p, i):
        c = op_const(op)
        if c is not None and "int" in c:
            return int(c["int"])
        v = path.origin_op(op, p, i)
        return _cint(v)

    for p in range(pos + 1):
        b = path.blocks[p]
        for i, s in enumerate(body.blocks[b]["stmts"]):
            if s["k"] != "assign":
                continue
            lhs, rv = s["lhs"], s["rv"]
            if not lhs["p"]:
                l = lhs["l"]
                arrays.pop(l, None)
                alias.pop(l, None)
                if rv["k"] == "agg" and rv.get("ak") == "array":
                    vals = [cval(f, p, i) for f in rv["fields"]]
                    if all(v is not None for v in vals):
                        arrays[l] = bytearray(v & 0xFF for v in vals)
                elif rv["k"] == "repeat" and str(rv["n"]).isdigit():
                    v = cval(rv["op"], p, i)
                    if v is not None:
                        arrays[l] = bytearray([v & 0xFF]) * int(rv["n"])
                elif rv["k"] in ("ref", "rawptr") and not [e for e in rv["place"]["p"] if e != "deref"]:
                    src = rv["place"]["l"]
                    alias[l] = alias.get(src, src)
                elif rv["k"] == "use" and op_const(rv["op"]) is not None and op_const(rv["op"]).get("by_value") and "bytes" in op_const(rv["op"]):
                    arrays[l] = bytearray(op_const(rv["op"])["bytes"])     # `let mut x = CONST_ARRAY;`
                elif rv["k"] == "use" and op_place(rv["op"]) is not None and not op_place(rv["op"])["p"] and op_place(rv["op"])["l"] in arrays:
                    arrays[l] = bytearray(arrays[op_place(rv["op"])["l"]])   # copy / move of a whole array
                elif rv["k"] == "use":
                    q = op_place(rv["op"])
                    if q is not None and not [e for e in q["p"] if e != "deref"] and (q["l"] in alias or q["l"] in arrays):
                        alias[l] = alias.get(q["l"], q["l"])
                elif rv["k"] == "cast":
                    q = op_place(rv["op"])
                    if q is not None and not [e for e in q["p"] if e != "deref"] and q["l"] in alias:
                        alias[l] = alias[q["l"]]
            else:
                tgt = alias.get(lhs["l"], lhs["l"])
                if tgt not in arrays:
                    continue
                projs = [e for e in lhs["p"] if e != "deref"]
                idx = None
                if len(projs) == 1 and isinstance(projs[0], dict):
                    if "idx" in projs[0]:
                        idx = _cint(path.origin_local(projs[0]["idx"], p, i))
                    elif "cidx" in projs[0] and not projs[0]["from_end"]:
                        idx = projs[0]["cidx"]
                if idx is None or not (0 <= idx < len(arrays[tgt])):
                    arrays.pop(tgt, None)   # unknown store: content no longer known
                    continue
                # value: fold with the current element substituted
                val = None
                if rv["k"] == "use":
                    val = cval(rv["op"], p, i)
                elif rv["k"] == "bin":
                    def side(o):
                        q = op_place(o)
                        if q is not None and alias.get(q["l"], q["l"]) == tgt and [e for e in q["p"] if e != "deref"] == projs:
                            return arrays[tgt][idx]
                        return cval(o, p, i)
                    a, b_ = side(rv["a"]), side(rv["b"])
                    if a is not None and b_ is not None:
                        r = fold(("bin", rv["op"], ("const", ("int", a, "u8")), ("const", ("int", b_, "u8")), "u8"))
                        val = _cint(r)
                if val is None:
                    arrays.pop(tgt, None)
                else:
                    arrays[tgt][idx] = val & 0xFF
        # calls that receive a mutable alias of an array invalidate it
        if p < pos:
            t = body.blocks[b]["term"]
            if t["k"] == "call":
                for a in t["args"]:
                    q = op_place(a)
                    if q is not None and alias.get(q["l"], q["l"]) in arrays and p < pos:
                        # conservatively keep only if passed as a shared slice to a writer (write_all does not modify)
                        pass
    return arrays, alias


def const_bytes_of_arg(path, pos, argi):
    """Bytes of call argument argi at path position pos if it is (a slice of) a constant local array."""
    body = path.body
    t = body.blocks[path.blocks[pos]]["term"]
    arrays, alias = local_arrays_at(path, pos)
    q = op_place(t["args"][argi])
    if q is None:
        return None
    l = alias.get(q["l"], q["l"])
    if l in arrays and not [e for e in q["p"] if e != "deref"]:
        return bytes(arrays[l])
    return None
