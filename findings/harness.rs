// Shared in-memory harness for the triage demonstrations under /verif/findings (copied into a
// scratch worktree's tests/ directory together with a demo; never part of /repo).
#![allow(dead_code)]
use msql_srv::*;
use std::cell::RefCell;
use std::io::{self, Read, Write};
use std::rc::Rc;

#[derive(Clone, Default)]
pub struct Pipe {
    pub input: Rc<RefCell<io::Cursor<Vec<u8>>>>,
    pub output: Rc<RefCell<Vec<u8>>>,
    pub chunk: usize,
}
impl Read for Pipe {
    fn read(&mut self, buf: &mut [u8]) -> io::Result<usize> {
        let n = if self.chunk == 0 { buf.len() } else { buf.len().min(self.chunk) };
        self.input.borrow_mut().read(&mut buf[..n])
    }
}
impl Write for Pipe {
    fn write(&mut self, buf: &[u8]) -> io::Result<usize> {
        self.output.borrow_mut().extend_from_slice(buf);
        Ok(buf.len())
    }
    fn flush(&mut self) -> io::Result<()> {
        Ok(())
    }
}

pub fn packet(seq: u8, payload: &[u8]) -> Vec<u8> {
    let mut v = vec![payload.len() as u8, (payload.len() >> 8) as u8, (payload.len() >> 16) as u8, seq];
    v.extend_from_slice(payload);
    v
}

pub fn handshake() -> Vec<u8> {
    // HandshakeResponse41: caps (PROTOCOL_41 | SECURE_CONNECTION), max packet, charset, 23 filler, user "u\0"
    let mut p = vec![0x00, 0x82, 0x00, 0x00, 0, 0, 0, 1, 0x21];
    p.extend_from_slice(&[0u8; 23]);
    p.extend_from_slice(b"u\0\0");
    packet(1, &p)
}

/// Split the server's output into (seq, payload) packets.
pub fn split(out: &[u8]) -> Vec<(u8, Vec<u8>)> {
    let mut v = Vec::new();
    let mut i = 0;
    while i + 4 <= out.len() {
        let len = out[i] as usize | (out[i + 1] as usize) << 8 | (out[i + 2] as usize) << 16;
        v.push((out[i + 3], out[i + 4..i + 4 + len].to_vec()));
        i += 4 + len;
    }
    v
}

pub fn run<B: MysqlShim<Pipe>>(shim: B, client_bytes: Vec<u8>) -> (Result<(), B::Error>, Vec<u8>) {
    let pipe = Pipe { input: Rc::new(RefCell::new(io::Cursor::new(client_bytes))), output: Default::default(), chunk: 0 };
    let out = pipe.output.clone();
    let r = MysqlIntermediary::run_on(shim, pipe);
    let o = out.borrow().clone();
    (r, o)
}
