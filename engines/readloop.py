"""Shared rule over the transport reader's loop: the transport is (re-)read without a parse attempt only on a
path that established that nothing is buffered (`remaining == 0`).

Two families of paths are examined: from the loop header (or function entry) to the read, and from the read round to the
read again.  On such a path that does not pass the packet parser, some decision must test the *current* value of the
`remaining` field against zero and take the zero side.  A stronger gate (a `looks complete` predicate, a byte-count
threshold, `the last read filled the buffer`) can leave a completely received command unparsed while the server waits."""
from .paths import enumerate_paths
from . import terms as T
from .prog import term_str


def _remaining_place(fr):
    for bb, i, s in fr.stmts():
        if s["k"] != "assign":
            continue
        for e in s["lhs"]["p"]:
            if isinstance(e, dict) and e.get("n") == "remaining" and s["lhs"]["l"] == 1:
                return {"l": 1, "p": ["deref", e]}
    return None


def establishes_empty(fr, p, rem_place):
    """(True/False, [other decisions]) — does some decision on p test the current `remaining` against 0 and find it 0?"""
    gates = []
    for i, blk, v, truth in p.decisions():
        if isinstance(v, tuple) and v[0] == "bin" and v[1] in ("Ne", "Eq") and T.is_const_int(v[3], 0):
            cur = p.origin_place(rem_place, i) if rem_place is not None else None
            if T.is_field(T.peel(v[2]), "remaining") or (cur is not None and cur[0] != "unknown" and v[2] == cur):
                if (v[1] == "Eq") == truth:
                    return True, gates
                continue
        gates.append(term_str(v)[:70])
    return False, gates


def unparsed_reads(fr, read_bb, parser_bbs, starts):
    """[(kind, path, ok, gates)] for every path from a start (`entry`/header block, or the read itself) to the read that
    does not pass a parser call."""
    rem = _remaining_place(fr)
    out = []
    for kind, st in starts:
        for p in enumerate_paths(fr, start=st, stop_at={read_bb} | set(parser_bbs), max_visits=2 if st == read_bb else 1):
            if p.end != "stop" or p.blocks[-1] != read_bb:
                continue
            ok, gates = establishes_empty(fr, p, rem)
            out.append((kind, p, ok, gates))
    return out


def built_verdicts(prog, parser_fn):
    """[(function, body, bb, idx, variant)] for every `nom::Err` value the framing parsers construct themselves
    (everything reachable from the reader's parser call).  The reader takes Error/Incomplete as `read more`, so a
    verdict about a complete but malformed message must be `Failure`."""
    out = []
    for fn_ in sorted(prog.reachable_fns([parser_fn])):
        b = prog.bodies.get(fn_)
        if b is None or b.kind not in ("fn", "closure"):
            continue
        for bb, i, s_ in b.stmts():
            if s_["k"] == "assign" and s_["rv"]["k"] == "agg" and s_["rv"].get("ak") == "adt" and s_["rv"]["adt"] == "nom::Err":
                out.append((fn_, b, bb, i, s_["rv"]["vname"]))
    return out
