"""C09 — column metadata reaches the client exactly as the shim declared it."""
import re

from engines import wire
from engines.prog import cname, term_str
from engines import terms as T
from spec import coldef as SPEC

CONFIGS = ["tls"]
LEVEL = "other"
EXPLANATION = (
    "Wire-layout analysis (writer side). For every Ok-path of the column-definition writer, of the resultset-header writer and "
    "of the PREPARE_OK writer, the emission sequence (resolved byteorder / lenenc / write_all / packet-end calls with the origin "
    "term of each value) is compared slot by slot with the protocol layout: kinds and widths, constants ('def', 0x0c fixed-field "
    "length — checked against the bytes actually emitted after it), which Column field feeds which slot (table, column, coltype, "
    "colflags.bits()), one packet end per definition, 0xFB only under the field-list flag. Counts: the header packet is one "
    "lenenc-int of the iterator's len() — through the length-encoded-integer writer, not a hand-rolled byte — followed by the "
    "definitions of the same iterator and an EOF; PREPARE_OK carries id, columns.len(), params.len() in that order as u16 with a "
    "single narrowing cast each, then parameter definitions, then column definitions, EOF policy `skip only if empty && flag`. "
    "Holds for any name content/length and any count because the layout does not depend on them.")
ASSUMPTIONS = [
    "mysql_common write_lenenc_int / write_lenenc_str encode every size class correctly (trusted library)",
    "counts above 65535 are out of the property's range (usize -> u16 casts are exact up to 65535)",
]

KIND = {"lestr": "lenenc_str", "lenenc": "lenenc_int"}


def slot_ok(em, kind):
    if kind in KIND:
        return em.kind == KIND[kind]
    if kind in ("u8", "u16", "u32"):
        w = {"u8": 1, "u16": 2, "u32": 4}[kind]
        if em.kind == "fixed":
            return em.width == w
        if em.kind == "raw":
            cb = em.const_bytes()
            return cb is not None and len(cb) == w
        return False
    if kind.startswith("raw"):
        n = int(kind[3:])
        cb = em.const_bytes()
        return cb is not None and len(cb) == n
    return False


def _width(kind):
    if kind in ("u8", "u16", "u32"):
        return {"u8": 1, "u16": 2, "u32": 4}[kind]
    if kind.startswith("raw"):
        return int(kind[3:])
    return None


def regroup(ems, spec):
    """Re-chunk compile-time-constant emissions so that their boundaries follow the spec's fixed-width slots: how a run of
    constant bytes is split over write calls does not change the byte stream (one write of 00 00 00 == write 00, then 00 00)."""
    out, buf, src, i = [], b"", None, 0
    for kind, _ in spec:
        w = _width(kind)
        if w is None:
            if buf:
                break
            if i >= len(ems):
                break
            out.append(ems[i]); i += 1
            continue
        if not buf and i < len(ems) and slot_ok(ems[i], kind):
            out.append(ems[i]); i += 1
            continue
        while len(buf) < w and i < len(ems) and ems[i].kind in ("raw", "fixed") and ems[i].const_bytes() is not None:
            buf += ems[i].const_bytes(); src = ems[i]; i += 1
        if len(buf) < w:
            break
        out.append(wire.Em("raw", value=("const", ("bytes", buf[:w])), bb=src.bb, line=src.line))
        buf = buf[w:]
    if buf:
        out.append(wire.Em("raw", value=("const", ("bytes", buf)), bb=src.bb, line=src.line))
    return out + list(ems[i:])


def item_field(t, name):
    """is t `(<loop item>).<name>` possibly through as_bytes()/bits()/cast?"""
    t = T.peel(t, extra_rx=r"(String::as_bytes|ColumnFlags>::bits|::bits)$", casts=True)
    if isinstance(t, tuple) and t[0] == "discr":
        t = t[1]
    return T.is_field(t, name) and T.contains(t[1], lambda x: T.is_call(x, r"Iterator::next$|Iterator>::next$"))


def run(ctx):
    prog = ctx.prog("tls")
    ctx.rule("C09.coldef-layout", "ColumnDefinition41 slots, constants, field sources, one packet end per definition")
    ctx.rule("C09.count-packet", "resultset header = lenenc(iter.len()) in its own packet, then definitions of that iterator, then EOF")
    ctx.rule("C09.prepare-ok", "PREPARE_OK layout and order; params then columns definitions")
    ctx.rule("C09.eof-policy", "EOF after a definition block skipped only under empty && only_eof_on_nonempty")

    wcd = prog.one(r"^writers::write_column_definitions$")
    cd = prog.one(r"^writers::column_definitions$")
    wpo = prog.one(r"^writers::write_prepare_ok$")
    for b in (wcd, cd, wpo):
        ctx.fn(b)

    def coldef_group_ok(group):
        """one column definition = the ColumnDefinition41 slots fed from the iterated Column, then exactly one packet end"""
        if not group or group[-1].kind != "end_packet" or any(e.kind == "end_packet" for e in group[:-1]):
            return False, "a column definition must be exactly one packet"
        slots = regroup(group[:-1], SPEC.COLDEF41)
        if len(slots) != len(SPEC.COLDEF41):
            return False, "expected %d slots, found %d" % (len(SPEC.COLDEF41), len(slots))
        for (kind, meaning), em in zip(SPEC.COLDEF41, slots):
            if not slot_ok(em, kind):
                return False, "slot `%s` must be %s, found %s" % (meaning, kind, em.short()[:60])
        srcs = [
            (slots[0].const_bytes() == b"\x03def", "catalog must be the constant 'def'"),
            (slots[1].const_bytes() == b"\x00", "schema must be empty"),
            (item_field(slots[2].value, "table"), "table slot must be fed from Column.table"),
            (slots[3].const_bytes() == b"\x00", "org_table must be empty"),
            (item_field(slots[4].value, "column"), "name slot must be fed from Column.column"),
            (slots[5].const_bytes() == b"\x00", "org_name must be empty"),
            (slots[6].const_bytes() == bytes([SPEC.FIXED_FIELDS_LEN]), "fixed-field length must be 0x0c"),
            (item_field(slots[9].value, "coltype") and slots[9].width == 1, "type slot must be Column.coltype as one byte"),
            (item_field(slots[10].value, "colflags") and slots[10].width == 2, "flags slot must be Column.colflags.bits() as u16"),
        ]
        for c, w in srcs:
            if not c:
                return False, w
        fixed = 0
        for em in slots[7:]:
            fixed += em.width if em.kind == "fixed" else len(em.const_bytes() or b"")
        if fixed != SPEC.FIXED_FIELDS_LEN:
            return False, "fixed fields after the 0x0c marker are %d bytes" % fixed
        return True, ""

    # ---- coldef layout ----------------------------------------------------------------------
    seqs = wire.ok_sequences(prog, wcd)
    n_iter = 0
    sig = wcd.raw["sig_in"]
    bool_params = [i + 1 for i, t in enumerate(sig) if t == "bool"]
    for p, cls, ems in seqs:
        body_ems = [e for e in ems if e.kind != "call"]
        tail = [e for e in ems if e.kind == "call"]
        if body_ems:
            n_iter += 1
            desc = [e.short()[:50] for e in body_ems]
            # split at packet end
            ends = [i for i, e in enumerate(body_ems) if e.kind == "end_packet"]
            ok = len(ends) == 1 and ends[0] == len(body_ems) - 1
            ctx.ob("C09.coldef-layout", ok, "a column definition must be exactly one packet (packet ends at %s of %d emissions)" % (ends, len(body_ems)),
                   fn=wcd.path, construct="packet-end", where=wcd.where(p.blocks[-1]))
            slots = regroup(body_ems[:-1] if ok else body_ems, SPEC.COLDEF41)
            extra = slots[len(SPEC.COLDEF41):]
            slots = slots[:len(SPEC.COLDEF41)]
            ok_all = len(slots) == len(SPEC.COLDEF41)
            why = "expected %d slots, found %d" % (len(SPEC.COLDEF41), len(slots))
            for (kind, meaning), em in zip(SPEC.COLDEF41, slots):
                if not slot_ok(em, kind):
                    ok_all = False
                    why = "slot `%s` must be %s, found %s" % (meaning, kind, em.short()[:60])
                    break
            if ok_all:
                srcs = [
                    (slots[0].const_bytes() == b"\x03def", "catalog must be the constant 'def'"),
                    (slots[1].const_bytes() == b"\x00", "schema must be empty"),
                    (item_field(slots[2].value, "table"), "table slot must be fed from Column.table (got %s)" % term_str(slots[2].value)[-60:]),
                    (slots[3].const_bytes() == b"\x00", "org_table must be empty"),
                    (item_field(slots[4].value, "column"), "name slot must be fed from Column.column (got %s)" % term_str(slots[4].value)[-60:]),
                    (slots[5].const_bytes() == b"\x00", "org_name must be empty"),
                    (slots[6].const_bytes() == bytes([SPEC.FIXED_FIELDS_LEN]), "fixed-field length must be 0x0c"),
                    (item_field(slots[9].value, "coltype") and slots[9].width == 1, "type slot must be Column.coltype as one byte (got %s)" % term_str(slots[9].value)[-60:]),
                    (item_field(slots[10].value, "colflags") and slots[10].width == 2, "flags slot must be Column.colflags.bits() as u16 (got %s)" % term_str(slots[10].value)[-60:]),
                ]
                for c, w in srcs:
                    if not c:
                        ok_all = False
                        why = w
                        break
                # self-consistency: bytes after the fixed-length marker == 0x0c
                fixed = 0
                for em in slots[7:]:
                    fixed += em.width if em.kind == "fixed" else len(em.const_bytes() or b"")
                if ok_all and fixed != SPEC.FIXED_FIELDS_LEN:
                    ok_all = False
                    why = "fixed fields after the 0x0c marker are %d bytes" % fixed
            ctx.ob("C09.coldef-layout", ok_all, "ColumnDefinition41: " + why, fn=wcd.path, construct="layout", where=wcd.where(p.blocks[-1]),
                   sample={"rule": "coldef-layout", "sequence": desc})
            # optional trailer: a single 0xFB, only when the field-list flag (a bool parameter) is set on this path
            if extra:
                flags_true = set()
                for i, bblk in enumerate(p.blocks[:-1]):
                    t = wcd.term(bblk)
                    if t["k"] == "switch":
                        v = p.origin_op(t["discr"], i)
                        if T.is_param(v) and v[1] in bool_params and "0" in t["vals"]:
                            if p.blocks[i + 1] != t["tgts"][t["vals"].index("0")]:
                                flags_true.add(v[1])
                ok = wire.sym_bytes(extra) == [("c", 0xFB)] and bool_params[0] in flags_true
                ctx.ob("C09.coldef-layout", ok, "bytes after the fixed fields (%s) are only allowed as a single fb under the field-list flag" % [e.short() for e in extra],
                       fn=wcd.path, construct="trailer", where=wcd.where(p.blocks[-1]))
        # ---- eof policy ------------------------------------------------------------------------
        has_eof = any(e.callee == "writers::write_eof_packet" for e in tail)
        conds = {}
        for i, bblk in enumerate(p.blocks[:-1]):
            t = wcd.term(bblk)
            if t["k"] == "switch":
                v = p.origin_op(t["discr"], i)
                if T.is_param(v) and v[1] in bool_params and "0" in t["vals"]:
                    conds[v[1]] = p.blocks[i + 1] != t["tgts"][t["vals"].index("0")]
        iterated = bool(body_ems)
        if not has_eof:
            only_flag = bool_params[1] if len(bool_params) > 1 else None
            ok = (not iterated) and conds.get(only_flag) is True
            ctx.ob("C09.eof-policy", ok, "the EOF after a definition block is skipped on a path with %d definitions and flags %s" % (1 if iterated else 0, conds),
                   fn=wcd.path, construct="eof-skipped", where=wcd.where(p.blocks[-1]))
        else:
            ctx.ob("C09.eof-policy", True, "", fn=wcd.path, construct="eof-written", nontrivial=False,
                   sample={"rule": "eof-policy", "iterated": iterated, "flags": conds})
    ctx.floor("C09.coldef-layout", "per-definition emission paths", n_iter, 2)
    ctx.floor("C09.eof-policy", "Ok paths of the definition writer", len(seqs), 4)

    # ---- count packet -------------------------------------------------------------------------
    seqs = wire.ok_sequences(prog, cd)
    ctx.floor("C09.count-packet", "Ok paths of the resultset-header writer", len(seqs), 1)
    for p, cls, ems in seqs:
        desc = [e.short()[:60] for e in ems]
        ok = len(ems) == 3 and ems[0].kind == "lenenc_int" and ems[1].kind == "end_packet" and ems[2].kind == "call" and ems[2].callee == wcd.path
        why = "sequence %s" % desc
        if ok:
            cnt = ems[0].value
            lencall = T.find(cnt, lambda x: T.is_call(x, r"ExactSizeIterator::len$"))
            it_defs = ems[2].value[0]
            ok = lencall is not None and T.peel(lencall[2][0]) == T.peel(it_defs) and T.contains(it_defs, lambda x: T.is_param(x, 1))
            why = "count <- %s ; definitions iterate %s" % (term_str(cnt)[:80], term_str(it_defs)[:80])
            if ok:
                # no narrowing on the way: only widening casts between len() and the lenenc writer
                narrowing = T.find(cnt, lambda x: isinstance(x, tuple) and x[0] == "cast" and x[3] == "IntToInt" and (x[4], x[2]) not in T._WIDEN_OK)
                ok = narrowing is None
                why = "count is narrowed on the way: %s" % term_str(cnt)[:80] if not ok else why
            if ok:
                # flags of the nested call: not a field list, EOF always
                fl = ems[2].value[2:4]
                ok = all(T.is_const_int(x, 0) for x in fl)
                why = "nested definition writer flags %s (need false,false)" % [term_str(x) for x in fl] if not ok else why
        if not ok and len(ems) >= 3 and ems[0].kind == "lenenc_int" and ems[1].kind == "end_packet" and ems[-1].kind == "call" and ems[-1].callee == "writers::write_eof_packet":
            # the same with the definition loop written out here (or a loop helper inlined): count packet, then one
            # well-formed definition per iteration over the counted iterator, then the EOF unconditionally
            groups, cur = [], []
            for e in ems[2:-1]:
                cur.append(e)
                if e.kind == "end_packet":
                    groups.append(cur)
                    cur = []
            res = [coldef_group_ok(g) for g in groups] + ([(False, "bytes outside a definition packet")] if cur else [])
            lencall = T.find(ems[0].value, lambda x: T.is_call(x, r"ExactSizeIterator::len$"))
            same_iter = lencall is not None and T.contains(lencall, lambda x: T.is_param(x, 1)) and all(
                T.contains(g[2].value, lambda x: T.is_call(x, r"Iterator>?::next$") and T.contains(x, lambda y: T.peel(y) == T.peel(lencall[2][0]))) for g in groups)
            narrowing = T.find(ems[0].value, lambda x: isinstance(x, tuple) and x[0] == "cast" and x[3] == "IntToInt" and (x[4], x[2]) not in T._WIDEN_OK)
            ok = all(r[0] for r in res) and same_iter and narrowing is None
            why = "inlined form: %s" % ([r[1] for r in res if not r[0]] or ("definitions do not iterate the counted iterator" if not same_iter else "count narrowed" if narrowing is not None else "ok"))
        ctx.ob("C09.count-packet", ok, "resultset header: " + why, fn=cd.path, construct="layout", where=cd.where(p.blocks[-1]),
               sample={"rule": "count-packet", "sequence": desc})

    # ---- prepare ok ---------------------------------------------------------------------------
    seqs = wire.ok_sequences(prog, wpo)
    ctx.floor("C09.prepare-ok", "Ok paths of the PREPARE_OK writer", len(seqs), 1)
    sig = wpo.raw["sig_in"]
    for p, cls, ems in seqs:
        desc = [e.short()[:60] for e in ems]
        head = [e for e in ems if e.kind != "call"]
        if head and head[-1].kind == "end_packet":
            head = regroup(head[:-1], SPEC.PREPARE_OK) + [head[-1]]
        calls = [e for e in ems if e.kind == "call"]
        ok = len(head) == 7 and head[6].kind == "end_packet" and all(slot_ok(e, k) for e, (k, _) in zip(head[:6], SPEC.PREPARE_OK)) and len(calls) == 2
        why = "sequence %s" % desc
        if ok:
            def len_of_param(t, idx):
                c = T.find(t, lambda x: T.is_call(x, r"ExactSizeIterator::len$"))
                return c is not None and T.contains(c, lambda x: T.is_param(x, idx)) and \
                    sum(1 for x in T.walk(t) if isinstance(x, tuple) and x[0] == "cast") == 1
            checks = [
                (head[0].const_bytes() == b"\x00", "status byte must be 0"),
                (T.is_param(head[1].value, 1) and head[1].width == 4, "statement id slot must be the id parameter"),
                (len_of_param(head[2].value, 3), "num_columns must be columns.len() as u16 (got %s)" % term_str(head[2].value)[:80]),
                (len_of_param(head[3].value, 2), "num_params must be params.len() as u16 (got %s)" % term_str(head[3].value)[:80]),
                (head[4].const_bytes() == b"\x00", "filler must be 0"),
                (T.contains(calls[0].value[0], lambda x: T.is_param(x, 2)) and T.contains(calls[1].value[0], lambda x: T.is_param(x, 3)),
                 "parameter definitions must precede column definitions"),
                (all(len(calls[i].value) > 3 and T.is_const_int(calls[i].value[2], 0) and T.is_const_int(calls[i].value[3], 1) for i in (0, 1)),
                 "definition blocks must use (field_list=false, only_eof_on_nonempty=true)"),
                (all(c.callee == wcd.path for c in calls), "definition blocks must go through the column-definition writer"),
            ]
            for c, w in checks:
                if not c:
                    ok = False
                    why = w
                    break
        ctx.ob("C09.prepare-ok", ok, "COM_STMT_PREPARE_OK: " + why, fn=wpo.path, construct="layout", where=wpo.where(p.blocks[-1]),
               sample={"rule": "prepare-ok", "sequence": desc})
    # what the shim declares is what is announced: the reply entry point hands its own `params` / `columns` (and id) to the
    # PREPARE_OK writer — as the iterator it made of them, not a shortened (`take`, `skip`, `filter`) or substituted one
    rp = prog.find(r"^resultset::StatementMetaWriter::<'a, W>::reply$")
    if ctx.floor("C09.prepare-ok", "StatementMetaWriter::reply", len(rp), 1):
        rb = rp[0]
        ctx.fn(rb)
        sites = list(rb.calls_to(r"^writers::write_prepare_ok$"))
        if ctx.ob("C09.prepare-ok", len(sites) == 1, "reply() calls the PREPARE_OK writer %d times (need once)" % len(sites), fn=rb.path, construct="writer-call", nontrivial=False):
            bb, t = sites[0]
            def _declared(x, param_no):
                x = T.peel(x)
                while isinstance(x, tuple) and x[0] == "call" and re.search(r"IntoIterator>?::into_iter$|iter::Iterator::by_ref$", x[1]) and len(x[2]) == 1:
                    x = T.peel(x[2][0])
                return T.is_param(x, param_no)
            sig = rb.raw["sig_in"]
            for argi, param_no, what in ((0, 2, "statement id"), (1, 3, "parameter definitions"), (2, 4, "column definitions")):
                a = rb.arg_origin(bb, argi)
                ok = _declared(a, param_no) if argi else T.is_param(T.peel(a), param_no)
                ctx.ob("C09.prepare-ok", ok, "reply() hands %s to the PREPARE_OK writer as its %s (need the caller's argument itself)" % (term_str(a)[:100], what),
                       fn=rb.path, construct="declared-is-announced", callee=what, where=rb.where(bb),
                       sample={"rule": "prepare-ok/flow", "what": what, "value": term_str(a)[:60]})
    # callers: RowWriter start / reply / field list
    callers = [(b.path, bb) for b, bb, t in prog.callers_of(r"^writers::(write_column_definitions|column_definitions|write_prepare_ok)$") if "::tests::" not in b.path]
    ctx.floor("C09.coldef-layout", "call sites of the metadata writers", len(callers), 5)

    # every outbound clause of this property presupposes a faithful framing layer (one transport write site that sends the
    # whole pending packet, in order, with a correct header): C04's framing rules are evaluated here as well
