"""C01 — inbound packets are reassembled exactly under every transport chunking (mechanism clauses)."""
import re

from engines import effects, cursor, readloop
from engines.paths import enumerate_paths, classify_return
from engines.prog import int_bits, cname, term_str, place_fields, op_place
from engines import terms as T
from engines.terms import Aff

CONFIGS = ["tls", "notls"]
LEVEL = "other"
U24_MAX = 0xFFFFFF
EXPLANATION = (
    "Receive-window bookkeeping decided symbolically for all chunkings. Sole reader: one transport read site; the window fields "
    "(bytes/start/remaining) are written only by the reader, the constructor and the TLS switch. Window invariant: with L = "
    "len(bytes), S = start, R = remaining as affine forms over symbolic atoms, every enumerated path around the read loop is "
    "evaluated with a length model for Vec (len/drain/resize/truncate) and checked for: the parser is given bytes[S..] with "
    "S + R = L; on success R' = len(rest) of the parser's remainder of that slice; the drain removes exactly [0, S); the slice "
    "handed to read starts at the old length (unconsumed bytes are never overwritten); after the read L = end + n, S = 0, R = L; "
    "the invariant S + R = L is re-established at the loop head (inductive), and established on entry from R <= L. Short reads "
    "are not errors: the parser's Incomplete and recoverable Error arms lead to the read site, only Failure returns an error, "
    "and the packet parsers use nom's `complete` combinators. Framing constants: the single-packet parser reads a little-endian "
    "u24 length at 0, one sequence byte at 3 and exactly that length at 4; the full-packet parser requires ff ff ff, one "
    "sequence byte and exactly 0xFFFFFF payload bytes; fragments are appended to the accumulated packet in arrival order.")
ASSUMPTIONS = [
    "nom parsers return a suffix of their input as remainder; fold_many0/pair/take semantics (trusted library)",
    "Read::read returns n <= buf.len()", "Vec len/drain/resize/truncate/extend semantics",
]


class Win:
    """Symbolic window state along one path."""

    def __init__(self, L, S, R):
        self.L, self.S, self.R = L, S, R
        self.P = S            # ghost: number of already-consumed bytes still sitting at the front of the buffer
        self.fresh = 0

    def sub(self, aff):
        """Substitute current field values into an affine form over field atoms."""
        out = Aff(aff.c)
        for a, k in aff.m.items():
            if a == ("len", ("path", "self", "bytes")):
                out = out.add(self.L, k)
            elif a == ("path", "self", "start"):
                out = out.add(self.S, k)
            elif a == ("path", "self", "remaining"):
                out = out.add(self.R, k)
            else:
                out = out.add(Aff(0, {a: 1}), k)
        return out


def growth_lines(t, depth=0):
    """t as the maximum of lines a*end + b over the current buffer length `end` (a, b >= 0 integers): [(a, b)], or None
    when t has another shape (then nothing is known about growth)."""
    t = T.peel(t)
    if depth > 8 or not isinstance(t, tuple):
        return None
    c = T.const_int(t)
    if c is not None:
        return [(0, c)] if c >= 0 else None
    if T.is_call(t, r"Vec::<T, A>::len$") and T.is_field(T.peel(t[2][0]), "bytes"):
        return [(1, 0)]
    if T.is_call(t, r"(cmp::max|Ord::max|Ord>::max)$") and len(t[2]) == 2:
        a, b = growth_lines(t[2][0], depth + 1), growth_lines(t[2][1], depth + 1)
        # max(x, unknown) >= x: an unknown operand can only add growth
        if a is None and b is None:
            return None
        return (a or []) + (b or [])
    if t[0] == "bin" and t[1] in ("Mul", "Add") and len(t) > 3:
        x, y = growth_lines(t[2], depth + 1), growth_lines(t[3], depth + 1)
        if x is None or y is None:
            return None
        if t[1] == "Add":
            return [(a1 + a2, b1 + b2) for a1, b1 in x for a2, b2 in y]
        # product: only (line) * (constant)
        if all(a == 0 for a, b in y) and len(y) == 1:
            k = y[0][1]
            return [(a * k, b * k) for a, b in x]
        if all(a == 0 for a, b in x) and len(x) == 1:
            k = x[0][1]
            return [(a * k, b * k) for a, b in y]
    return None


def aff_of(t):
    """Affine form where len(self.bytes), self.start, self.remaining are atoms."""
    def atomize(x):
        if T.is_call(x, r"Vec::<T, A>::len$") and T.is_field(T.peel(x[2][0]), "bytes"):
            return ("len", ("path", "self", "bytes"))
        return None
    return T.affine(t, atomize)


def run(ctx, configs=None):
    for cfg in (configs or CONFIGS):
        prog = ctx.prog(cfg)
        roles, eff = effects.build(prog)
        fr = roles.f_read
        ctx.fn(fr)
        ctx.rule("C01.sole-reader", "one transport read site; window fields written only by reader/constructor/TLS switch")
        ctx.rule("C01.window-invariant", "S + R = L at the parser; R' = len(rest); drain [0,S); read into bytes[L..]; L = end + n; inductive")
        ctx.rule("C01.short-is-not-error", "Incomplete/Error -> read more; only Failure is an error; complete combinators")
        ctx.rule("C01.framing-constants", "onepacket: u24 len @0, seq @3, len bytes @4; fullpacket: ffffff, seq, 0xFFFFFF bytes; fragments appended in order")

        # ---- sole reader ----------------------------------------------------------------------
        ctx.ob("C01.sole-reader", len(roles.read_sites) == 1, "transport read sites: %d" % len(roles.read_sites), fn=fr.path, construct="read-sites", nontrivial=False)
        allowed = {fr.path, roles.f_new.path} | {b.path for b in prog.find(r"^packet::PacketConn::<\w+>::switch_to_tls$")}
        writers = {}
        def _pc_field(place, f):
            return any(isinstance(e, dict) and e.get("n") == f and str(e.get("of") or "").startswith("packet::PacketConn<") for e in place.get("p", []))
        for b in prog.non_test_fns():
            if "packet::PacketConn<" not in (b.raw.get("impl_self") or ""):
                # code outside the connection type (or a new helper of it inlined there) that stores to a window field or borrows it mutably
                for f in ("bytes", "start", "remaining"):
                    if any(s["k"] == "assign" and (_pc_field(s["lhs"], f) or (s["rv"]["k"] == "ref" and s["rv"].get("mut") and _pc_field(s["rv"]["place"], f)))
                           for _, _, s in b.stmts()):
                        writers.setdefault(f, set()).add(b.path)
                continue
            wf = prog.writes_fields(b.path, 1) if b.raw.get("sig_in") and b.raw["sig_in"][0].startswith("&mut") else set()
            for f in ("bytes", "start", "remaining"):
                direct = any(s["k"] == "assign" and place_fields(s["lhs"])[:1] == [f] for _, _, s in b.stmts())
                via_call = False
                for bb, t in b.calls():
                    for a in t["args"]:
                        pl = op_place(a)
                        if pl is None:
                            continue
                        o = b.origin_place(pl, bb, len(b.blocks[bb]["stmts"]))
                        aty = (t.get("arg_tys") or [""] * 8)[t["args"].index(a)]
                        if T.is_field(T.peel(o), f) and aty.startswith("&mut"):
                            via_call = True
                if direct or via_call:
                    writers.setdefault(f, set()).add(b.path)
        for f, ws in writers.items():
            ctx.ob("C01.sole-reader", ws <= allowed, "window field `%s` is written in %s" % (f, sorted(ws - allowed)), fn=fr.path, construct="window-writers", callee=f)
        ctx.floor("C01.sole-reader", "window fields with writers", len(writers), 3)

        # ---- window invariant -------------------------------------------------------------------
        read_bb = roles.read_sites[0][1]
        parser_sites = [bb for bb, t in fr.calls() if cname(t["func"]) in prog.bodies and t["args"] and "[u8]" in (t.get("arg_tys") or [""])[0] and
                        "nom::" in prog.bodies[cname(t["func"])].raw.get("sig_out", "")]
        loops = fr.loops()
        ctx.ob("C01.window-invariant", len(loops) == 1 and len(parser_sites) == 1, "expected one read loop and one parser call (loops=%d, parser calls=%d)" % (len(loops), len(parser_sites)),
               fn=fr.path, construct="anchors", nontrivial=False)
        if len(loops) != 1 or len(parser_sites) != 1:
            continue
        header = list(loops.keys())[0]
        pbb = parser_sites[0]
        l, r, n_ = ("sym", "l"), ("sym", "r"), ("sym", "n")
        nchecks = 0

        def walk(p, st, tag):
            """Evaluate window operations along path p starting with state st; emits obligations."""
            nonlocal nchecks
            end_sym = None
            for pos, blk in enumerate(p.blocks):
                for i, s in enumerate(fr.blocks[blk]["stmts"]):
                    if s["k"] != "assign":
                        continue
                    fl = place_fields(s["lhs"])
                    if fl in (["start"], ["remaining"]):
                        val = p.origin_rvalue(s["rv"], pos, i, 0)
                        # len(rest) of the parser result
                        if T.is_call(val, r"slice::<impl \[T\]>::len$") and T.contains(val, lambda x: x[0] == "call" and x[1] == cname(fr.term(pbb)["func"])):
                            rest = val[2][0]
                            base, off, ln = cursor.locate(rest)
                            okr = isinstance(rest, tuple) and rest[0] == "field" and rest[3] == 0 and T.contains(rest, lambda x: x[0] == "okpayload" or x[0] == "variant")
                            nchecks += 1
                            ctx.ob("C01.window-invariant", okr and fl == ["remaining"], "(b) on success `%s` := %s (need remaining := len(parser remainder))" % (fl[0], term_str(val)[:80]),
                                   fn=fr.path, construct="remaining-after-parse", where=fr.where(blk), key_extra={"tag": tag},
                                   sample={"rule": "window-invariant", "clause": "b", "config": cfg})
                            st.R = Aff(0, {("sym", "rest"): 1})   # 0 <= rest <= L - S by the parser contract
                            continue
                        a = st.sub(aff_of(val))
                        if fl == ["start"]:
                            if tag == "loop":
                                nchecks += 1
                                ctx.ob("C01.window-invariant", a == st.P,
                                       "(c') start := %r while %r consumed bytes are still at the front of the buffer: they would be parsed again (duplicated command)" % (a, st.P),
                                       fn=fr.path, construct="start-vs-consumed-prefix", where=fr.where(blk), key_extra={"tag": tag})
                            st.S = a
                        else:
                            st.R = a
                t = fr.term(blk)
                if t["k"] != "call" or pos == len(p.blocks) - 1 and p.end == "stop":
                    continue
                name = cname(t["func"])
                if blk == pbb:
                    arg = p.arg(pos, 0)
                    ix = T.find(arg, lambda x: T.is_call(x, r"Index<I>>::index$|Index::index$"))
                    okA = ix is not None and T.is_field(T.peel(ix[2][0]), "bytes") and ix[2][1][0] == "agg" and (ix[2][1][2] or "").endswith("RangeFrom")
                    start_aff = st.sub(aff_of(ix[2][1][4][0])) if okA else None
                    nchecks += 1
                    ctx.ob("C01.window-invariant", okA and start_aff == st.S and st.S.add(st.R) == st.L,
                           "(a) the parser is given %s with start=%r, remaining=%r, len=%r (need bytes[start..] and start + remaining = len)" % (term_str(arg)[:60], st.S, st.R, st.L),
                           fn=fr.path, construct="parser-window", where=fr.where(blk), key_extra={"tag": tag},
                           sample={"rule": "window-invariant", "clause": "a", "S": repr(st.S), "R": repr(st.R), "L": repr(st.L)})
                elif re.search(r"Vec::<T, A>::drain$", name) and T.is_field(T.peel(p.arg(pos, 0)), "bytes"):
                    rng = p.arg(pos, 1)
                    okd = rng[0] == "agg" and (((rng[2] or "").endswith("ops::Range") and T.is_const_int(rng[4][0], 0)) or (rng[2] or "").endswith("ops::RangeTo"))
                    hi = st.sub(aff_of(rng[4][-1])) if okd else None
                    nchecks += 1
                    ctx.ob("C01.window-invariant", okd and hi == st.S, "(c) drain removes %s (need exactly [0, start) = [0, %r))" % (term_str(rng)[:60], st.S), fn=fr.path,
                           construct="drain", where=fr.where(blk), key_extra={"tag": tag})
                    if okd:
                        st.L = st.L.add(hi, -1)
                        st.P = st.P.add(hi, -1)
                elif re.search(r"Vec::<T, A>::resize$", name) and T.is_field(T.peel(p.arg(pos, 0)), "bytes"):
                    # (d0) the buffer really grows: the new length exceeds the old one for every old length, so the
                    # transport is always offered at least one byte of room (a zero-length read reads as end of stream)
                    ls = growth_lines(p.arg(pos, 1))
                    grows = ls is not None and (any(a >= 1 and b >= 1 for a, b in ls) or (any(a >= 2 for a, b in ls) and any(b >= 1 for a, b in ls)))
                    nchecks += 1
                    ctx.ob("C01.window-invariant", grows, "(d0) the read buffer is resized to %s, which is not larger than the buffered length for every length: the transport may be handed an empty buffer and the reader would take the resulting 0 as end of stream" % term_str(p.arg(pos, 1))[:80],
                           fn=fr.path, construct="buffer-grows", where=fr.where(blk), key_extra={"tag": tag})
                    end_sym = st.L
                    st.L = Aff(0, {("sym", "cap"): 1})
                elif blk == read_bb:
                    buf = p.arg(pos, 1)
                    ix = T.find(buf, lambda x: T.is_call(x, r"IndexMut<I>>::index_mut$|IndexMut::index_mut$|Index<I>>::index$"))
                    okb = ix is not None and T.is_field(T.peel(ix[2][0]), "bytes") and ix[2][1][0] == "agg" and (ix[2][1][2] or "").endswith("RangeFrom")
                    # `end` was bound to len(bytes) before the resize: evaluate its term against the state at that time
                    endv = p.origin_op({"copy": {"l": 0, "p": []}}, pos) if False else None
                    e_t = ix[2][1][4][0] if okb else None
                    okE = okb and end_sym is not None and T.is_call(T.peel(e_t, payloads=False), r"Vec::<T, A>::len$") and T.is_field(T.peel(T.peel(e_t, payloads=False)[2][0]), "bytes")
                    nchecks += 1
                    ctx.ob("C01.window-invariant", okE, "(d) the transport reads into %s (need bytes[end..] with end = length before growing: buffered bytes must not be overwritten)" % term_str(buf)[:80],
                           fn=fr.path, construct="read-target", where=fr.where(blk), key_extra={"tag": tag})
                elif re.search(r"Vec::<T, A>::truncate$", name) and T.is_field(T.peel(p.arg(pos, 0)), "bytes"):
                    k = p.arg(pos, 1)
                    okt = isinstance(k, tuple) and k[0] == "bin" and k[1] == "Add" and end_sym is not None and \
                        T.contains(k, lambda x: x[0] == "okpayload" and T.contains(x, lambda y: y[0] == "call" and re.search(r"Read>::read$|Read::read$", y[1]))) and \
                        T.contains(k, lambda x: T.is_call(x, r"Vec::<T, A>::len$"))
                    nchecks += 1
                    ctx.ob("C01.window-invariant", okt, "(e) after the read the buffer is truncated to %s (need end + n)" % term_str(k)[:80], fn=fr.path, construct="truncate",
                           where=fr.where(blk), key_extra={"tag": tag})
                    if okt:
                        st.L = end_sym.add(Aff(0, {n_: 1}))
            return st

        # entry -> loop head
        for p in enumerate_paths(fr, start=0, stop_at={header}, max_visits=1):
            if p.end != "stop":
                continue
            st = walk(p, Win(Aff(0, {l: 1}), Aff(0, {("sym", "s0"): 1}), Aff(0, {r: 1})), "entry")
            nchecks += 1
            ctx.ob("C01.window-invariant", st.S.add(st.R) == st.L, "on entry start := %r does not establish start + remaining = len (remaining=%r, len=%r)" % (st.S, st.R, st.L),
                   fn=fr.path, construct="entry-establishes", where=fr.where(header), sample={"rule": "window-invariant", "clause": "entry", "S": repr(st.S)})
        # one trip around the loop, and exits, from the invariant state
        n_round = 0
        for p in enumerate_paths(fr, start=header, stop_second={header}, max_visits=2):
            if p.end not in ("stop", "return"):
                continue
            st = walk(p, Win(Aff(0, {l: 1}), Aff(0, {l: 1, r: -1}), Aff(0, {r: 1})), "loop")
            if p.end == "stop":
                n_round += 1
                nchecks += 1
                ctx.ob("C01.window-invariant", st.S.add(st.R) == st.L and st.S == Aff(0),
                       "after reading, start=%r remaining=%r len=%r: the invariant start + remaining = len (with start = 0) is not re-established" % (st.S, st.R, st.L),
                       fn=fr.path, construct="inductive", where=fr.where(p.blocks[-1]), sample={"rule": "window-invariant", "clause": "inductive", "L": repr(st.L), "R": repr(st.R)})
        ctx.floor("C01.window-invariant", "loop round trips evaluated (%s)" % cfg, n_round, 1)
        ctx.floor("C01.window-invariant", "window obligations evaluated (%s)" % cfg, nchecks, 8)

        # ---- what is delivered is what the framing parser produced ------------------------------------
        # every `Some(..)` the reader returns is built from the parser's success value and nothing else: a second way of cutting a
        # message out of the buffer (a fast path for "exactly one frame", a peek at the header) bypasses fragment reassembly
        ctx.rule("C01.delivery-from-parser", "every packet the reader returns is the framing parser's result")
        pname = cname(fr.term(pbb)["func"])
        ndel = 0
        for bbx, ix, sx in fr.stmts():
            if sx["k"] != "assign" or fr.is_cleanup(bbx) or sx["rv"]["k"] != "agg" or sx["rv"].get("ak") != "adt":
                continue
            if not (sx["rv"].get("adt", "").endswith("option::Option") and sx["rv"].get("vname") == "Some"):
                continue
            if "Packet" not in (fr.local_ty(sx["lhs"]["l"]) or "") or sx["lhs"]["p"]:
                continue
            ndel += 1
            val = fr.origin_op(sx["rv"]["fields"][0], bbx, ix)
            leaves = []
            def _leaves(x, d=0):
                if isinstance(x, tuple) and x and x[0] == "agg" and d < 6 and len(x) > 4 and x[4]:
                    for y in x[4]:
                        _leaves(y, d + 1)
                else:
                    leaves.append(x)
            _leaves(val)
            from_parser = lambda x: T.contains(x, lambda y: isinstance(y, tuple) and y and y[0] in ("okpayload", "variant") and T.contains(y, lambda z: isinstance(z, tuple) and z and z[0] == "call" and z[1] == pname))
            bad = [x for x in leaves if not from_parser(x)]
            ctx.ob("C01.delivery-from-parser", not bad, "the reader returns %s, which is not (part of) the result of %s: the message was cut out of the buffer some other way, without fragment reassembly"
                   % (term_str(bad[0])[:90] if bad else "", pname), fn=fr.path, construct="delivered-packet", where=fr.where(bbx))
        ctx.floor("C01.delivery-from-parser", "packet deliveries of the reader (%s)" % cfg, ndel, 1)

        # ---- parse when buffered ----------------------------------------------------------------
        # the reader may go back to the transport without attempting to parse only when nothing is buffered
        # (remaining == 0): any stronger gate ("looks complete", "enough bytes") can leave a complete command unparsed
        ctx.rule("C01.parse-when-buffered", "the transport read is reached without a parse attempt only on a path that established remaining == 0")
        n_skip = 0
        for kind, p, okp, gates in readloop.unparsed_reads(fr, read_bb, [pbb], [("header", header), ("reread", read_bb)]):
            n_skip += 1
            ctx.ob("C01.parse-when-buffered", okp, "the reader goes (back) to the transport without a parse attempt on a path that does not establish remaining == 0 (%s; decisions: %s)" % (kind, gates[:3]),
                   fn=fr.path, construct="skip-parse", callee=kind, where=fr.where(p.blocks[-1]), sample={"rule": "parse-when-buffered", "config": cfg, "kind": kind})
        ctx.floor("C01.parse-when-buffered", "parser-skipping paths to the read (%s)" % cfg, n_skip, 1)

        # ---- short is not error ---------------------------------------------------------------
        nshort = 0
        for p in enumerate_paths(fr, start=header, stop_second={header}, max_visits=2):
            if pbb not in p.blocks:
                continue
            # which arm of the parser result?
            kind = None
            ppos = p.blocks.index(pbb)
            for i in range(ppos, len(p.blocks) - 1):
                t = fr.term(p.blocks[i])
                if t["k"] == "switch":
                    v = p.origin_op(t["discr"], i)
                    if v[0] == "discr" and isinstance(v[1], tuple) and v[1][0] in ("errpayload",) and T.contains(v[1], lambda x: x[0] == "call" and x[1] == cname(fr.term(pbb)["func"])):
                        vals = [int(x) for x, g in zip(t["vals"], t["tgts"]) if g == p.blocks[i + 1]]
                        if not vals and p.blocks[i + 1] == t["otherwise"]:
                            # `if let Err(Failure(..))` tests one variant: the other edge stands for the remaining ones
                            vals = [k_ for k_ in (0, 1, 2) if str(k_) not in t["vals"]]
                        kind = vals
            if not kind or p.end == "unreachable":
                continue
            names = {0: "Incomplete", 1: "Error", 2: "Failure"}
            ks = {names.get(k, str(k)) for k in kind}
            if ks <= {"Incomplete", "Error"}:
                nshort += 1
                ok = read_bb in p.blocks[ppos:]
                ctx.ob("C01.short-is-not-error", ok, "a short buffer (parser %s) does not lead to another transport read (path ends %s)" % (sorted(ks), p.end), fn=fr.path,
                       construct="short-read", where=fr.where(p.blocks[-1]), sample={"rule": "short-is-not-error", "arm": sorted(ks)})
            elif ks == {"Failure"}:
                ctx.ob("C01.short-is-not-error", p.end == "return" and classify_return(p) == "err", "a parser Failure does not return an error", fn=fr.path, construct="failure", nontrivial=False)
        ctx.floor("C01.short-is-not-error", "short-buffer paths (%s)" % cfg, nshort, 1)
        # the converse: since Error/Incomplete mean `read more`, a verdict the framing parsers build themselves about a
        # *complete* malformed message (fragment ids out of order) must be a Failure, or the connection waits forever
        nbuilt = 0
        pfn = cname(fr.term(pbb)["func"])
        for fn_, b, bb, i, vname in readloop.built_verdicts(prog, pfn):
            nbuilt += 1
            ctx.ob("C01.short-is-not-error", vname == "Failure",
                   "%s builds nom::Err::%s itself: the reader takes Error/Incomplete as `read more`, so a malformed but complete message would never be refused" % (fn_, vname),
                   fn=fn_, construct="built-verdict", callee=vname, where=b.where(bb, i))
        ctx.floor("C01.short-is-not-error", "verdicts built by the framing parsers (%s)" % cfg, nbuilt, 1)
        for pn in (r"^packet::onepacket$", r"^packet::fullpacket$"):
            b = prog.one(pn)
            ctx.fn(b)
            noms = [cname(t["func"]) for _, t in b.calls() if cname(t["func"]).startswith("nom::") and not cname(t["func"]).endswith("{closure#0}")]
            streaming = [x for x in noms if "::streaming::" in x]
            ctx.ob("C01.short-is-not-error", not streaming and noms, "%s mixes streaming combinators %s (the reader treats only Incomplete/Error as `need more`)" % (b.path, streaming), fn=b.path,
                   construct="complete-combinators", nontrivial=False)

        # ---- framing constants ----------------------------------------------------------------
        one = prog.one(r"^packet::onepacket$")
        full = prog.one(r"^packet::fullpacket$")
        for b, kind in ((one, "one"), (full, "full")):
            for p in enumerate_paths(b):
                if p.end != "return" or classify_return(p) != "ok":
                    continue
                rv = p.return_value()
                tup = rv[4][0] if rv[0] == "agg" and rv[3] == "Ok" else None
                ok = tup is not None and tup[0] == "agg" and tup[1] == "tuple" and len(tup[4]) == 2 and tup[4][1][0] == "agg" and len(tup[4][1][4]) == 2
                why = "return shape %s" % term_str(rv)[:80]
                if ok:
                    rest, (seqv, body) = tup[4][0], tup[4][1][4]
                    rs = cursor.reading(seqv)
                    bb_, bo, bl = cursor.locate(body)
                    rb_, ro, rl = cursor.locate(rest)
                    if kind == "one":
                        # length: the value part of le_u24 at 0 ; body = take(length) at 4
                        tk = T.find(body, lambda x: T.is_call(x, r"take::\{closure#0\}$"))
                        st = cursor.nom_step(tk) if tk is not None else None
                        cnt = st[3] if st is not None else None
                        # a lossless widening (`len as usize` of the u24 read into a u32) does not change the count
                        while isinstance(cnt, tuple) and cnt[0] == "cast" and cnt[3] == "IntToInt" and str(cnt[4]).startswith("u") and str(cnt[2]).startswith("u") and \
                                int_bits(cnt[2]) >= int_bits(cnt[4]):
                            cnt = cnt[1]
                        lenread = cursor.reading(cnt) if cnt is not None else None
                        ok = rs is not None and rs["off"] == Aff(3) and rs["width"] == 1 and bo == Aff(4) and lenread is not None and lenread["kind"] == "le_u24" and lenread["off"] == Aff(0) \
                            and T.is_param(T.peel(bb_), 1) and T.is_param(T.peel(rs["base"]), 1)
                        why = "seq read at %s, payload at %r with length from %s" % (rs and repr(rs["off"]), bo, lenread and (lenread["kind"], repr(lenread["off"])))
                    else:
                        tg = T.find(body, lambda x: T.is_call(x, r"tag::\{closure#0\}$"))
                        st = cursor.nom_step(tg) if tg is not None else None
                        ok = rs is not None and rs["off"] == Aff(3) and bo == Aff(4) and bl == Aff(U24_MAX) and st is not None and st[3] == b"\xff\xff\xff" and \
                            T.is_param(T.peel(cursor.locate(st[0])[0]), 1) and cursor.locate(st[0])[1] == Aff(0)
                        why = "tag %r, seq at %s, payload at %r length %r (need ffffff, 3, 4, 16777215)" % (st and st[3], rs and repr(rs["off"]), bo, bl)
                    if ok:
                        # remainder starts right after the payload
                        ok = ro == bo.add(bl if bl is not None else Aff(0)) if kind == "full" else True
                ctx.ob("C01.framing-constants", ok, "%s packet parser: %s" % (kind, why), fn=b.path, construct="layout", where=b.where(p.blocks[-1]),
                       sample={"rule": "framing-constants", "parser": kind, "detail": why})
        # reassembly: fragments appended in order
        pk = prog.one(r"^packet::packet$")
        ctx.fn(pk)
        n_ext = 0
        helpers = [prog.bodies[c] for c in sorted(prog.reachable_fns([pk.path])) if c != pk.path and c in prog.bodies and c not in (one.path, full.path)]
        for b in [pk] + helpers:
            for bb, t in b.calls():
                n_ = cname(t["func"])
                is_append = n_.endswith("packet::Packet::extend")
                if not is_append and re.search(r"Vec::<T, A>::extend_from_slice$|Extend<.*>>::extend$", n_) and (t.get("arg_tys") or [""])[0].startswith("&mut std::vec::Vec<u8"):
                    # the same append written out on the packet's byte vector (`payload.0.extend_from_slice(bytes)`)
                    r0 = b.arg_origin(bb, 0)
                    is_append = T.contains(r0, lambda x: x[0] == "somepayload" or (x[0] == "variant" and x[2] == "Some"))
                if is_append:
                    n_ext += 1
                    recv, data = b.arg_origin(bb, 0), b.arg_origin(bb, 1)
                    # receiver: the accumulated packet (Some payload of the accumulator); data: the new fragment's payload
                    ok = T.contains(recv, lambda x: x[0] == "somepayload" or (x[0] == "variant" and x[2] == "Some")) and not T.contains(data, lambda x: x[0] == "somepayload")
                    ctx.ob("C01.framing-constants", ok, "fragment append: %s.extend(%s) (need accumulated.extend(new fragment))" % (term_str(recv)[:60], term_str(data)[:60]), fn=b.path,
                           construct="append-order", where=b.where(bb))
        ctx.floor("C01.framing-constants", "fragment appends (%s)" % cfg, n_ext, 2)
        # the running sequence id of the fold: replaced by each fragment's id, and compared with the previous one + 1
        nchain = 0
        for okc, what, b_, blk_ in readloop.fragment_id_chain(prog, pk):
            nchain += 1
            ctx.ob("C01.framing-constants", okc, what, fn=b_.path, construct="fragment-id-chain", where=b_.where(blk_))
        ctx.floor("C01.framing-constants", "fragment id chain obligations (%s)" % cfg, nchain, 2)
