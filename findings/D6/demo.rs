// D6/D7 (C15): integers must be sent exactly or refused.
use msql_srv::*;
fn col(t: ColumnType, unsigned: bool) -> Column {
    Column { table: String::new(), column: "c".into(), coltype: t, colflags: if unsigned { ColumnFlags::UNSIGNED_FLAG } else { ColumnFlags::empty() } }
}
fn enc<T: ToMysqlValue>(v: T, c: &Column) -> Option<Vec<u8>> { let mut b = Vec::new(); v.to_mysql_bin(&mut b, c).ok().map(|_| b) }
fn read(b: &[u8], unsigned: bool) -> i128 {
    let mut x: u128 = 0; for (i, y) in b.iter().enumerate() { x |= (*y as u128) << (8 * i); }
    if unsigned { x as i128 } else { let sh = 128 - 8 * b.len() as u32; ((x as i128) << sh) >> sh }
}
#[test]
fn negative_small_ints_into_unsigned_wider_columns_are_not_altered() {
    use ColumnType::*;
    let mut bad = Vec::new();
    for t in [MYSQL_TYPE_SHORT, MYSQL_TYPE_LONG, MYSQL_TYPE_LONGLONG] {
        if let Some(b) = enc(-1i8, &col(t, true)) { if read(&b, true) != -1 { bad.push(format!("-1i8 into unsigned {:?} decoded as {}", t, read(&b, true))); } }
    }
    for t in [MYSQL_TYPE_LONG, MYSQL_TYPE_LONGLONG] {
        if let Some(b) = enc(-2i16, &col(t, true)) { if read(&b, true) != -2 { bad.push(format!("-2i16 into unsigned {:?} decoded as {}", t, read(&b, true))); } }
    }
    if let Some(b) = enc(-3i32, &col(MYSQL_TYPE_LONGLONG, true)) { if read(&b, true) != -3 { bad.push(format!("-3i32 into unsigned LONGLONG decoded as {}", read(&b, true))); } }
    // non-negative values still pass
    assert_eq!(enc(5i8, &col(MYSQL_TYPE_LONGLONG, true)).map(|b| read(&b, true)), Some(5));
    assert!(bad.is_empty(), "{:?}", bad);
}
#[test]
fn pointer_sized_ints_are_accepted_when_representable() {
    use ColumnType::*;
    let mut bad = Vec::new();
    for t in [MYSQL_TYPE_TINY, MYSQL_TYPE_SHORT, MYSQL_TYPE_LONG, MYSQL_TYPE_LONGLONG] {
        match enc(1usize, &col(t, false)) { Some(b) if read(&b, false) == 1 => {}, other => bad.push(format!("1usize into signed {:?}: {:?}", t, other)) }
    }
    match enc(1isize, &col(MYSQL_TYPE_LONGLONG, true)) { Some(b) if read(&b, true) == 1 => {}, other => bad.push(format!("1isize into unsigned LONGLONG: {:?}", other)) }
    // still refused when not representable
    assert!(enc(200usize, &col(MYSQL_TYPE_TINY, false)).is_none());
    assert!(enc(-1isize, &col(MYSQL_TYPE_LONGLONG, true)).is_none());
    assert!(enc(usize::MAX, &col(MYSQL_TYPE_LONGLONG, false)).is_none());
    assert_eq!(enc(usize::MAX, &col(MYSQL_TYPE_LONGLONG, true)).map(|b| read(&b, true)), Some(usize::MAX as i128));
    assert!(bad.is_empty(), "{:?}", bad);
}
