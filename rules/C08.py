"""C08 — prepared-statement parameters are decoded to exactly what the client bound (layout clauses)."""
import re

from engines.paths import enumerate_paths, classify_return
from engines.prog import cname, term_str, place_fields
from engines import terms as T
from engines import cursor
from engines.terms import Aff

CONFIGS = ["tls"]
LEVEL = "other"
EXPLANATION = (
    "Reader-side layout rules. Payload offsets: the NULL bitmap is split off at offset 0 with length (params+7)/8 (affine normal "
    "form); flag byte, type table and value start are C16's cursor rules (run here as well). Bitmap arithmetic: the NULL test "
    "reads byte col/8, bit col%8 of the bitmap. Value layouts: in the value parser every enumerated path is classified by the "
    "column-type arm (ColumnType table) and the unsigned flag; the sequence of stateful cursor reads (byteorder read_*, "
    "read_lenenc_int, guarded split_at) is compared with the protocol's binary value layouts: TINY 1, SHORT/YEAR 2, LONG/INT24 4, "
    "LONGLONG 8 bytes with the unsigned flag selecting the unsigned read and the UInt variant (else signed read, Int, widened "
    "with From), FLOAT 4, DOUBLE 8, string-likes = lenenc length + that many bytes behind a length guard, DATE/DATETIME/"
    "TIMESTAMP/TIME = one length byte + that many bytes behind a guard. Count: every Some(..) return of the iterator is "
    "preceded by exactly one increment of the column index, None returns by none, iteration stops at col >= params. Length "
    "forms of the temporal converters: the lengths accepted by each From<Value> converter (from its leading assertion) are "
    "compared with the protocol's legal forms, and every later test on the cursor's remaining length is checked for "
    "satisfiability given the bytes consumed so far (a test that can never hold silently drops the field it guards).")
ASSUMPTIONS = ["mysql_common::read_lenenc_int decodes every size class", "chrono constructors; IEEE f32->f64 widening is exact", "byteorder reads advance the slice cursor by their width"]

READ_W = {"read_u8": (1, False), "read_i8": (1, True), "read_u16": (2, False), "read_i16": (2, True), "read_u24": (3, False), "read_i24": (3, True),
          "read_u32": (4, False), "read_i32": (4, True), "read_u64": (8, False), "read_i64": (8, True), "read_f32": (4, None), "read_f64": (8, None)}
STRINGLIKE = {"MYSQL_TYPE_STRING", "MYSQL_TYPE_VAR_STRING", "MYSQL_TYPE_BLOB", "MYSQL_TYPE_TINY_BLOB", "MYSQL_TYPE_MEDIUM_BLOB", "MYSQL_TYPE_LONG_BLOB",
              "MYSQL_TYPE_SET", "MYSQL_TYPE_ENUM", "MYSQL_TYPE_DECIMAL", "MYSQL_TYPE_VARCHAR", "MYSQL_TYPE_BIT", "MYSQL_TYPE_NEWDECIMAL", "MYSQL_TYPE_GEOMETRY", "MYSQL_TYPE_JSON"}
INT_W = {"MYSQL_TYPE_TINY": 1, "MYSQL_TYPE_SHORT": 2, "MYSQL_TYPE_YEAR": 2, "MYSQL_TYPE_LONG": 4, "MYSQL_TYPE_INT24": 4, "MYSQL_TYPE_LONGLONG": 8}
TEMPORAL = {"MYSQL_TYPE_DATE": "Date", "MYSQL_TYPE_DATETIME": "Datetime", "MYSQL_TYPE_TIMESTAMP": "Datetime", "MYSQL_TYPE_TIME": "Time"}
LEGAL_FORMS = {"NaiveDate": {0, 4}, "NaiveDateTime": {0, 4, 7, 11}, "Duration": {0, 8, 12}}


def run(ctx):
    prog = ctx.prog("tls")
    ctx.rule("C08.payload-offsets", "NULL bitmap at 0 with length (params+7)/8")
    ctx.rule("C08.bitmap-arith", "NULL test: byte col/8, bit col%8")
    ctx.rule("C08.value-layouts", "per column type: read widths, signedness, variant, guards")
    ctx.rule("C08.count", "one column increment per Some, none per None; stops at col >= params")
    ctx.rule("C08.length-forms", "temporal converters accept the protocol's length forms; later length tests are satisfiable")
    nxt = prog.one(r"^<params::Params<'a> as std::iter::Iterator>::next$")
    pf = prog.one(r"^value::decode::ValueInner::<'a>::parse_from$")
    ctx.fn(nxt)
    ctx.fn(pf)
    n_atom = Aff(0, {("path", "self", "params"): 1})

    # ---- payload offsets / bitmap ----------------------------------------------------------------
    splits = [(bb, t) for bb, t in nxt.calls() if cname(t["func"]).endswith("slice::<impl [T]>::split_at")]
    first = [x for x in splits if T.is_field(T.peel(nxt.arg_origin(x[0], 0)), "input")]
    ok = len(first) == 1
    k = T.affine(nxt.arg_origin(first[0][0], 1)) if ok else None
    want = Aff(0, {("div", n_atom.add(Aff(7)), 8): 1})
    ctx.ob("C08.payload-offsets", ok and k == want, "NULL bitmap length is %r (need (params+7)/8 split off the start of the payload)" % (k,), fn=nxt.path, construct="nullmap-length",
           where=nxt.where(first[0][0]) if first else None, sample={"rule": "payload-offsets", "nullmap_len": repr(k)})
    # stored as the nullmap
    st = [(bb, i, s) for bb, i, s in nxt.stmts() if s["k"] == "assign" and place_fields(s["lhs"]) == ["nullmap"]]
    okn = False
    for bb, i, s in st:
        v = nxt.origin_rvalue(s["rv"], bb, i, 0)
        if v[0] == "agg" and v[3] == "Some" and first:
            inner = v[4][0]
            # a private single-field wrapper around the slice (`Some(NullBitmap(nullmap))`) stores the slice
            while isinstance(inner, tuple) and inner and inner[0] == "agg" and inner[1] == "adt" and len(inner[4]) == 1 and \
                    any(pth == inner[2] and a_.get("local") and a_.get("kind") == "struct" for pth, a_ in prog.adts.items()):
                inner = inner[4][0]
            base, off, ln = cursor.locate(inner)
            okn = off == Aff(0) and ln == want
    ctx.ob("C08.payload-offsets", okn, "the stored NULL bitmap is not payload[0 .. (params+7)/8)", fn=nxt.path, construct="nullmap-slice")
    nb = 0
    seen_tests = set()
    col = Aff(0, {("path", "self", "col"): 1})
    for bb in range(nxt.n):
        t = nxt.term(bb)
        if t["k"] != "switch" or nxt.is_cleanup(bb):
            continue
        v = nxt.origin_op(t["discr"], bb, len(nxt.blocks[bb]["stmts"]))
        # the test may sit under wrappers when it was computed by a helper (`Some(test)?`, a merged return value)
        v = T.find(v, lambda x: isinstance(x, tuple) and x[0] == "bin" and x[1] in ("Ne", "Eq") and T.is_const_int(x[3], 0) and isinstance(x[2], tuple) and x[2][0] == "bin" and x[2][1] == "BitAnd")
        if v is not None and v in seen_tests:
            continue
        seen_tests.add(v)
        if isinstance(v, tuple) and v[0] == "bin" and v[1] in ("Ne", "Eq") and T.is_const_int(v[3], 0) and isinstance(v[2], tuple) and v[2][0] == "bin" and v[2][1] == "BitAnd":
            a, b = v[2][2], v[2][3]
            if not (isinstance(a, tuple) and a[0] == "index"):
                a, b = b, a
            if not (isinstance(a, tuple) and a[0] == "index"):
                # `nullmap.get(i)` with the None case handled, `*first()`, ...: any one-byte read located in the bitmap
                for cand in (v[2][2], v[2][3]):
                    # `*nullmap.get(i)?` (the payload of the Option after `?`) / `nullmap.get(i).copied().unwrap_or(..)`: byte i of the bitmap
                    g_ = T.find(cand, lambda x: T.is_call(x, r"slice::<impl \[T\]>::get$") and len(x[2]) == 2)
                    if g_ is not None and isinstance(cand, tuple) and cand[0] in ("okpayload", "somepayload", "deref") and T.contains(g_[2][0], lambda x: T.is_field(x, "nullmap")):
                        a = ("index", g_[2][0], None, T.affine(g_[2][1]))
                        b = v[2][3] if cand is v[2][2] else v[2][2]
                        break
                    rd_ = cursor.reading(cand)
                    if rd_ is not None and rd_["width"] == 1 and T.contains(rd_["base"], lambda x: T.is_field(x, "nullmap")):
                        a = ("index", rd_["base"], None, rd_["off"])
                        b = v[2][3] if cand is v[2][2] else v[2][2]
            if isinstance(a, tuple) and a[0] == "index" and T.contains(a[1], lambda x: T.is_field(x, "nullmap")):
                nb += 1
                byte_ix = a[3] if len(a) > 3 else T.affine(a[2])
                okb = byte_ix == Aff(0, {("div", col, 8): 1})
                shl = b if isinstance(b, tuple) and b[0] == "bin" and b[1] == "Shl" else None
                oks = shl is not None and T.is_const_int(shl[2], 1) and T.affine(shl[3]) == Aff(0, {("rem", col, 8): 1})
                ctx.ob("C08.bitmap-arith", okb and oks, "NULL test reads byte [%r], mask %s (need byte col/8, bit 1 << col%%8; parameter bitmaps have offset 0)" % (byte_ix, term_str(b)[:60]),
                       fn=nxt.path, construct="null-bit", where=nxt.where(bb), sample={"rule": "bitmap-arith", "byte": repr(byte_ix), "mask": term_str(b)[:60]})
    ctx.floor("C08.bitmap-arith", "NULL bitmap tests", nb, 1)
    # flag byte, type table (entry i = byte 1+2i / bit 7 of byte 2+2i after the flag), value-cursor start, per-statement table,
    # rebind discipline: C16's cursor rules are part of this property's layout claim too
    # a parameter sent as long data is one of the values the client bound: which chunks are stored, where, and that the
    # iterator takes them instead of inline bytes (C17's rules) decide whether the following parameters stay aligned

    # ---- value layouts -----------------------------------------------------------------------------
    ct = [a for k_, a in prog.adts.items() if k_.endswith("constants::ColumnType")][0]
    ct_names = {int(v["discr"]): v["name"] for v in ct["variants"]}
    seen_arms = set()
    for p in enumerate_paths(pf, max_visits=1, limit=20000):
        if p.end != "return":
            continue
        cls = classify_return(p)
        arm, unsigned = None, None
        guards = []
        for i, blk in enumerate(p.blocks[:-1]):
            t = pf.term(blk)
            if t["k"] != "switch":
                continue
            v = p.origin_op(t["discr"], i)
            nx = p.blocks[i + 1]
            if v[0] == "discr" and T.is_param(v[1], 2):
                vals = [x for x, g in zip(t["vals"], t["tgts"]) if g == nx]
                arm = tuple(sorted(ct_names.get(int(x), x) for x in vals)) if vals else ("other",)
            elif T.is_param(v, 3) and "0" in t["vals"]:
                unsigned = nx != t["tgts"][t["vals"].index("0")]
            elif isinstance(v, tuple) and v[0] == "bin" and v[1] in ("Gt", "Lt", "Ge", "Le") and "0" in t["vals"]:
                guards.append((v, nx != t["tgts"][t["vals"].index("0")]))
        if arm is None:
            continue
        reads = []
        for pos, blk, t in p.calls():
            n = cname(t["func"])
            m = re.search(r"ReadBytesExt::(read_\w+)$", t["func"]["path"]) or re.search(r"ReadBytesExt::(read_\w+)$", n)
            if m and m.group(1) in READ_W:
                reads.append(("fixed",) + READ_W[m.group(1)])
            elif re.search(r"ReadMysqlExt::read_lenenc_int$", t["func"]["path"]):
                reads.append(("lenenc",))
            elif n.endswith("slice::<impl [T]>::split_at"):
                reads.append(("take", p.arg(pos, 1)))
        if cls == "err":
            continue
        rv = p.return_value()
        var = rv[4][0] if rv[0] == "agg" and rv[3] == "Ok" else None
        vname = var[3] if isinstance(var, tuple) and var[0] == "agg" else None
        key = (arm, unsigned)
        seen_arms.add(arm)
        ok, why = True, ""
        names = set(arm)
        if names & set(INT_W):
            w = {INT_W[x] for x in names}
            okw = len(w) == 1 and names <= set(INT_W)
            exp = [("fixed", list(w)[0] if okw else None, not unsigned)]
            ok = okw and unsigned is not None and reads == exp and vname == ("UInt" if unsigned else "Int")
            if ok:
                # widening only: From::from or identity
                payload = var[4][0]
                conv = T.peel(payload, payloads=True)
                ok = not T.contains(payload, lambda x: isinstance(x, tuple) and x[0] == "cast")
            why = "integer %s unsigned=%s: reads %s -> %s (need one %s-byte %s read into %s)" % (list(arm), unsigned, reads, vname, list(w), "unsigned" if unsigned else "signed", "UInt" if unsigned else "Int")
        elif names & {"MYSQL_TYPE_FLOAT", "MYSQL_TYPE_DOUBLE"}:
            w = 4 if "MYSQL_TYPE_FLOAT" in names else 8
            ok = len(names) == 1 and reads == [("fixed", w, None)] and vname == "Double"
            why = "%s: reads %s -> %s (need one %d-byte float read into Double)" % (list(arm), reads, vname, w)
        elif names & STRINGLIKE:
            ok = names <= STRINGLIKE and len(reads) == 2 and reads[0] == ("lenenc",) and reads[1][0] == "take" and vname == "Bytes"
            if ok:
                ln = reads[1][1]
                ok = T.contains(ln, lambda x: T.is_call(x, r"read_lenenc_int$")) and any(T.contains(g[0], lambda x: T.is_call(x, r"read_lenenc_int$")) and g[0][1] == "Gt" and not g[1] for g in guards)
            why = "string-like %s: reads %s, guards %d -> %s (need lenenc length, guarded split of that length, Bytes)" % (sorted(names)[:3], [r[0] for r in reads], len(guards), vname)
        elif names & set(TEMPORAL):
            vs = {TEMPORAL[x] for x in names}
            ok = len(vs) == 1 and len(reads) == 2 and reads[0] == ("fixed", 1, False) and reads[1][0] == "take" and vname == list(vs)[0] and \
                T.contains(reads[1][1], lambda x: T.is_call(x, r"read_u8$")) and any(g[0][1] == "Gt" and not g[1] for g in guards)
            why = "temporal %s: reads %s -> %s (need one length byte, guarded split of that length, %s)" % (list(arm), [r[0] for r in reads], vname, list(vs))
        elif names == {"MYSQL_TYPE_NULL"}:
            ok = not reads and vname == "NULL"
            why = "NULL type consumes %s" % reads
        else:
            ok = False
            why = "column types %s are accepted by the value parser with reads %s" % (list(arm)[:4], reads)
        ctx.ob("C08.value-layouts", ok, why, fn=pf.path, construct="value-layout", callee=",".join(sorted(arm))[:80], where=pf.where(p.blocks[-1]), key_extra={"unsigned": unsigned},
               sample={"rule": "value-layouts", "arm": sorted(arm)[:3], "unsigned": unsigned, "reads": [r[0:3] if r[0] == "fixed" else r[0] for r in reads], "variant": vname})
    ctx.floor("C08.value-layouts", "column-type arms of the value parser", len(seen_arms), 11)
    # sibling agreement: the encoder's string-like set equals the decoder's
    enc = prog.one(r"^<\[u8\] as value::encode::ToMysqlValue>::to_mysql_bin$")
    # the column types under which the byte-string encoder writes (however the test is spelled: match arms, matches!, a predicate helper)
    from engines import coltype as _coltype, wire as _wire
    enc_set = set()
    for p_ in enumerate_paths(enc):
        if p_.end != "return":
            continue
        if any(e.kind in ("lenenc_str", "raw", "call") for e in _wire.path_emissions(prog, p_)):
            arm_ = _coltype.arm_of(enc, p_, ct_names, prog)
            if arm_ and arm_ != ("other",):
                enc_set |= set(arm_)
    dec_set = set()
    for a in seen_arms:
        if set(a) & STRINGLIKE:
            dec_set |= set(a)
    ctx.ob("C08.value-layouts", enc_set == dec_set and len(enc_set) >= 14, "byte-string column types differ between encoder and parameter decoder: %s" % sorted(enc_set ^ dec_set), fn=enc.path,
           construct="sibling-sets", sample={"rule": "sibling-sets", "count": len(enc_set)})

    # ---- count --------------------------------------------------------------------------------------
    nsome = nnone = 0
    for p in enumerate_paths(nxt, max_visits=2):
        if p.end != "return":
            continue
        rv = p.return_value()
        incs = 0
        for pos, blk in enumerate(p.blocks):
            for i, s in enumerate(nxt.blocks[blk]["stmts"]):
                if s["k"] == "assign" and place_fields(s["lhs"]) == ["col"]:
                    v = nxt.origin_rvalue(s["rv"], blk, i, 0)
                    if T.affine(v) == col.add(Aff(1)):
                        incs += 1
                    else:
                        incs += 100
        if rv[0] == "agg" and rv[3] == "Some":
            nsome += 1
            ctx.ob("C08.count", incs == 1, "a parameter is yielded with %s column-index updates (need exactly one `col += 1`)" % incs, fn=nxt.path, construct="increment-per-some",
                   where=nxt.where(p.blocks[-1]))
        elif rv[0] == "agg" and rv[3] == "None":
            nnone += 1
            ctx.ob("C08.count", incs == 0, "the iterator ends while advancing the column index", fn=nxt.path, construct="no-increment-on-none", nontrivial=False)
    ctx.floor("C08.count", "Some(..) paths of the parameter iterator", nsome, 3)
    guard = [bb for bb in range(nxt.n) if nxt.term(bb)["k"] == "switch" and not nxt.is_cleanup(bb) and
             (lambda v: isinstance(v, tuple) and v[0] == "bin" and v[1] in ("Ge", "Lt") and T.affine(v[2]) == col and T.affine(v[3]) == n_atom)(nxt.origin_op(nxt.term(bb)["discr"], bb, len(nxt.blocks[bb]["stmts"])))]
    ctx.ob("C08.count", len(guard) == 1, "iteration must stop exactly at col >= params (found %d such tests)" % len(guard), fn=nxt.path, construct="stop-condition")
    # params comes from the statement entry (declared count)
    pn = prog.one(r"^params::ParamParser::<'a>::new$")
    rb = pn.return_blocks()[0]
    o = pn.origin_place({"l": 0, "p": []}, rb, len(pn.blocks[rb]["stmts"]))
    d = dict(zip(o[5], o[4])) if o[0] == "agg" else {}
    ctx.ob("C08.count", T.is_field(d.get("params"), "params") and T.is_param(d["params"][1], 2), "the parser's parameter count is not the statement's declared count", fn=pn.path,
           construct="declared-count")

    # ---- length forms of the temporal converters -----------------------------------------------------
    for tyname, pat in (("NaiveDate", r"From<value::decode::Value<'a>> for chrono::NaiveDate>::from$"),
                        ("NaiveDateTime", r"From<value::decode::Value<'a>> for chrono::NaiveDateTime>::from$"),
                        ("Duration", r"From<value::decode::Value<'a>> for std::time::Duration>::from$")):
        b = prog.one(pat)
        ctx.fn(b)
        accepted = set()
        dead = []
        nlen = 0
        for p in enumerate_paths(b, max_visits=1, limit=20000):
            if p.end not in ("return",):
                continue
            consumed = 0
            first_len = None
            feasible = None
            for pos, blk in enumerate(p.blocks[:-1]):
                t = b.term(blk)
                if t["k"] == "call":
                    m = re.search(r"ReadBytesExt::(read_\w+)$", t["func"]["path"])
                    if m and m.group(1) in READ_W:
                        consumed += READ_W[m.group(1)][0]
                if t["k"] == "switch" and "0" in t["vals"]:
                    v = p.origin_op(t["discr"], pos)
                    truth = p.blocks[pos + 1] != t["tgts"][t["vals"].index("0")]
                    lenv = None
                    if isinstance(v, tuple) and v[0] == "bin" and v[1] == "Eq" and T.const_int(v[3]) is not None and T.is_call(v[2], r"slice::<impl \[T\]>::len$"):
                        lenv = T.const_int(v[3])
                    elif T.is_call(v, r"slice::<impl \[T\]>::is_empty$"):
                        lenv = 0
                    if lenv is None:
                        continue
                    nlen += 1
                    if consumed == 0:
                        if truth:
                            first_len = lenv
                    else:
                        # a test of the *remaining* length after `consumed` bytes: original length would have to be lenv + consumed
                        if truth and first_len is not None and lenv + consumed != first_len:
                            dead.append((lenv, consumed, first_len, b.where(blk)))
                        if truth and first_len is None:
                            dead.append((lenv, consumed, None, b.where(blk)))
            if first_len is not None:
                accepted.add(first_len)
        # every form's own fields must be reachable: the test guarding the optional field must hold for the form that carries it
        legal = LEGAL_FORMS[tyname]
        # forms that are accepted but whose optional part is guarded by an unsatisfiable remaining-length test
        unsat = {}
        for p in enumerate_paths(b, max_visits=1, limit=20000):
            pass
        missing = sorted(legal - accepted)
        ctx.ob("C08.length-forms", not missing, "From<Value> for %s accepts length forms %s; the protocol also sends %s (conversion panics on them)" % (tyname, sorted(accepted), missing),
               fn=b.path, construct="accepted-forms", key_extra={"missing": ",".join(map(str, missing))},
               sample={"rule": "length-forms", "type": tyname, "accepted": sorted(accepted), "legal": sorted(legal)})
        # satisfiability of length tests: a test `len == K` whose len() was taken after c bytes had been consumed from the cursor
        # needs an accepted form of K + c bytes
        later = set()
        for p in enumerate_paths(b, max_visits=1, limit=20000):
            cons_at = []
            consumed = 0
            for pos, blk in enumerate(p.blocks):
                cons_at.append(consumed)
                t = b.term(blk)
                if t["k"] == "call":
                    m = re.search(r"ReadBytesExt::(read_\w+)$", t["func"]["path"])
                    if m and m.group(1) in READ_W:
                        consumed += READ_W[m.group(1)][0]
            for pos, blk in enumerate(p.blocks[:-1]):
                t = b.term(blk)
                if t["k"] == "switch":
                    v = p.origin_op(t["discr"], pos)
                    if isinstance(v, tuple) and v[0] == "bin" and v[1] in ("Eq", "Ge") and T.const_int(v[3]) is not None and T.is_call(v[2], r"slice::<impl \[T\]>::len$"):
                        site = v[2][3][1] if len(v[2]) > 3 and isinstance(v[2][3], tuple) else None
                        c = cons_at[p.blocks.index(site)] if site in p.blocks else None
                        if c:
                            later.add((T.const_int(v[3]), c, blk))
        for K, c, blk in sorted(later):
            ok = (K + c) in accepted
            ctx.ob("C08.length-forms", ok,
                   "From<Value> for %s tests `len == %d` on a length taken after %d bytes were already consumed from the cursor: no accepted form has %d bytes, so the field guarded by this test (microseconds) is never decoded" % (tyname, K, c, K + c),
                   fn=b.path, construct="remaining-length-test", where=b.where(blk), key_extra={"K": K, "consumed": c})
        ctx.floor("C08.length-forms", "length tests in the %s converter" % tyname, nlen, 1)

    # TIME carries a sign byte (first byte of the 8/12-byte forms); both of its values are legal, so the converter must yield a
    # value on both: a branch on that byte whose non-zero edge only diverges (unimplemented!/panic) crashes on a negative TIME
    db = prog.find(r"^value::decode::<impl std::convert::From<value::decode::Value<'a>> for std::time::Duration>::from$")
    if ctx.floor("C08.length-forms", "the Duration converter", len(db), 1):
        b = db[0]
        nsign = 0
        for bb in range(b.n):
            t = b.term(bb)
            if t["k"] != "switch" or b.is_cleanup(bb) or "0" not in t["vals"]:
                continue
            v = b.origin_op(t["discr"], bb, len(b.blocks[bb]["stmts"]))
            direct = False
            if not (isinstance(v, tuple) and v[0] == "bin" and v[1] in ("Ne", "Eq") and T.is_const_int(v[3], 0)):
                continue
            if not T.contains(v[2], lambda x: T.is_call(x, r"ReadBytesExt::read_u8$")):
                # the sign byte taken off the front some other way: `let Some((&neg, rest)) = v.split_first()`, `v[0]`, `*v.first()?`
                rd0 = cursor.reading(v[2])
                if rd0 is not None and rd0["width"] == 1 and rd0["off"] == Aff(0) and T.contains(rd0["base"], lambda x: isinstance(x, tuple) and x and x[0] == "variant" and x[2] == "Time"):
                    direct = True
                else:
                    continue
            if direct:
                nsign += 1
                zt = t["tgts"][t["vals"].index("0")]
                neg_edge = t["otherwise"] if v[1] == "Ne" else zt
                returns = any(b.term(x)["k"] == "return" for x in b.reachable(neg_edge))
                ctx.ob("C08.length-forms", returns, "From<Value> for Duration: a TIME whose sign byte is set (a negative TIME, legal on the wire) only reaches a diverging branch (unimplemented!/panic): the conversion panics",
                       fn=b.path, construct="negative-time", where=b.where(bb), sample={"rule": "length-forms/sign", "returns_on_negative": returns})
                continue
            # the first byte read from the value: no earlier cursor read dominates this one
            rd = T.find(v[2], lambda x: T.is_call(x, r"ReadBytesExt::read_u8$"))
            rsite = rd[3][1] if len(rd) > 3 and isinstance(rd[3], tuple) else None
            earlier = [x for x, tt in b.calls() if re.search(r"ReadBytesExt::read_\w+$", tt["func"]["path"]) and x != rsite and rsite is not None and b.dominates(x, rsite)]
            if earlier:
                continue
            nsign += 1
            zt = t["tgts"][t["vals"].index("0")]
            nz = t["otherwise"]
            # for `neg != 0` the non-zero value of the switch operand (true) is the otherwise edge; for `neg == 0` it is the 0 edge
            neg_edge = t["otherwise"] if v[1] == "Ne" else zt
            reach = b.reachable(neg_edge)
            returns = any(b.term(x)["k"] == "return" for x in reach)
            ctx.ob("C08.length-forms", returns, "From<Value> for Duration: a TIME whose sign byte is set (a negative TIME, legal on the wire) only reaches a diverging branch (unimplemented!/panic): the conversion panics",
                   fn=b.path, construct="negative-time", where=b.where(bb), sample={"rule": "length-forms/sign", "returns_on_negative": returns})
        ctx.floor("C08.length-forms", "tests of the TIME sign byte", nsign, 1)
        # the fields of a TIME value become the Duration the client sent: seconds = days*86400 + hours*3600 + minutes*60 + seconds,
        # nanoseconds = microseconds * 1000 (each field read once from the value, scaled once)
        ndur = 0
        for q in enumerate_paths(b, max_visits=1, limit=20000):
            if q.end != "return":
                continue
            for pos, blk, t in q.calls():
                if not cname(t["func"]).endswith("time::Duration::new"):
                    continue
                secs, nanos = q.arg(pos, 0), q.arg(pos, 1)
                def _scale(term):
                    """{width of the read: coefficient} for an affine combination of cursor reads, else None"""
                    a = T.affine(term)
                    if a is None or a.c != 0:
                        return None
                    out = {}
                    for atom, k in a.m.items():
                        txt = repr(atom)
                        n32, n8 = txt.count("ReadBytesExt::read_u32"), txt.count("ReadBytesExt::read_u8")
                        if n32 + n8 != 1:
                            return None     # not exactly one field of the value
                        w = 4 if n32 else 1
                        out.setdefault(w, []).append(k)
                    return {w: sorted(v) for w, v in out.items()}
                sc = _scale(secs)
                nn = _scale(nanos) if not T.is_const_int(nanos, 0) else {}
                ok_s = sc == {4: [86400], 1: [1, 60, 3600]}
                ok_n = nn in ({}, {4: [1000]})
                ndur += 1
                ctx.ob("C08.length-forms", ok_s and ok_n,
                       "From<Value> for Duration builds Duration::new(%s, %s): need days*86400 + hours*3600 + minutes*60 + seconds and microseconds*1000 (found scales %s / %s)"
                       % (term_str(secs)[:70], term_str(nanos)[:60], sc, nn), fn=b.path, construct="time-fields", where=b.where(blk),
                       sample={"rule": "length-forms/time-fields", "seconds": sc, "nanos": nn})
        ctx.floor("C08.length-forms", "Duration::new sites in the TIME converter", ndur, 1)

    # what the shim is handed is what the reader reassembled: the inbound reassembly clauses (C01's rules: window
    # invariant, parse-before-wait, short-is-not-error, framing constants) are part of `verbatim` / `exactly what the client sent`

