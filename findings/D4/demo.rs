// D4/D5 (C04): a logical message of 2^24-1 bytes or more must be split into maximal 0xFFFFFF-byte
// packets followed by a shorter (possibly empty) one.
mod harness;
use harness::*;
use msql_srv::*;
use std::io;
struct Shim(usize);
impl MysqlShim<Pipe> for Shim {
    type Error = io::Error;
    fn on_prepare(&mut self, _: &str, i: StatementMetaWriter<'_, Pipe>) -> io::Result<()> { i.reply(1, &[], &[]) }
    fn on_execute(&mut self, _: u32, _: ParamParser<'_>, r: QueryResultWriter<'_, Pipe>) -> io::Result<()> { r.completed(0, 0) }
    fn on_close(&mut self, _: u32) {}
    fn on_query(&mut self, _: &str, r: QueryResultWriter<'_, Pipe>) -> io::Result<()> {
        let cols = [Column { table: String::new(), column: "a".into(), coltype: ColumnType::MYSQL_TYPE_BLOB, colflags: ColumnFlags::empty() }];
        let mut w = r.start(&cols)?;
        w.write_row(std::iter::once(vec![b'x'; self.0]))?;
        w.finish()
    }
}
/// client-side reassembly per the protocol: a message ends with the first packet shorter than 0xFFFFFF
fn messages(out: &[u8]) -> Vec<(Vec<u8>, Vec<u8>)> {
    let mut msgs = Vec::new();
    let (mut cur, mut seqs) = (Vec::new(), Vec::new());
    for (seq, p) in split(out) {
        seqs.push(seq);
        cur.extend_from_slice(&p);
        if p.len() < 0xFF_FFFF { msgs.push((std::mem::take(&mut cur), std::mem::take(&mut seqs))); }
    }
    assert!(cur.is_empty(), "output ends inside a message (no packet shorter than 0xFFFFFF closes it)");
    msgs
}
fn check(cell: usize) {
    let mut bytes = handshake();
    bytes.extend(packet(0, b"\x03SELECT big"));
    bytes.extend(packet(0, &[0x01]));
    let (r, out) = run(Shim(cell), bytes);
    r.unwrap();
    let m = messages(&out);
    // greeting, auth OK, column count, column def, EOF, row, EOF
    assert_eq!(m.len(), 7, "cell of {} bytes: a client reassembles {} messages instead of 7", cell, m.len());
    let row = &m[5].0;
    let prefix = if cell < 251 { 1 } else if cell < 0x10000 { 3 } else if cell < 0x1000000 { 4 } else { 9 };
    assert_eq!(row.len(), prefix + cell, "cell of {} bytes arrives as a row of {} bytes", cell, row.len());
    assert!(row[prefix..].iter().all(|b| *b == b'x'));
    // sequence ids are consecutive across the whole reply
    let ids: Vec<u8> = m[2..].iter().flat_map(|x| x.1.clone()).collect();
    for (i, id) in ids.iter().enumerate() { assert_eq!(*id as usize, (1 + i) % 256); }
}
#[test] fn row_just_below_one_packet() { check(0xFF_FFFF - 4 - 1); }
#[test] fn row_exactly_one_full_packet() { check(0xFF_FFFF - 4); }
#[test] fn row_one_byte_more() { check(0xFF_FFFF - 4 + 1); }
#[test] fn row_17_mib() { check(17 * 1024 * 1024); }
#[test] fn row_two_full_packets_exact() { check(2 * 0xFF_FFFF - 9); }
