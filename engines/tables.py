"""Value tables read off a function by path enumeration: which constant result is returned for which concrete value of
a scalar input (a parameter, or the discriminant of one), whatever mixture of `match`, or-patterns, `if x == C` chains,
early returns and helper calls (inlined) computes it."""
from .paths import enumerate_paths
from . import terms as T


def value_table(body, is_input, limit=20000, universe=None):
    """universe: all values the input can take (e.g. the discriminants of an enum); with it the default edge of a switch is
    read as `every value not listed`.
    (table, open_returns): table maps every input value pinned by the decisions of some returning path to the list of
    return-value terms of those paths; open_returns lists returning paths on which the input is not pinned to values."""
    table, open_returns = {}, []
    for p in enumerate_paths(body, max_visits=1, limit=limit):
        if p.end != "return":
            continue
        vals = None
        for i, blk in enumerate(p.blocks[:-1]):
            t = body.blocks[blk]["term"]
            if t["k"] != "switch":
                continue
            v = p.origin_op(t["discr"], i, None)
            nxt = p.blocks[i + 1]
            if is_input(v):
                taken = {int(x) for x, g in zip(t["vals"], t["tgts"]) if g == nxt}
                if nxt == t["otherwise"] and universe is not None:
                    # the wildcard / default edge stands for every value that is not listed
                    taken |= set(universe) - {int(x) for x in t["vals"]}
                if taken:
                    vals = taken if vals is None else (vals & taken)
                continue
            neg = False
            while isinstance(v, tuple) and v[0] == "un" and v[1] == "Not":
                v, neg = v[2], not neg
            if isinstance(v, tuple) and v[0] == "bin" and v[1] in ("Eq", "Ne") and "0" in t["vals"]:
                a, b = v[2], v[3]
                if T.const_int(a) is not None and is_input(b):
                    a, b = b, a
                c = T.const_int(b)
                if is_input(a) and c is not None:
                    truth = (nxt != t["tgts"][t["vals"].index("0")]) != neg
                    if truth == (v[1] == "Eq"):
                        vals = {c} if vals is None else (vals & {c})
        rv = p.return_value()
        if vals is None:
            open_returns.append((p, rv))
        else:
            for x in vals:
                table.setdefault(x, []).append(rv)
    return table, open_returns
