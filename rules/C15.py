"""C15 — integer results are exact or refused, never silently altered."""
import re

from engines.paths import enumerate_paths, classify_return
from engines.prog import cname, term_str, int_range, int_bits
from engines import terms as T
from engines import wire, coltype
from spec import int_widths as SPEC

CONFIGS = ["tls"]
LEVEL = "proof"
EXHAUSTIVE = True
TRUSTED = ["msqlx MIR exporter", "interval model of IntToInt casts / From / TryFrom on a 64-bit target", "byteorder little-endian two's-complement writes", "rustc MIR for match and comparisons"]
EXPLANATION = (
    "Path-sensitive interval analysis of the ten integer ToMysqlValue::to_mysql_bin impls and of the generic Value::Int/UInt "
    "arms. Every enumerated path is classified by the column-type arm (discriminant switch on Column.coltype, mapped through the "
    "exported ColumnType table) and the signedness branch (UNSIGNED flag test). On a writing path: (1) the written width equals "
    "the wire width of every column type of the arm; (2) with I = the interval of the source value that satisfies the path's "
    "comparisons (bounds are the folded `as` casts of MIN/MAX constants, wrapping exactly as on a 64-bit target), the value "
    "survives every cast/From on the way and the client's reading of the written two's-complement bytes (signed iff the UNSIGNED "
    "flag is clear) equals the source value for all v in I — decided exactly by interval inclusion in every intermediate type, "
    "with a concrete counterexample otherwise; (3) completeness: when the column's wire range contains the whole range of a "
    "fixed-width Rust type the arm must accept all of it, and for usize/isize the accepted interval must equal range(T) ∩ "
    "range(column); (4) a path that does not write returns Err or diverges. The generic Int/UInt arms narrow only under a range "
    "test that makes the cast value-preserving and then delegate to a checked impl. This decides the property for all values.")
ASSUMPTIONS = ["64-bit usize/isize (the build target)", "byteorder write_{i,u}N::<LittleEndian> writes N/8 bytes two's complement little-endian",
               "the column's representable range is its wire range (width x signedness)"]

INT_TYPES = ["u8", "i8", "u16", "i16", "u32", "i32", "u64", "i64", "usize", "isize"]


def wrap(v, ty):
    lo, hi = int_range(ty)
    span = hi - lo + 1
    return ((v - lo) % span) + lo


class Expr:
    """value of an integer term as a function of the source value v, with the list of types it passes through"""

    def __init__(self, f, types, dep=None):
        self.f = f
        self.types = types if (dep if dep is not None else bool(types)) else []
        self.dep = dep if dep is not None else bool(types)


def _unwrap_result(t):
    """the Result a term adapts without touching its Ok payload / Ok-ness: `r.map_err(f)`, `Try::branch(r)`"""
    while isinstance(t, tuple) and t[0] == "call" and t[2] and re.search(r"Result::<T, E>::map_err$|Try>::branch$|Try::branch$", t[1]):
        t = t[2][0]
    return t


def build(t, src_ty, depth=0):
    """Expr for term t where the source is `*self` (param 1 deref) or a variant payload named by is_src."""
    if depth > 30:
        return None
    ci = T.const_int(t)
    if ci is not None:
        return Expr(lambda v, c=ci: c, [])
    if is_source(t):
        return Expr(lambda v: v, [src_ty], True)
    if isinstance(t, tuple):
        if t[0] == "okpayload":
            t = ("okpayload", _unwrap_result(t[1]))
        if t[0] == "okpayload" and T.is_call(t[1], r"impl std::convert::TryFrom<\w+> for \w+>::try_from$") and len(t[1][2]) == 1:
            m = re.search(r"TryFrom<\w+> for (\w+)>::try_from$", t[1][1])
            inner = build(t[1][2][0], src_ty, depth + 1)
            if inner is None or int_range(m.group(1)) is None:
                return None
            ty = m.group(1)
            # the Ok payload of an integer TryFrom is the same number in the target type (the path condition restricts v to its range)
            return Expr(lambda v, g=inner.f, ty=ty: wrap(g(v), ty), inner.types + [ty], inner.dep)
        if t[0] == "cast" and t[3] == "IntToInt":
            inner = build(t[1], src_ty, depth + 1)
            if inner is None:
                return None
            ty = t[2]
            return Expr(lambda v, g=inner.f, ty=ty: wrap(g(v), ty), inner.types + [ty], inner.dep)
        if t[0] == "call" and re.search(r"convert::From<\w+>>::from$|num::<impl convert::From<\w+> for \w+>::from$|::from$", t[1]) and len(t[2]) == 1:
            m = re.search(r"for (\w+)>::from$", t[1]) or re.search(r"<(\w+) as std::convert::From<\w+>>::from$", t[1])
            inner = build(t[2][0], src_ty, depth + 1)
            if inner is None or not m or int_range(m.group(1)) is None:
                return None
            ty = m.group(1)
            # From between integers is lossless by construction (only widening impls exist): model as the identity into ty
            return Expr(lambda v, g=inner.f, ty=ty: wrap(g(v), ty), inner.types + [ty], inner.dep)
        if t[0] == "call" and re.search(r"num::<impl (\w+)>::(min_value|max_value)$", t[1]):
            m = re.search(r"num::<impl (\w+)>::(min_value|max_value)$", t[1])
            r = int_range(m.group(1))
            c = r[0] if m.group(2) == "min_value" else r[1]
            return Expr(lambda v, c=c: c, [])
    return None


_SRC = [None]


def is_source(t):
    return _SRC[0] is not None and _SRC[0](t)


def path_conditions(b, p):
    out = []
    for i, blk in enumerate(p.blocks[:-1]):
        t = b.term(blk)
        if t["k"] != "switch":
            continue
        v = p.origin_op(t["discr"], i)
        nxt = p.blocks[i + 1]
        out.append((v, t, nxt, blk))
    return out


def analyse_impl(ctx, prog, b, src_ty, ct_names, source_pred, label, delegate_ok=None):
    """Check every path of body b whose integer source is described by source_pred."""
    _SRC[0] = source_pred
    R = int_range(src_ty)
    accept = {}     # (coltype, signed) -> list of accepted intervals (on writing paths)
    refuse = {}     # (coltype, signed) -> True if a refusing path exists
    npaths = 0
    for p in enumerate_paths(b, max_visits=1, limit=20000):
        if p.end not in ("return", "diverge", "unreachable"):
            continue
        conds = path_conditions(b, p)
        arm = None          # set of coltype names
        signed = None
        lo, hi = R
        modelled = True
        arm = coltype.arm_of(b, p, ct_names, prog)
        for v, t, nxt, blk in conds:
            # column type tests (match arms, == / != against a constant) are folded into `arm` above
            if isinstance(v, tuple) and v[0] == "discr" and T.is_field(T.peel(v[1]), "coltype"):
                continue
            if T.is_call(v, r"PartialEq(<[^>]*>)?>?::(eq|ne)$") and len(v[2]) == 2 and (T.is_field(T.peel(v[2][0]), "coltype") or T.is_field(T.peel(v[2][1]), "coltype")):
                continue
            if isinstance(v, tuple) and v[0] == "discr" and T.is_call(_unwrap_result(v[1]), r"impl std::convert::TryFrom<\w+> for \w+>::try_from$"):
                v = ("discr", _unwrap_result(v[1]))     # Continue/Break of `?` carry the discriminants of Ok/Err
                m = re.search(r"TryFrom<\w+> for (\w+)>::try_from$", v[1][1])
                inner = build(v[1][2][0], src_ty)
                tr_ = int_range(m.group(1))
                vals = [int(x) for x, g in zip(t["vals"], t["tgts"]) if g == nxt]
                if inner is None or tr_ is None or not inner.dep or not all(int_range(ty)[0] <= R[0] and R[1] <= int_range(ty)[1] for ty in inner.types):
                    modelled = False
                elif vals == [0]:          # Ok: the value is representable in the target type
                    lo, hi = max(lo, tr_[0]), min(hi, tr_[1])
                elif vals == [1]:          # Err: refused; which side is irrelevant for a path that writes nothing
                    pass
                continue
            truth = None
            if "0" in t["vals"]:
                truth = nxt != t["tgts"][t["vals"].index("0")]
            # signedness: Not(contains(colflags, UNSIGNED))
            vv, neg = v, False
            while isinstance(vv, tuple) and vv[0] == "un" and vv[1] == "Not":
                vv, neg = vv[2], not neg
            if T.is_call(vv, r"ColumnFlags>::contains$") and T.is_field(T.peel(vv[2][0]), "colflags"):
                c = vv[2][1]
                if c[0] == "const" and c[1][0] == "bits" and c[1][1] == SPEC.UNSIGNED_FLAG and truth is not None:
                    uns = truth != neg
                    signed = not uns
                    continue
            # comparisons of the source with constants
            if isinstance(vv, tuple) and vv[0] == "bin" and vv[1] in ("Lt", "Le", "Gt", "Ge", "Eq", "Ne") and truth is not None:
                a, c2 = build(vv[2], src_ty), build(vv[3], src_ty)
                if a is not None and c2 is not None:
                    tr = truth != neg
                    op = vv[1]
                    if not tr:
                        op = {"Lt": "Ge", "Le": "Gt", "Gt": "Le", "Ge": "Lt", "Eq": "Ne", "Ne": "Eq"}[op]
                    # one side must be the source through value-preserving steps over the current interval, the other a constant
                    if a.types and not c2.types:
                        k = c2.f(0)
                        side = a
                    elif c2.types and not a.types:
                        k = a.f(0)
                        side = c2
                        op = {"Lt": "Gt", "Le": "Ge", "Gt": "Lt", "Ge": "Le"}.get(op, op)
                    else:
                        modelled = False
                        continue
                    # the compared expression must be the identity on range(src) (widening only)
                    if not all(int_range(ty)[0] <= R[0] and R[1] <= int_range(ty)[1] for ty in side.types):
                        modelled = False
                        continue
                    if op == "Le":
                        hi = min(hi, k)
                    elif op == "Lt":
                        hi = min(hi, k - 1)
                    elif op == "Ge":
                        lo = max(lo, k)
                    elif op == "Gt":
                        lo = max(lo, k + 1)
                    elif op == "Eq":
                        lo, hi = max(lo, k), min(hi, k)
                    else:
                        modelled = False
                    continue
            # any other branch (e.g. `?` plumbing) does not constrain the value
        if arm is None:
            continue
        writes = [(pos, blk, t) for pos, blk, t in p.calls() if wire.RX_BYTEORDER.match(t["func"]["path"]) or wire.RX_BYTEORDER.match(cname(t["func"]))]
        delegs = [(pos, blk, t) for pos, blk, t in p.calls() if re.search(r"ToMysqlValue>::to_mysql_bin$|ToMysqlValue::to_mysql_bin$", cname(t["func"]))]
        key = (arm, signed)
        npaths += 1
        where = b.where(p.blocks[-1])
        if lo > hi:
            # infeasible for every value: counts as a refusal of everything on this (arm, sign)
            continue
        if writes or delegs:
            accept.setdefault(key, []).append((lo, hi))
        if not modelled:
            ctx.ob("C15.exact-or-refused", False, "%s: a branch condition on the value is outside the modelled forms (arm %s, signed %s)" % (label, arm, signed),
                   fn=b.path, construct="unmodelled-condition", callee=str(arm), where=where, key_extra={"signed": signed})
            continue
        if writes:
            pos, blk, t = writes[0]
            m = wire.RX_BYTEORDER.match(t["func"]["path"]) or wire.RX_BYTEORDER.match(cname(t["func"]))
            w, wsigned = wire.FIXED[m.group(2)]
            cols = [c for c in arm if c in SPEC.WIDTH]
            ok_w = bool(cols) and all(SPEC.WIDTH[c] == w for c in cols) and len(cols) == len(arm)
            ctx.ob("C15.exact-or-refused", ok_w, "%s: %d byte(s) written for column type(s) %s (wire widths %s)" % (label, w, list(arm), [SPEC.WIDTH.get(c) for c in arm]),
                   fn=b.path, construct="width", callee=",".join(arm), where=b.where(blk), key_extra={"signed": signed})
            val = p.arg(pos, 1)
            ex = build(val, src_ty)
            if ex is None or signed is None:
                ctx.ob("C15.exact-or-refused", False, "%s: written value %s is outside the modelled forms" % (label, term_str(val)[:80]), fn=b.path, construct="unmodelled-value",
                       callee=",".join(arm), where=b.where(blk), key_extra={"signed": signed})
                continue
            read_ty = ("i" if signed else "u") + str(8 * w)
            chain = ex.types + [read_ty]
            bad = None
            for ty in chain:
                r = int_range(ty)
                if lo < r[0]:
                    bad = bad or lo
                if hi > r[1]:
                    bad = bad or hi
            cex = None
            if bad is not None:
                for v in sorted({bad, lo, hi, -1 if lo <= -1 <= hi else lo, 0 if lo <= 0 <= hi else lo}):
                    sent = ex.f(v)
                    seen = wrap(sent, read_ty)
                    if seen != v:
                        cex = (v, seen)
                        break
            okv = bad is None or cex is None
            ctx.ob("C15.exact-or-refused", bad is None,
                   "%s into %s %s: value %s is sent as bytes the client decodes as %s (accepted interval [%d, %d], value chain %s)" % (
                       label, "signed" if signed else "unsigned", list(arm), cex[0] if cex else bad, cex[1] if cex else "?", lo, hi, " -> ".join(chain)),
                   fn=b.path, construct="soundness", callee=",".join(arm), where=b.where(blk), key_extra={"signed": signed},
                   sample={"rule": "exact-or-refused", "impl": label, "arm": list(arm), "signed": signed, "interval": [lo, hi], "chain": chain})
        elif delegs:
            pos, blk, t = delegs[0]
            val = p.arg(pos, 0)
            ex = build(val, src_ty)
            tgt = None
            m = re.search(r"^<(\w+) as value::encode::ToMysqlValue>::to_mysql_bin$", cname(t["func"]))
            if m:
                tgt = m.group(1)
            if ex is None or tgt is None or tgt not in INT_TYPES:
                ctx.ob("C15.exact-or-refused", False, "%s: delegation of %s to %s is outside the modelled forms" % (label, term_str(val)[:60], cname(t["func"])[-50:]),
                       fn=b.path, construct="unmodelled-delegation", where=b.where(blk), key_extra={"signed": signed})
                continue
            bad = None
            for ty in ex.types:
                r = int_range(ty)
                if lo < r[0] or hi > r[1]:
                    bad = lo if lo < r[0] else hi
            ctx.ob("C15.exact-or-refused", bad is None, "%s: value %s does not survive the narrowing to %s before delegation (interval [%d, %d])" % (label, bad, tgt, lo, hi),
                   fn=b.path, construct="narrowing", callee=tgt, where=b.where(blk), key_extra={"signed": signed},
                   sample={"rule": "exact-or-refused/generic", "impl": label, "narrowed_to": tgt, "interval": [lo, hi]})
        else:
            refuse[key] = True
            cls = classify_return(p) if p.end == "return" else "diverge"
            ok = cls in ("err", "diverge") or p.end in ("diverge", "unreachable")
            ctx.ob("C15.exact-or-refused", ok, "%s: a path that writes nothing returns %s (arm %s, signed %s)" % (label, cls, arm, signed), fn=b.path, construct="refusal",
                   callee=",".join(arm), where=where, key_extra={"signed": signed}, nontrivial=False)
    return accept, refuse, npaths


def run(ctx):
    prog = ctx.prog("tls")
    ctx.rule("C15.exact-or-refused", "width, soundness (exact for every accepted value), refusal shape per (impl, column arm, signedness)")
    ctx.rule("C15.completeness", "whole Rust range accepted when the column range contains it; usize/isize accept exactly range(T) ∩ range(column)")
    ct = [a for k, a in prog.adts.items() if k.endswith("constants::ColumnType")]
    if not ctx.ob("C15.exact-or-refused", len(ct) == 1, "ColumnType enum not exported", construct="anchor", nontrivial=False):
        return
    ct_names = {int(v["discr"]): v["name"] for v in ct[0]["variants"]}
    total = 0
    for ty in INT_TYPES:
        bs = prog.find(r"^<%s as value::encode::ToMysqlValue>::to_mysql_bin$" % ty)
        if not ctx.ob("C15.exact-or-refused", len(bs) == 1, "no to_mysql_bin impl for %s" % ty, construct="impl", callee=ty, nontrivial=False):
            continue
        b = bs[0]
        ctx.fn(b)
        src = lambda t: T.is_param(t, 1)
        accept, refuse, n = analyse_impl(ctx, prog, b, ty, ct_names, src, ty)
        total += n
        R = int_range(ty)
        for col, w in SPEC.WIDTH.items():
            for signed in (True, False):
                colr = int_range(("i" if signed else "u") + str(8 * w))
                ivs = []
                for (arm, sg), lst in accept.items():
                    if col in arm and sg == signed:
                        ivs += lst
                acc = (min(x[0] for x in ivs), max(x[1] for x in ivs)) if ivs else None
                contains_all = colr[0] <= R[0] and R[1] <= colr[1]
                if ty in ("usize", "isize"):
                    want = (max(R[0], colr[0]), min(R[1], colr[1]))
                    ok = acc == want if want[0] <= want[1] else acc is None
                    ctx.ob("C15.completeness", ok, "%s into %s %s: accepted values %s, but exactly %s are representable" % (ty, "signed" if signed else "unsigned", col, acc, want),
                           fn=b.path, construct="completeness", callee=col, key_extra={"signed": signed},
                           sample={"rule": "completeness", "impl": ty, "column": col, "signed": signed, "accepted": acc} if col == "MYSQL_TYPE_LONGLONG" else None)
                elif contains_all:
                    ok = acc == R
                    ctx.ob("C15.completeness", ok, "%s into %s %s: the column can hold every %s but only %s is accepted" % (ty, "signed" if signed else "unsigned", col, ty, acc),
                           fn=b.path, construct="completeness", callee=col, key_extra={"signed": signed})
    ctx.floor("C15.exact-or-refused", "paths through the integer encoders", total, 90)

    # ---- generic values ---------------------------------------------------------------------------
    gv = prog.one(r"^<myc::Value as value::encode::ToMysqlValue>::to_mysql_bin$")
    ctx.fn(gv)
    n_int = 0
    for variant, sty in (("Int", "i64"), ("UInt", "u64")):
        src = lambda t, variant=variant: T.variant_field(t) is not None and T.variant_field(t)[0] == variant
        # restrict to paths of this variant: reuse analyse_impl but the column-type switch is absent here -> emulate arm by variant
        _SRC[0] = src
        R = int_range(sty)
        for p in enumerate_paths(gv, max_visits=1, limit=20000):
            if p.end != "return":
                continue
            conds = path_conditions(gv, p)
            took = None
            for v, t, nxt, blk in conds:
                if isinstance(v, tuple) and v[0] == "discr" and T.is_param(T.peel(v[1]), 1):
                    vals = [x for x, g in zip(t["vals"], t["tgts"]) if g == nxt]
                    took = vals
            mv = [a for k, a in prog.adts.items() if k.endswith("myc::Value") or k.endswith("value::Value")]
            delegs = [(pos, blk, t) for pos, blk, t in p.calls() if re.search(r"^<(\w+) as value::encode::ToMysqlValue>::to_mysql_bin$", cname(t["func"]))]
            if not delegs:
                # a path of this variant's arm that does not hand the number to one of the integer encoders must refuse it:
                # any other treatment (re-wrapping it in another variant, writing it here, a cast and a different encoder) is
                # outside what is proved
                vn = {int(v_["discr"]): v_["name"] for a_ in mv for v_ in a_["variants"]}
                in_arm = took is not None and {vn.get(int(x)) for x in took} == {variant}
                if in_arm:
                    other = [cname(t["func"]) for pos, blk, t in p.calls() if re.search(r"ToMysqlValue>?::to_mysql_bin$", cname(t["func"])) or wire.RX_BYTEORDER.match(t["func"]["path"])]
                    okr = classify_return(p) == "err" and not other
                    ctx.ob("C15.exact-or-refused", okr, "generic %s: a path neither refuses the value nor delegates it to an integer encoder (calls %s, returns %s)" % (variant, [o.split("::")[-1] for o in other][:3], classify_return(p)),
                           fn=gv.path, construct="generic-unmodelled", callee=variant, where=gv.where(p.blocks[-1]), nontrivial=False)
                continue
            pos, blk, t = delegs[0]
            val = p.arg(pos, 0)
            if not T.contains(val, src):
                continue
            n_int += 1
            lo, hi = R
            for v, tt, nxt, blk2 in conds:
                vv, neg = v, False
                truth = (nxt != tt["tgts"][tt["vals"].index("0")]) if "0" in tt["vals"] else None
                if isinstance(vv, tuple) and vv[0] == "discr" and T.is_call(_unwrap_result(vv[1]), r"impl std::convert::TryFrom<\w+> for \w+>::try_from$"):
                    vv = ("discr", _unwrap_result(vv[1]))
                    # `if let Ok(x) = T::try_from(n)`: on the Ok edge n lies in range(T)
                    m2 = re.search(r"TryFrom<\w+> for (\w+)>::try_from$", vv[1][1])
                    inner = build(vv[1][2][0], sty)
                    tr_ = int_range(m2.group(1))
                    taken = [int(x) for x, g in zip(tt["vals"], tt["tgts"]) if g == nxt]
                    if inner is not None and tr_ is not None and inner.dep and taken == [0] and \
                            all(int_range(ty)[0] <= R[0] and R[1] <= int_range(ty)[1] for ty in inner.types):
                        lo, hi = max(lo, tr_[0]), min(hi, tr_[1])
                    continue
                while isinstance(vv, tuple) and vv[0] == "un" and vv[1] == "Not":
                    vv = vv[2]
                    truth = (not truth) if truth is not None else None
                if isinstance(vv, tuple) and vv[0] == "bin" and vv[1] in ("Lt", "Le", "Gt", "Ge") and truth is not None:
                    a, c2 = build(vv[2], sty), build(vv[3], sty)
                    if a is None or c2 is None:
                        continue
                    op = vv[1]
                    if not truth:
                        op = {"Lt": "Ge", "Le": "Gt", "Gt": "Le", "Ge": "Lt"}[op]
                    if a.types and not c2.types:
                        k = c2.f(0)
                    elif c2.types and not a.types:
                        k = a.f(0)
                        op = {"Lt": "Gt", "Le": "Ge", "Gt": "Lt", "Ge": "Le"}[op]
                    else:
                        continue
                    if op == "Le":
                        hi = min(hi, k)
                    elif op == "Lt":
                        hi = min(hi, k - 1)
                    elif op == "Ge":
                        lo = max(lo, k)
                    elif op == "Gt":
                        lo = max(lo, k + 1)
            ex = build(val, sty)
            m = re.search(r"^<(\w+) as value::encode::ToMysqlValue>::to_mysql_bin$", cname(t["func"]))
            tgt = m.group(1)
            bad = None
            if ex is None:
                bad = "unmodelled"
            else:
                for ty in ex.types:
                    r = int_range(ty)
                    if lo <= hi and (lo < r[0] or hi > r[1]):
                        bad = lo if lo < r[0] else hi
            ctx.ob("C15.exact-or-refused", bad is None, "generic %s: value %s does not survive the narrowing to %s before delegation (interval [%d, %d])" % (variant, bad, tgt, lo, hi),
                   fn=gv.path, construct="generic-narrowing", callee="%s->%s" % (variant, tgt), where=gv.where(blk),
                   sample={"rule": "exact-or-refused/generic", "variant": variant, "narrowed_to": tgt, "interval": [lo, hi]})
    ctx.floor("C15.exact-or-refused", "generic Int/UInt delegation paths", n_int, 8)

    # the client decodes by the advertised column type and flags: they must be the declared ones (C09's definition layout)

