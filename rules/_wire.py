"""The wire layer every outbound clause presupposes: C04's framing rules (one transport write site that sends the whole
pending packet, in order, with a correct header, split threshold and empty terminator) and C05's sequence-id rules (the id
stamped on each packet continues the request's and wraps modulo 256).  Properties whose statement is `X arrives exactly` run
this bundle in addition to their own rules."""


def run_outbound(ctx, configs=("tls",)):
    if getattr(ctx, "_wire_done", False):
        return
    ctx._wire_done = True
    import rules.C04 as C04
    import rules.C05 as C05
    C04.run(ctx, configs=list(configs))
    C05.run(ctx, configs=list(configs))
