"""Per-command analysis of the command loop (F_run): one enumerated path per way through one
loop iteration, grouped by the arm of the `Command` match it takes."""
import re

from .paths import enumerate_paths, classify_return
from .prog import cname, op_place, AnchorMissing
from .effects import is_shim_call, shim_method
from .typestate import err_blocks


class LoopModel:
    def __init__(self, prog, roles, eff):
        self.prog = prog
        self.roles = roles
        self.eff = eff
        b = roles.f_run
        self.body = b
        # the Command match: a switch on discriminant(x) with x: commands::Command
        self.switch_bb = None
        for bb in range(b.n):
            if b.is_cleanup(bb):
                continue
            t = b.term(bb)
            if t["k"] != "switch":
                continue
            pl = op_place(t["discr"])
            if pl is None:
                continue
            o = b.origin_place(pl, bb, len(b.blocks[bb]["stmts"]))
            if o[0] == "discr":
                # type of the scrutinee: look at the defining statement
                for s in b.blocks[bb]["stmts"]:
                    if s["k"] == "assign" and s["rv"]["k"] == "discr" and "commands::Command" in s["rv"].get("of", ""):
                        # the dispatching match is the one that tells the most commands apart (a partial re-test of the
                        # discriminant elsewhere, e.g. in an inlined helper or a drop ladder, is not the dispatcher)
                        if self.switch_bb is None or len(t["vals"]) > len(b.term(self.switch_bb)["vals"]):
                            self.switch_bb = bb
                            self.cmd_place = s["rv"]["place"]
        if self.switch_bb is None:
            raise AnchorMissing("command loop: no switch on a commands::Command discriminant in %s" % b.path)
        adt = None
        for p, a in prog.adts.items():
            if p.endswith("commands::Command") and a["kind"] == "enum":
                adt = a
        if adt is None:
            raise AnchorMissing("enum commands::Command not exported")
        self.adt = adt
        t = b.term(self.switch_bb)
        self.arm_entry = {}
        for v, tgt in zip(t["vals"], t["tgts"]):
            name = [x["name"] for x in adt["variants"] if int(x["discr"]) == int(v)]
            self.arm_entry[name[0] if name else "discr%s" % v] = tgt
        # loop-bottom join: the F_flush call inside the loop that reaches the header again
        self.read_bb = [bb for bb, t in b.calls() if cname(t["func"]) == roles.f_read.path]
        if len(self.read_bb) != 1:
            raise AnchorMissing("command loop: expected one transport-reader call, found %d" % len(self.read_bb))
        self.read_bb = self.read_bb[0]
        self.flush_bbs = [bb for bb, t in b.calls() if cname(t["func"]) == roles.f_flush.path]
        self.err = err_blocks(b)
        self._paths = None

    def iteration_paths(self):
        """Paths from the function entry through exactly one loop iteration: they end when they
        come back to the block of the reader call ('stop'), or at a return."""
        if self._paths is None:
            ps = enumerate_paths(self.body, start=0, stop_second={self.read_bb}, max_visits=2, limit=200000)
            out = []
            for p in ps:
                arm = None
                for name, e in self.arm_entry.items():
                    if e in p.blocks:
                        arm = name
                outcome = p.end
                if p.end == "return":
                    outcome = "return-" + classify_return(p)
                out.append((arm, outcome, p))
            self._paths = out
        return self._paths

    def events(self, p):
        """Ordered events on a path: (kind, pos, bb, t) for shim calls, connection writes, flushes,
        registry operations."""
        out = []
        for pos, bb, t in p.calls():
            f = t["func"]
            if "indirect" in f:
                continue
            n = cname(f)
            if is_shim_call(t) and not f.get("rpath"):
                out.append(("shim:" + shim_method(t), pos, bb, t))
                continue
            e = self.eff.of_call(self.body, bb, t)
            if n == self.roles.f_flush.path:
                out.append(("flush", pos, bb, t))
            elif n == self.roles.f_read.path:
                out.append(("read", pos, bb, t))
            elif "writes" in e:
                out.append(("write", pos, bb, t))
            m = re.search(r"std::collections::HashMap::<K, V, S, A>::(get_mut|get|remove|insert|clear|entry|contains_key)$", n)
            if m:
                out.append(("map:" + m.group(1), pos, bb, t))
        return out
