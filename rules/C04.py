"""C04 — outbound bytes are well-framed, including messages of 16 MiB and more."""
import re

from engines import effects
from engines.paths import enumerate_paths, classify_return
from engines.prog import cname, term_str, op_place, place_fields
from engines import terms as T
from engines.terms import Aff
from engines.obligations import Bounds

CONFIGS = ["tls", "notls"]
LEVEL = "other"
U24_MAX = 0xFFFFFF
EXPLANATION = (
    "Framing arithmetic decided for all message sizes from the constants and affine forms in the framer's MIR. Sole writer: the "
    "only transport write site is in the packet terminator and it writes the whole pending buffer; the only transport flush is "
    "in the connection flush. Header = payload: with H the constant the buffer is truncated to (and its initial length), the "
    "terminator writes len(to_write) - H into bytes [0..3) as a 24-bit LE integer and the sequence counter into byte [3], and "
    "H = 4. Split threshold: in Write::write the constant K the pending length is compared with equals the constant K2 that "
    "bounds the copy (min(buf.len(), K2 - len)), and K - H = 0xFFFFFF, the protocol's maximal payload; hence H <= len <= K at "
    "every point and the 24-bit length never truncates. Empty terminator: the terminator skips emission only when the payload "
    "is empty AND the `last packet was full` flag is clear, and every emitting path sets that flag to (payload == 0xFFFFFF). "
    "Write progress: every Ok path of write either leaves len < K or ends the packet, so the next call can accept >= 1 byte.")
ASSUMPTIONS = ["byteorder write_u24 writes 3 LE bytes", "Vec::extend/truncate/len semantics", "clients reassemble per the protocol (packet < 0xFFFFFF ends a message)"]


def const_of(t):
    return T.const_int(t)


def _is_buflen(t):
    t = T.peel(t)
    return T.is_call(t, r"slice::<impl \[T\]>::len$") and T.is_param(T.peel(t[2][0]), 2)


def _room(t):
    """K for a term `K - self.to_write.len()`"""
    t = T.peel(t)
    if isinstance(t, tuple) and t[0] == "bin" and t[1] == "Sub" and T.is_call(T.peel(t[3]), r"Vec::<T, A>::len$") and T.is_field(T.peel(T.peel(t[3])[2][0]), "to_write"):
        return const_of(t[2])
    return None


def accepted_count(p, cnt):
    """(count term, K2) when the count returned on path p is provably min(buf.len(), K2 - pending length): written with
    `min`, or as one of the two operands on a path whose comparison of them makes it the smaller one; else None."""
    c = T.peel(cnt)
    if T.is_call(c, r"(cmp::min|Ord::min|Ord>::min)$") and len(c[2]) == 2:
        a, b = c[2]
        if _is_buflen(a) and _room(b) is not None:
            return c, _room(b)
        if _is_buflen(b) and _room(a) is not None:
            return c, _room(a)
        return None
    want = "buf" if _is_buflen(c) else ("room" if _room(c) is not None else None)
    if want is None:
        return None
    for i, blk, v, truth in p.decisions():
        if not (isinstance(v, tuple) and v[0] == "bin" and v[1] in ("Lt", "Le", "Gt", "Ge")):
            continue
        a, b, op = v[2], v[3], v[1]
        if _is_buflen(b) and _room(a) is not None:
            a, b = b, a
            op = {"Lt": "Gt", "Le": "Ge", "Gt": "Lt", "Ge": "Le"}[op]
        if not (_is_buflen(a) and _room(b) is not None):
            continue
        k2 = _room(b)
        if not truth:
            op = {"Lt": "Ge", "Le": "Gt", "Gt": "Le", "Ge": "Lt"}[op]
        smaller = "buf" if op in ("Lt", "Le") else "room"       # buf < / <= room: buf.len() is the minimum
        if smaller == want or (op in ("Le", "Ge") and False):
            return c, (k2 if want == "buf" else _room(c))
        return None
    return None


def run(ctx, configs=None):
    """configs: restrict to these (used by C06/C07, whose `values arrive unchanged` covers cells of 16 MiB and more and
    therefore includes the framing clauses)."""
    for cfg in (configs or CONFIGS):
        prog = ctx.prog(cfg)
        roles, eff = effects.build(prog)
        ft, fw, fl, fnew = roles.f_term, roles.f_wr, roles.f_flush, roles.f_new
        for b in (ft, fw, fl, fnew):
            ctx.fn(b)
        ctx.rule("C04.sole-writer", "one transport write site (whole pending buffer, in the terminator); one transport flush site (in flush)")
        ctx.rule("C04.header-equals-payload", "header length field = len(to_write) - H, H = 4 = truncate length = initial length; byte 3 = sequence counter")
        ctx.rule("C04.split-threshold", "K == K2 and K - H == 0xFFFFFF")
        ctx.rule("C04.empty-terminator", "emission skipped only if payload == 0 and not last_full; last_full := payload == 0xFFFFFF on emit")
        ctx.rule("C04.write-progress", "after write, len < K or the packet was ended")

        # ---- sole writer ----------------------------------------------------------------------
        ws = roles.write_sites
        ctx.ob("C04.sole-writer", len(ws) == 1, "expected exactly one transport write site, found %d" % len(ws), fn=ft.path, construct="write-sites", nontrivial=False)
        b, bb, t = ws[0]
        arg = b.arg_origin(bb, 1)
        whole = T.peel(arg)
        partial = T.find(arg, lambda x: isinstance(x, tuple) and x[0] == "agg" and re.search(r"ops::Range(From|To|Inclusive|ToInclusive)?$", x[2] or "") is not None)
        ok = T.is_field(whole, "to_write") and partial is None and cname(t["func"]).endswith("write_all")
        ctx.ob("C04.sole-writer", ok, "the transport must receive the whole pending buffer with write_all (got %s via %s)" % (term_str(arg)[:80], cname(t["func"])[-30:]),
               fn=b.path, construct="write-arg", where=b.where(bb), sample={"rule": "sole-writer", "arg": term_str(arg)[:80]})
        fsites = roles._transport_sites(r"^std::io::Write::flush$")
        # the transport handle does not leave the packet layer: no function hands out a reference to the connection's `rw` (a caller
        # holding it can write bytes that are not packets, or packets that bypass the counter and the pending buffer)
        for fn_ in prog.non_test_fns():
            outs = fn_.raw.get("sig_out") or ""
            own_layer = "packet::PacketConn<" in (fn_.raw.get("impl_self") or "")
            for bbx, i_, s_ in fn_.stmts():
                if not (s_["k"] == "assign" and s_["rv"]["k"] == "ref" and s_["rv"].get("mut")):
                    continue
                pp = s_["rv"]["place"].get("p", [])
                if not (pp and isinstance(pp[-1], dict) and pp[-1].get("n") == "rw" and str(pp[-1].get("of") or "").startswith("packet::PacketConn<")):
                    continue
                if not own_layer:
                    # code outside the packet layer (or an accessor of it inlined there) borrows the transport itself
                    ctx.ob("C04.sole-writer", False, "%s borrows the connection's transport (`rw`) mutably: bytes written through it bypass the framing" % fn_.path,
                           fn=fn_.path, construct="transport-escapes", where=fn_.where(bbx, i_))
                    break
                esc = False
                for rb_ in fn_.return_blocks():
                    o = fn_.origin_place({"l": 0, "p": []}, rb_, len(fn_.blocks[rb_]["stmts"]))
                    if T.find(o, lambda x: T.is_field(x, "rw")) is not None and (outs.startswith("&mut") or "impl " in outs):
                        esc = True
                if esc:
                    ctx.ob("C04.sole-writer", False, "%s hands out a mutable reference to the connection's transport (%s): bytes written through it bypass the framing" % (fn_.path, outs),
                           fn=fn_.path, construct="transport-escapes", where=fn_.where(bbx, i_))
                    break
        ctx.ob("C04.sole-writer", len(fsites) == 1 and fsites[0][0].path == fl.path, "transport flush sites: %s" % [(x[0].path) for x in fsites], fn=fl.path, construct="flush-sites")
        # nobody else touches the pending buffer except write (extend) and the terminator (header bytes, truncate)
        touch = set()
        for fn_ in prog.non_test_fns():
            for bbx, t2 in fn_.calls():
                for a in t2["args"]:
                    pl = op_place(a)
                    if pl is None:
                        continue
                    o = fn_.origin_place(pl, bbx, len(fn_.blocks[bbx]["stmts"]))
                    if T.is_field(T.peel(o), "to_write") and "packet::PacketConn<" in (fn_.raw.get("impl_self") or ""):
                        touch.add(fn_.path)
        ctx.ob("C04.sole-writer", touch <= {ft.path, fw.path, fnew.path}, "the pending buffer is used outside write/terminator/constructor: %s" % sorted(touch - {ft.path, fw.path, fnew.path}),
               fn=ft.path, construct="buffer-users")

        # ---- header-equals-payload -----------------------------------------------------------
        H = None
        for bbx, t2 in ft.calls():
            if cname(t2["func"]).endswith("Vec::<T, A>::truncate") and T.is_field(T.peel(ft.arg_origin(bbx, 0)), "to_write"):
                H = const_of(ft.arg_origin(bbx, 1))
        ctx.ob("C04.header-equals-payload", H == 4, "the pending buffer is reset to %s bytes after a packet (need the 4 header bytes)" % H, fn=ft.path, construct="truncate", nontrivial=False)
        # initial length in the constructor: the aggregate stored into to_write
        init_len = None
        rb = fnew.return_blocks()[0]
        o = fnew.origin_place({"l": 0, "p": []}, rb, len(fnew.blocks[rb]["stmts"]))
        if o[0] == "agg":
            d = dict(zip(o[5], o[4]))
            tw = d.get("to_write")
            arr = T.find(tw, lambda x: isinstance(x, tuple) and x[0] == "agg" and x[1] == "array") if tw else None
            rep = T.find(tw, lambda x: isinstance(x, tuple) and x[0] == "repeat") if tw else None
            fe = T.find(tw, lambda x: T.is_call(x, r"vec::from_elem$")) if tw else None
            if arr is not None:
                init_len = len(arr[4])
            elif rep is not None and str(rep[2]).isdigit():
                init_len = int(rep[2])
            elif fe is not None and T.const_int(fe[2][1]) is not None:
                init_len = T.const_int(fe[2][1])
            if init_len is None and tw is not None and T.contains(tw, lambda x: T.is_call(x, r"into_vec|box_assume_init_into_vec")):
                # vec![a, b, c, d] lowers to a boxed array initialised in place: take the array aggregate stored in the constructor
                arrs = [s_["rv"] for _, _, s_ in fnew.stmts() if s_["k"] == "assign" and s_["rv"]["k"] == "agg" and s_["rv"].get("ak") == "array"]
                if len(arrs) == 1:
                    init_len = len(arrs[0]["fields"])
            if init_len is None and tw is not None and T.is_call(T.peel(tw), r"slice::<impl \[T\]>::(to_vec|to_owned|into_vec)$|ToOwned>::to_owned$|From<&\[T\]>>::from$|From<&\[T; N\]>>::from$|From<\[T; N\]>>::from$"):
                # a copy of a constant array / slice (`HEADER.to_vec()`, `Vec::from(HEADER)`): as long as the constant
                cb = T.find(tw, lambda x: isinstance(x, tuple) and x and x[0] == "const" and isinstance(x[1], tuple) and x[1] and x[1][0] == "bytes")
                if cb is not None:
                    init_len = len(cb[1][1])
            seq0 = d.get("seq")
            ctx.ob("C04.header-equals-payload", init_len == H, "initial pending buffer has %s bytes, header size is %s" % (init_len, H), fn=fnew.path, construct="initial-length",
                   sample={"rule": "header-equals-payload", "initial": init_len, "H": H})
        n = 0
        for bbx, t2 in ft.calls():
            if re.search(r"ByteOrder>::write_u24$|ByteOrder::write_u24$", cname(t2["func"])) or re.search(r"ByteOrder::write_u24$", t2["func"]["path"]):
                n += 1
                dst = ft.arg_origin(bbx, 0)
                val = ft.arg_origin(bbx, 1)
                rng = T.find(dst, lambda x: isinstance(x, tuple) and x[0] == "agg" and (x[2] or "").endswith("ops::Range"))
                rng = rng or T.find(dst, lambda x: isinstance(x, tuple) and x[0] == "agg" and (x[2] or "").endswith("ops::RangeTo"))
                okr = rng is not None and ((len(rng[4]) == 2 and T.is_const_int(rng[4][0], 0) and T.is_const_int(rng[4][1], 3)) or (len(rng[4]) == 1 and T.is_const_int(rng[4][0], 3))) and \
                    T.contains(dst, lambda x: T.is_field(x, "to_write"))
                # in general: the destination is bytes [0, 3) of the pending buffer, however the sub-slice is spelled
                from engines import cursor as _cur
                lb, lo_, ll = _cur.locate(dst)
                okr = T.is_field(T.peel(lb), "to_write") and lo_ == Aff(0) and ll == Aff(3)
                B = Bounds(ft, bbx, prog.ptr_bits)
                v = val
                if isinstance(v, tuple) and v[0] == "cast" and v[2] == "u32":
                    v = v[1]
                e = B.aff(v)
                want = Aff(-(H or 0), {("len", ("path", "self", "to_write")): 1})
                ctx.ob("C04.header-equals-payload", okr and e == want, "header length field = %r written to %s (need len(to_write) - %s into to_write[0..3])" % (e, term_str(dst)[:60], H),
                       fn=ft.path, construct="length-field", where=ft.where(bbx), sample={"rule": "header-equals-payload", "length_field": repr(e)})
        ctx.floor("C04.header-equals-payload", "24-bit length writes in the terminator", n, 1)
        # byte 3 <- seq
        st = [(bbx, i, s) for bbx, i, s in ft.stmts() if s["k"] == "assign" and s["lhs"]["p"] == ["deref"] and "u8" == ft.local_ty(s["lhs"]["l"]).replace("&mut ", "")]
        okb = False
        for bbx, i, s in st:
            tgt = ft.origin_local(s["lhs"]["l"], bbx, i)
            val = ft.origin_rvalue(s["rv"], bbx, i, 0)
            if T.is_call(tgt, r"IndexMut<I>>::index_mut$|IndexMut::index_mut$") and T.is_const_int(tgt[2][1]) is not False and T.is_field(T.peel(val), "seq"):
                from engines import cursor as _cur
                lb, lo_, ll = _cur.locate(tgt[2][0])
                k_ = T.const_int(tgt[2][1])
                if T.is_field(T.peel(lb), "to_write") and k_ is not None and lo_.add(Aff(k_)) == Aff(3):
                    okb = True
        # the same through a built-in slice index: `header[3] = seq` with `header = &mut self.to_write[..4]`
        for bbx, i, s in ft.stmts():
            if s["k"] == "assign" and len(s["lhs"]["p"]) == 2 and s["lhs"]["p"][0] == "deref" and isinstance(s["lhs"]["p"][1], dict) and \
                    ("idx" in s["lhs"]["p"][1] or "cidx" in s["lhs"]["p"][1]) and ft.local_ty(s["lhs"]["l"]).replace("&mut ", "") == "[u8]":
                from engines import cursor as _cur
                e_ = s["lhs"]["p"][1]
                k_ = T.const_int(ft.origin_local(e_["idx"], bbx, i)) if "idx" in e_ else (e_["cidx"] if not e_.get("from_end") else None)
                lb, lo_, ll = _cur.locate(ft.origin_local(s["lhs"]["l"], bbx, i))
                val = ft.origin_rvalue(s["rv"], bbx, i, 0)
                if T.is_field(T.peel(lb), "to_write") and k_ is not None and lo_.add(Aff(k_)) == Aff(3) and T.is_field(T.peel(val), "seq"):
                    okb = True
        ctx.ob("C04.header-equals-payload", okb, "byte 3 of the header is not stamped from the sequence counter", fn=ft.path, construct="seq-byte")

        # ---- split threshold --------------------------------------------------------------------
        K = K2 = None
        for bbx in range(fw.n):
            t2 = fw.term(bbx)
            if t2["k"] == "switch" and not fw.is_cleanup(bbx):
                v = fw.origin_op(t2["discr"], bbx, len(fw.blocks[bbx]["stmts"]))
                if isinstance(v, tuple) and v[0] == "bin" and v[1] in ("Eq", "Ge", "Ne", "Lt") and T.is_call(T.peel(v[2], payloads=False), r"Vec::<T, A>::len$") \
                        and T.is_field(T.peel(T.peel(v[2], payloads=False)[2][0]), "to_write"):
                    K = (const_of(v[3]), v[1], bbx, t2)
                # the same test spelled on the room that is left: `K - len == 0` (a `room()` helper) is `len == K`
                if isinstance(v, tuple) and v[0] == "bin" and v[1] in ("Eq", "Ne") and T.is_const_int(v[3], 0) and isinstance(v[2], tuple) and v[2][0] == "bin" and v[2][1] == "Sub" \
                        and T.is_call(T.peel(v[2][3], payloads=False), r"Vec::<T, A>::len$") and T.is_field(T.peel(T.peel(v[2][3], payloads=False)[2][0]), "to_write") \
                        and const_of(v[2][2]) is not None:
                    K = (const_of(v[2][2]), v[1], bbx, t2)
        for bbx, t2 in fw.calls():
            if re.search(r"(cmp::min|cmp::Ord::min|Ord>::min|Ord::min)$", cname(t2["func"])) or re.search(r"cmp::Ord::min$", t2["func"]["path"]):
                for i in (0, 1):
                    a = fw.arg_origin(bbx, i)
                    if isinstance(a, tuple) and a[0] == "bin" and a[1] == "Sub" and T.is_call(a[3], r"Vec::<T, A>::len$") and T.is_field(T.peel(a[3][2][0]), "to_write"):
                        K2 = const_of(a[2])
        # the accepted count per Ok path: min(buf.len(), K2 - len), or one of the two chosen by a comparison of them
        counts = {}
        for p in enumerate_paths(fw):
            if p.end != "return" or classify_return(p) == "err":
                continue
            rv = p.return_value()
            if not (rv[0] == "agg" and rv[3] == "Ok" and rv[4]):
                continue
            counts[tuple(p.blocks)] = accepted_count(p, rv[4][0])
        k2s = {c[1] for c in counts.values() if c is not None}
        if K2 is None and len(k2s) == 1:
            K2 = list(k2s)[0]
        ctx.ob("C04.split-threshold", K is not None and K2 is not None, "cannot find the split comparison / copy bound in Write::write (K=%s, K2=%s)" % (K, K2), fn=fw.path,
               construct="anchors", nontrivial=False)
        if K is not None and K2 is not None and H is not None:
            ctx.ob("C04.split-threshold", K[0] == K2 and K[1] in ("Eq", "Ge"), "split comparison constant %s (%s) differs from the copy bound %s" % (K[0], K[1], K2), fn=fw.path,
                   construct="K-equals-K2", where=fw.where(K[2]))
            ctx.ob("C04.split-threshold", K[0] is not None and K[0] - H == U24_MAX,
                   "a full packet carries %s payload bytes (pending buffer limit %s minus %d header bytes); the protocol requires 0xFFFFFF = 16777215 for continuation" % (
                       (K[0] - H) if K[0] is not None else None, K[0], H),
                   fn=fw.path, construct="max-payload", where=fw.where(K[2]), sample={"rule": "split-threshold", "K": K[0], "H": H, "payload": (K[0] or 0) - H})
            # what is copied is the first `count` bytes of buf, count = min(buf.len(), K2 - len) — per Ok path
            from engines import cursor
            ncopy = 0
            for p in enumerate_paths(fw):
                if p.end != "return" or classify_return(p) == "err":
                    continue
                c = counts.get(tuple(p.blocks))
                for pos, bbx, t2 in p.calls():
                    if re.search(r"Extend<.*>>::extend$|extend_from_slice$", cname(t2["func"])) and T.is_field(T.peel(p.arg(pos, 0)), "to_write"):
                        ncopy += 1
                        src = p.arg(pos, 1)
                        base, off, ln = cursor.locate(src)
                        okc = c is not None and T.is_param(T.peel(base), 2) and off == Aff(0) and ln is not None and ln == T.affine(c[0])
                        ctx.ob("C04.split-threshold", okc, "bytes appended to the pending buffer are %s (need the first min(buf.len(), K - len) bytes of buf, the count that is returned)" % term_str(src)[:100],
                               fn=fw.path, construct="copy", where=fw.where(bbx))
            ctx.floor("C04.split-threshold", "appends on Ok paths of write", ncopy, 2)

        # ---- write progress ----------------------------------------------------------------------
        n = 0
        for p in enumerate_paths(fw):
            if p.end != "return" or classify_return(p) == "err":
                continue
            n += 1
            full = None
            ext_pos = [pos for pos, bbx, t2 in p.calls() if re.search(r"Extend<.*>>::extend$|extend_from_slice$", cname(t2["func"]))]
            if K is not None:
                for i, blk in enumerate(p.blocks[:-1]):
                    if blk == K[2]:
                        t2 = K[3]
                        truth = p.blocks[i + 1] != (t2["tgts"][t2["vals"].index("0")] if "0" in t2["vals"] else None)
                        full = truth if K[1] in ("Eq", "Ge") else not truth
                        # the fullness test must look at the length *after* the bytes were appended
                        v = p.origin_op(t2["discr"], i)
                        lc = T.find(v, lambda x: T.is_call(x, r"Vec::<T, A>::len$"))
                        site = lc[3][1] if lc is not None and len(lc) > 3 and isinstance(lc[3], tuple) else None
                        if not ext_pos or site not in p.blocks or p.blocks.index(site) < ext_pos[-1]:
                            full = None
            ended = any(cname(t2["func"]) in (ft.path,) or ft.path in prog.reachable_fns([cname(t2["func"])]) for pos, bbx, t2 in p.calls() if "indirect" not in t2["func"] and cname(t2["func"]) in prog.bodies)
            ctx.ob("C04.write-progress", full is False or (full is True and ended), "an Ok path of write leaves a full pending buffer without ending the packet (full=%s, ended=%s)" % (full, ended),
                   fn=fw.path, construct="post-condition", where=fw.where(p.blocks[-1]))
            rv = p.return_value()
            okr = rv[0] == "agg" and rv[3] == "Ok" and (T.is_call(T.peel(rv[4][0]), r"(cmp::min|Ord::min|Ord>::min)$") or counts.get(tuple(p.blocks)) is not None)
            ctx.ob("C04.write-progress", okr, "write must report the number of bytes it actually buffered (returns %s)" % term_str(rv)[:80], fn=fw.path, construct="returned-count", nontrivial=False)
        ctx.floor("C04.write-progress", "Ok paths of write", n, 2)
        # nobody hands bytes to the framer with a bare `write` (which may accept only part of them and whose count would be dropped)
        for fn_ in prog.non_test_fns():
            for bbx, t2 in fn_.calls():
                f2 = t2["func"]
                if "indirect" in f2:
                    continue
                if f2["path"] == "std::io::Write::write" and "packet::PacketConn<" in (t2.get("arg_tys") or [""])[0]:
                    ctx.ob("C04.write-progress", False, "%s calls Write::write on the connection directly: bytes beyond the current packet boundary are silently dropped (use write_all)" % fn_.path,
                           fn=fn_.path, construct="partial-write", where=fn_.where(bbx))
                elif f2["path"] == "std::io::Write::write" and f2.get("rpath") is None and not re.search(r"^<.* as std::io::Write>::(write|write_all|write_vectored)$", fn_.path):
                    # a bare `write` on a *generic* writer (`W: Write`): the value encoders and packet writers are generic and are
                    # instantiated with the connection, whose write accepts only what fits into the current packet.  Only an
                    # `impl Write` may forward to an inner write (its own caller loops).
                    # ... unless the count it returns is looked at (a hand-written write loop): the count flows into a comparison or a branch
                    # somewhere in the function (directly or through a running total)
                    used = False
                    for bby in range(fn_.n):
                        for iy, sy in enumerate(fn_.blocks[bby]["stmts"]):
                            # (adding the count to a running total that is only *returned* is not looking at it: `Ok(head + w.write(bytes)?)`)
                            if sy["k"] == "assign" and sy["rv"]["k"] == "bin" and sy["rv"]["op"] in ("Lt", "Le", "Gt", "Ge", "Eq", "Ne"):
                                o_ = fn_.origin_rvalue(sy["rv"], bby, iy, 0)
                                if T.find(o_, lambda x: isinstance(x, tuple) and x[0] == "okpayload" and T.find(x, lambda y: isinstance(y, tuple) and y[0] == "call" and y[1].endswith("io::Write::write") and y[3:] == (("site", bbx),) or (isinstance(y, tuple) and y[0] == "call" and y[1].endswith("io::Write::write") and len(y) > 3 and y[3] == bbx)) is not None) is not None:
                                    used = True
                        ty = fn_.term(bby)
                        if ty["k"] == "switch":
                            o_ = fn_.origin_op(ty["discr"], bby, len(fn_.blocks[bby]["stmts"]))
                            # (the discriminant of a Result/Option that merely *carries* the count — `r?`, `.map(|_| ())` — is not a look at it)
                            if not (isinstance(o_, tuple) and o_ and o_[0] == "discr") and \
                                    T.find(o_, lambda x: isinstance(x, tuple) and x[0] == "okpayload" and T.find(x, lambda y: isinstance(y, tuple) and y[0] == "call" and y[1].endswith("io::Write::write")) is not None) is not None:
                                used = True
                    if not used:
                        ctx.ob("C04.write-progress", False, "%s calls Write::write on a generic writer and drops the count it returns: with the connection behind it, bytes beyond the current packet boundary are silently lost (use write_all)" % fn_.path,
                               fn=fn_.path, construct="partial-write-generic", where=fn_.where(bbx))

        # ---- a value is part of one message -----------------------------------------------------------------
        # the connection's flush (and end_packet) closes the packet under construction; a value encoder works in the middle of a row, so
        # a flush there cuts the row into two messages.  Encoders only append bytes.
        ctx.rule("C04.no-boundary-in-value", "value encoders never flush or end a packet on the writer they are given")
        from engines import wire as _wire
        encs = prog.find(r" as value::encode::ToMysqlValue>::to_mysql_(text|bin)$")
        for fn_ in encs:
            cuts = [(bbx, cname(tx["func"])) for bbx, tx in fn_.calls() if "indirect" not in tx["func"] and
                    (_wire.RX_FLUSH.search(cname(tx["func"])) or _wire.RX_FLUSH.search(tx["func"]["path"]) or _wire.RX_END_PACKET.search(cname(tx["func"])))]
            ctx.ob("C04.no-boundary-in-value", not cuts, "%s calls %s on its writer: with the connection behind it the row under construction is cut into two messages"
                   % (fn_.path[:80], cuts[0][1].split("::")[-1] if cuts else ""), fn=fn_.path, construct="boundary-in-value", where=fn_.where(cuts[0][0]) if cuts else None, nontrivial=False)
        ctx.floor("C04.no-boundary-in-value", "value encoder implementations (%s)" % cfg, len(encs), 44)

        # ---- what the library itself tells clients about message sizes ---------------------------------------
        # "a row or value larger than 16 MiB arrives intact" also needs the client to accept it: conformant clients ask
        # `SELECT @@max_allowed_packet` at connect (the library answers that itself) and refuse any larger incoming message.
        # Reference through time: the answer of the pinned tree is 64 MiB; a smaller one shrinks what can arrive.
        ctx.rule("C04.advertised-limit", "the library's own answer to SELECT @@max_allowed_packet is not below the pinned tree's 64 MiB")
        frun = roles.f_run
        lim = []
        for bbx, t2 in frun.calls():
            if cname(t2["func"]).endswith("iter::once") or t2["func"]["path"].endswith("iter::once"):
                a = frun.arg_origin(bbx, 0)
                v = T.const_int(a)
                if v is not None:
                    lim.append((v, bbx))
        for v, bbx in lim:
            ctx.ob("C04.advertised-limit", v >= 67108864, "the built-in answer to `SELECT @@max_allowed_packet` is %d: clients refuse rows above it (the pinned tree advertises 67108864)" % v,
                   fn=frun.path, construct="max-allowed-packet", where=frun.where(bbx), sample={"rule": "advertised-limit", "value": v})
        ctx.floor("C04.advertised-limit", "constant single-cell answers of the command loop", len(lim), 1)

        # ---- empty terminator --------------------------------------------------------------------
        wbb = ws[0][1]
        flag_fields = set()
        n_skip = n_emit = 0
        for p in enumerate_paths(ft):
            if p.end != "return" or classify_return(p) == "err":
                continue
            emits = wbb in p.blocks
            conds = []
            for i, blk in enumerate(p.blocks[:-1]):
                t2 = ft.term(blk)
                if t2["k"] == "switch" and "0" in t2["vals"]:
                    v = ft.origin_op(t2["discr"], blk, len(ft.blocks[blk]["stmts"]))
                    truth = p.blocks[i + 1] != t2["tgts"][t2["vals"].index("0")]
                    conds.append((v, truth))
            if not emits:
                n_skip += 1
                payload_zero = False
                flag_clear = False
                for v, truth in conds:
                    if isinstance(v, tuple) and v[0] == "bin" and v[1] in ("Ne", "Eq") and T.is_const_int(v[3], 0):
                        e = Bounds(ft, p.blocks[0], prog.ptr_bits).aff(v[2])
                        if e == Aff(-(H or 0), {("len", ("path", "self", "to_write")): 1}):
                            payload_zero = (not truth) if v[1] == "Ne" else truth
                    fv = T.peel(v)
                    if isinstance(fv, tuple) and fv[0] == "field" and T.is_param(fv[1]) and not truth:
                        flag_clear = True
                        flag_fields.add(fv[2])
                ctx.ob("C04.empty-terminator", payload_zero and flag_clear,
                       "packet emission is skipped on a path with payload==0: %s and `previous packet was full` flag clear: %s — a message ending exactly on a full packet would not be terminated" % (payload_zero, flag_clear),
                       fn=ft.path, construct="skip-condition", where=ft.where(p.blocks[-1]), sample={"rule": "empty-terminator", "payload_zero": payload_zero, "flag_clear": flag_clear})
        for p in enumerate_paths(ft):
            if p.end != "return" or classify_return(p) == "err" or wbb not in p.blocks:
                continue
            n_emit += 1
            sets = []
            for pos, blk in enumerate(p.blocks):
                for i, s in enumerate(ft.blocks[blk]["stmts"]):
                    if s["k"] == "assign" and place_fields(s["lhs"]) and str(place_fields(s["lhs"])[-1]) in {str(x) for x in flag_fields}:
                        sets.append(p.origin_rvalue(s["rv"], pos, i, 0))
            ok = False
            if len(sets) == 1:
                v = sets[0]
                if isinstance(v, tuple) and v[0] == "bin" and v[1] == "Eq" and const_of(v[3]) == U24_MAX:
                    e = Bounds(ft, p.blocks[0], prog.ptr_bits).aff(v[2])
                    ok = e == Aff(-(H or 0), {("len", ("path", "self", "to_write")): 1})
            ctx.ob("C04.empty-terminator", ok, "an emitting path must record whether the packet was a full one (flag := payload == 0xFFFFFF); found %s" % [term_str(x)[:60] for x in sets],
                   fn=ft.path, construct="flag-update", where=ft.where(p.blocks[-1]))
        ctx.floor("C04.empty-terminator", "skipping paths of the terminator", n_skip, 1)
        ctx.floor("C04.empty-terminator", "emitting paths of the terminator", n_emit, 1)
