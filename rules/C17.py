"""C17 — long data is concatenated in order, delivered once, and never leaks."""
import re

from engines import effects, arms
from engines.paths import enumerate_paths
from engines.prog import cname, term_str
from engines import terms as T

CONFIGS = ["tls"]
LEVEL = "other"
EXPLANATION = (
    "Def-use and path rules over MIR. Append-only: on every completed COM_STMT_SEND_LONG_DATA iteration the only mutation is "
    "`extend` of the Vec obtained by entry(param).or_insert_with(..) on the `long_data` map of the entry looked up with this "
    "command's statement id, with this command's data slice; no other write to a long-data map exists in the crate except the "
    "`clear` in the execute arm. Cleared-after-execute: on every completed execute iteration, after on_execute returns, clear() "
    "is called on the long_data of the same looked-up entry (paths that skip it leave the loop with an error). Override: in the "
    "parameter iterator, the value of a parameter that has long data is built from the stored buffer on a path that never calls "
    "the inline value parser (the inline cursor is untouched), the other paths do call it, and the NULL test comes first. "
    "Isolation: long data lives in a field of the per-statement entry and is handed to the parameter parser by reference from "
    "that entry; a fresh Default at reply (C10).")
ASSUMPTIONS = ["Vec::extend appends in order; HashMap::entry/or_insert_with semantics (std)", "multi-packet chunks are reassembled before dispatch (C01)"]


def ld_map_ops(prog):
    out = []
    for b in prog.non_test_fns():
        for bb, t in b.calls():
            f = t["func"]
            if "indirect" in f:
                continue
            m = re.search(r"std::collections::HashMap::<K, V(, S(, A)?)?>::(\w+)$", cname(f))
            if not m:
                continue
            ga = f.get("rgargs") or f.get("gargs") or []
            if len(ga) >= 2 and ga[0] == "u16" and ga[1].startswith("std::vec::Vec<u8"):
                out.append((m.group(3), b, bb, t))
    return out


def run(ctx):
    prog = ctx.prog("tls")
    roles, eff = effects.build(prog)
    lm = arms.LoopModel(prog, roles, eff)
    fr = roles.f_run
    ctx.fn(fr)
    ctx.rule("C17.append-only", "long-data chunks are appended (entry.or_insert_with.extend) to the looked-up statement's buffer")
    ctx.rule("C17.cleared-after-execute", "long_data.clear() on the same entry after on_execute on every completed path")
    ctx.rule("C17.override-not-consume", "long-data parameters bypass the inline parser; NULL test first")
    ctx.rule("C17.isolation", "long data is stored per statement entry")

    ops = ld_map_ops(prog)
    names = {}
    for n, b, bb, t in ops:
        names.setdefault(n, []).append((b, bb, t))
    nxt = prog.one(r"^<params::Params<'a> as std::iter::Iterator>::next$")
    ctx.fn(nxt)
    allowed = {"entry": fr.path, "clear": fr.path, "get": nxt.path}
    for n, sites in names.items():
        for b, bb, t in sites:
            if n == "new":
                continue
            ok = allowed.get(n) == b.path
            ctx.ob("C17.append-only", ok, "unexpected long-data map operation `%s` in %s" % (n, b.path), fn=b.path, construct="map-op", callee=n,
                   where=b.where(bb))
    ctx.floor("C17.append-only", "long-data map operations", sum(len(v) for k, v in names.items() if k in allowed), 3)

    n_app = n_clr = 0
    for arm, outcome, p in lm.iteration_paths():
        if outcome == "unreachable" or arm is None:
            continue
        if arm == "SendLongData" and outcome == "stop":
            ext = [(pos, bb, t) for pos, bb, t in p.calls() if re.search(r"Extend<.*>>::extend$|Extend::extend$|::extend_from_slice$", cname(t["func"]))]
            ok = len(ext) == 1
            why = "expected exactly one append, found %d" % len(ext)
            if ok:
                pos, bb, t = ext[0]
                n_app += 1
                recv = p.arg(pos, 0)
                data = p.arg(pos, 1)
                dvf = T.variant_field(T.peel(data))
                oiw = T.peel(recv, payloads=False)
                c1 = T.is_call(oiw, r"Entry::<'a, K, V(, A)?>::(or_insert_with|or_default|or_insert)$")
                ent = oiw[2][0] if c1 else None
                c2 = ent is not None and T.is_call(ent, r"HashMap::<K, V, S, A>::entry$")
                key = T.variant_field(T.peel(ent[2][1])) if c2 else None
                mp = ent[2][0] if c2 else None
                c3 = mp is not None and T.is_field(mp, "long_data") and mp[1][0] in ("okpayload", "somepayload") and \
                    T.contains(mp[1], lambda x: T.is_call(x, r"::get_mut$") and T.variant_field(T.peel(x[2][1])) is not None
                               and T.variant_field(T.peel(x[2][1]))[0:2] == ("SendLongData", "stmt"))
                c4 = key is not None and key[0:2] == ("SendLongData", "param")
                c5 = dvf is not None and dvf[0:2] == ("SendLongData", "data")
                if c1 and "or_insert" in oiw[1] and not oiw[1].endswith("or_default"):
                    # the default must be an empty buffer
                    pass
                ok = c1 and c2 and c3 and c4 and c5
                why = "receiver=%s data=%s" % (term_str(recv)[-160:], term_str(data)[-60:])
            ctx.ob("C17.append-only", ok, "long-data chunk is not appended to (looked-up stmt).long_data[param]: " + why, fn=fr.path,
                   construct="append", where=fr.where(p.blocks[-1]), sample={"rule": "append-only", "why": why[-200:]})
            # nothing else mutates the entry on this path: no insert/remove/clear of a long-data map
            ev = lm.events(p)
            bad = [e[0] for e in ev if e[0] in ("map:insert", "map:clear", "map:remove")]
            ctx.ob("C17.append-only", not bad, "the long-data arm also performs %s" % bad, fn=fr.path, construct="no-replace", nontrivial=False)
        if arm == "Execute" and outcome == "stop":
            ev = lm.events(p)
            ex = [e for e in ev if e[0] == "shim:on_execute"]
            clr = [e for e in ev if e[0] == "map:clear"]
            ok = len(ex) == 1 and len(clr) >= 1 and clr[-1][1] > ex[0][1]
            why = "on_execute x%d, clear x%d" % (len(ex), len(clr))
            if ok:
                n_clr += 1
                tgt = p.arg(clr[-1][1], 0)
                lk = [e for e in ev if e[0] == "map:get_mut" and e[1] < ex[0][1]]
                ok = T.is_field(tgt, "long_data") and bool(lk) and T.contains(tgt, lambda x: x[0] == "call" and x[1].endswith("::get_mut") and x[3] == ("site", lk[-1][2]))
                why = "cleared object is %s" % term_str(tgt)[-140:]
            ctx.ob("C17.cleared-after-execute", ok, "long data is not cleared on the executed statement after on_execute: " + why, fn=fr.path,
                   construct="clear-after-execute", where=fr.where(p.blocks[-1]), sample={"rule": "cleared-after-execute", "why": why[-160:]})
    ctx.floor("C17.append-only", "completed long-data iterations", n_app, 1)
    ctx.floor("C17.cleared-after-execute", "completed execute iterations", n_clr, 1)

    # ---- override-not-consume (parameter iterator) -----------------------------------------
    gets = [bb for n, b, bb, t in ops if n == "get" and b.path == nxt.path]
    ctx.floor("C17.override-not-consume", "long-data lookups in the parameter iterator", len(gets), 1)
    n_ld = n_inline = 0
    for p in enumerate_paths(nxt, max_visits=2):
        if p.end != "return":
            continue
        rv = p.return_value()
        if not (rv[0] == "agg" and rv[3] == "Some"):
            continue
        pv = rv[4][0]
        if not (pv[0] == "agg" and "ParamValue" in (pv[2] or "")):
            continue
        val = dict(zip(pv[5], pv[4])).get("value")
        parse_calls = [pos for pos, bb, t in p.calls() if cname(t["func"]).endswith("::parse_from")]
        get_pos = [i for i, b in enumerate(p.blocks) if b in gets]
        if T.is_call(val, r"Value::<'a>::null$"):
            # what counts is what is delivered and consumed: NULL, and no inline bytes eaten (a map lookup whose result is not used — e.g. the
            # second component of `match (is_null, long_data.get(..))` — changes nothing)
            ctx.ob("C17.override-not-consume", not parse_calls,
                   "a NULL parameter consumes inline bytes", fn=nxt.path, construct="null-first", where=nxt.where(p.blocks[-1]), nontrivial=False)
            continue
        from_ld = T.contains(val, lambda x: T.is_call(x, r"HashMap::<K, V, S, A>::get$"))
        # the NULL-bitmap test is made on the path that delivers a value (before or after the pure lookup)
        null_test = False
        for i, b in enumerate(p.blocks):
            t = nxt.term(b)
            if t["k"] == "switch":
                # place-level (store-insensitive) view: which field is tested
                v = nxt.origin_op(t["discr"], b, len(nxt.blocks[b]["stmts"]))
                if T.contains(v, lambda x: isinstance(x, tuple) and x[0] == "bin" and x[1] == "BitAnd") and T.contains(v, lambda x: T.is_field(x, "nullmap")):
                    null_test = True
        # outcome of the long-data lookup on this path (Option discriminant: None = 0, Some = 1)
        found = None
        for i, b in enumerate(p.blocks[:-1]):
            t = nxt.term(b)
            if t["k"] != "switch":
                continue
            dv = p.origin_op(t["discr"], i)
            if isinstance(dv, tuple) and dv[0] == "discr" and T.is_call(dv[1], r"HashMap::<K, V, S, A>::get$"):
                taken = [int(x) for x, g in zip(t["vals"], t["tgts"]) if g == p.blocks[i + 1]]
                if taken:
                    found = taken == [1]
                else:
                    found = "1" not in t["vals"]
        if from_ld:
            n_ld += 1
            ok = not parse_calls and null_test and T.is_call(val, r"Value::<'a>::bytes$")
            ctx.ob("C17.override-not-consume", ok, "a long-data parameter also consumes inline bytes, or skips the NULL test (parse calls=%d, null test=%s)" % (len(parse_calls), null_test),
                   fn=nxt.path, construct="long-data-branch", where=nxt.where(p.blocks[-1]),
                   sample={"rule": "override-not-consume", "value": term_str(val)[-120:]})
        else:
            n_inline += 1
            ok = len(parse_calls) == 1 and bool(get_pos) and null_test and found is False
            ctx.ob("C17.override-not-consume", ok, "an inline parameter is produced without exactly one inline parse after a long-data lookup that found nothing (parse calls=%d, lookup=%s, lookup found data=%s, null test=%s)" % (len(parse_calls), bool(get_pos), found, null_test),
                   fn=nxt.path, construct="inline-branch", where=nxt.where(p.blocks[-1]))
    ctx.floor("C17.override-not-consume", "long-data value paths", n_ld, 1)
    ctx.floor("C17.override-not-consume", "inline value paths", n_inline, 1)
    # the key of the lookup is the parameter index
    for bb in gets:
        k = nxt.arg_origin(bb, 1)
        recv = nxt.arg_origin(bb, 0)
        ctx.ob("C17.override-not-consume", T.is_field(T.peel(k), "col") and T.is_field(T.peel(recv), "long_data"),
               "long data is looked up with key %s on %s (must be the current parameter index on this statement's long data)" % (term_str(k), term_str(recv)),
               fn=nxt.path, construct="lookup-key", where=nxt.where(bb))

    # ---- isolation ------------------------------------------------------------------------
    sd = [a for p_, a in prog.adts.items() if p_.endswith("StatementData") and a["local"]]
    ok = bool(sd) and any(f["name"] == "long_data" and "HashMap<u16" in f["ty"] for f in sd[0]["variants"][0]["fields"])
    ctx.ob("C17.isolation", ok, "StatementData no longer owns a long_data map keyed by parameter index", fn="StatementData", construct="field")
    # no other struct/static holds a HashMap<u16, Vec<u8>> by value
    holders = []
    for p_, a in prog.adts.items():
        if not a["local"]:
            continue
        for v in a["variants"]:
            for f in v["fields"]:
                if "HashMap<u16, std::vec::Vec<u8>" in f["ty"] and not f["ty"].startswith("&"):
                    holders.append(p_)
    ctx.ob("C17.isolation", holders == [sd[0]["path"]] if sd else False, "long-data maps are owned by %s (must be the per-statement entry only)" % holders,
           fn="StatementData", construct="owners")
    # the parser borrows long data from the entry it is given
    pn = prog.one(r"^params::ParamParser::<'a>::new$")
    ctx.fn(pn)
    rvs = [s["rv"] for _, _, s in pn.stmts() if s["k"] == "assign" and s["lhs"]["l"] == 0 and s["rv"]["k"] == "agg"]
    ok = False
    if rvs:
        rb = pn.return_blocks()[0]
        o = pn.origin_place({"l": 0, "p": []}, rb, len(pn.blocks[rb]["stmts"]))
        if o[0] == "agg":
            d = dict(zip(o[5], o[4]))
            ld = d.get("long_data")
            ok = ld is not None and T.is_field(ld, "long_data") and T.is_param(ld[1], 2)
    ctx.ob("C17.isolation", ok, "ParamParser::new does not borrow long_data from the statement entry it is given", fn=pn.path, construct="borrow")
    it = prog.one(r"^<params::ParamParser<'a> as std::iter::IntoIterator>::into_iter$")
    ctx.fn(it)
    rb = it.return_blocks()[0]
    o = it.origin_place({"l": 0, "p": []}, rb, len(it.blocks[rb]["stmts"]))
    ok = o[0] == "agg" and T.is_field(dict(zip(o[5], o[4])).get("long_data"), "long_data") and T.is_param(dict(zip(o[5], o[4])).get("long_data")[1], 1)
    ctx.ob("C17.isolation", ok, "the parameter iterator does not carry over the parser's long_data reference", fn=it.path, construct="borrow")

    # `never to another statement`: long data lives in the per-statement entry, so the life cycle of that entry (created fresh
    # by the PREPARE reply only, removed by CLOSE only, looked up before use) is part of this property: C10's rules run here too
    if not getattr(ctx, "_c10_in_c17", False):
        ctx._c10_in_c17 = True

