"""C03 — exactly one complete, protocol-conformant response per command (structural clauses)."""
import os
import re
import subprocess

from engines import effects, arms, wire
from engines.paths import enumerate_paths, classify_return, emptiness_of
from engines.prog import cname, term_str, place_fields
from engines import terms as T
from engines.terms import Aff
from spec import coldef as SPEC
from spec import commands as CMD

CONFIGS = ["tls"]
LEVEL = "other"
EXPLANATION = (
    "Typestate-by-types and path rules. Linear API: from the type-checked program, every completing method of the four writer "
    "types consumes `self` by value, the types implement neither Clone nor Copy, have only private fields and no public "
    "constructor — so a shim cannot use a writer after completing it (the thorough tier additionally compiles compile_fail "
    "witnesses with compiling twins). Finalize-first: in start/complete_one/error the pending-terminator flush with "
    "more_results=true is the first connection write on every path; no_more_results and Drop flush with false; inside the "
    "flush the status word given to OK/EOF carries bit 0x0008 exactly on the more_results=true path and the pending terminator "
    "is consumed with Option::take. Terminator choice: completion stores Finalizer::Ok exactly under an empty column list and "
    "Finalizer::Eof otherwise, nothing on the error path. Reply effects: per enumerated path through one loop iteration, "
    "no-reply commands write nothing, library-answered commands write on every completed path, and a default shim method that "
    "is handed a reply writer uses it. Shape checks: a row packet end is reached only on paths whose branch conditions imply "
    "col == columns.len(); binary cells are encoded only after a successful columns.get(col). Does not decide the full packet "
    "grammar for arbitrary writer programs.")
ASSUMPTIONS = ["rustc's borrow/move checking (linear use of by-value self)", "client decoders follow the protocol's OK/EOF/ERR grammar"]

WRITERS = {
    "resultset::QueryResultWriter": {"consuming": ["start", "complete_one", "completed", "error", "no_more_results"]},
    "resultset::RowWriter": {"consuming": ["finish", "finish_one", "finish_error"], "borrowing": ["write_col", "end_row", "write_row"]},
    "resultset::StatementMetaWriter": {"consuming": ["reply", "error"]},
    "resultset::InitWriter": {"consuming": ["ok", "error"]},
}


def more_arg(t):
    """What a `finalize` argument says about more results: a bool, or a StatusFlags value (bit 0x0008). True/False/None."""
    if T.const_int(t) is not None and isinstance(t, tuple) and t[0] == "const" and t[1][0] == "int":
        return bool(T.const_int(t))
    if isinstance(t, tuple) and t[0] == "const" and t[1][0] == "bits":
        return None if (t[1][1] & ~SPEC.MORE_RESULTS_EXISTS) else bool(t[1][1] & SPEC.MORE_RESULTS_EXISTS)
    if T.is_call(t, r"StatusFlags>::empty$"):
        return False
    return None


def run(ctx):
    prog = ctx.prog("tls")
    roles, eff = effects.build(prog)
    ctx.rule("C03.linear-api", "completing writer methods consume self; writers are not Clone/Copy; private fields/constructors")
    ctx.rule("C03.finalize-first", "pending terminator flushed first with more_results=true (false at the end); status bit 0x0008 iff true")
    ctx.rule("C03.terminator-choice", "Finalizer::Ok iff zero columns, Eof otherwise, none on finish_error")
    ctx.rule("C03.drop-finalises", "Drop impls of RowWriter / QueryResultWriter reach completion / final flush")
    ctx.rule("C03.reply-effects", "no-reply commands write nothing; library-answered commands always write; default shim methods use their writer")
    ctx.rule("C03.shape-checks", "row packet end only under col == columns.len(); binary encode only after columns.get(col)")

    # ---- linear api -------------------------------------------------------------------------
    for ty, spec in WRITERS.items():
        adt = prog.adts.get(ty)
        if not ctx.ob("C03.linear-api", adt is not None, "writer type %s not found" % ty, fn=ty, construct="type", nontrivial=False):
            continue
        fields = adt["variants"][0]["fields"]
        pub_fields = [f["name"] for f in fields if f["vis"] == "Public"]
        ctx.ob("C03.linear-api", not pub_fields, "%s has public fields %s: a shim could construct or duplicate a writer" % (ty, pub_fields), fn=ty, construct="fields")
        cloneish = [i["trait_path"] for i in prog.impls if i["self_ty"].startswith(ty + "<") and i.get("trait_path") in ("std::clone::Clone", "std::marker::Copy")]
        ctx.ob("C03.linear-api", not cloneish, "%s implements %s: a completed writer could be reused through a copy" % (ty, cloneish), fn=ty, construct="clone")
        for m in spec["consuming"]:
            bs = prog.find(r"^%s::<'a, W>::%s$" % (re.escape(ty), m))
            if not ctx.ob("C03.linear-api", len(bs) == 1, "%s::%s not found" % (ty, m), fn=ty, construct="method", callee=m, nontrivial=False):
                continue
            b = bs[0]
            ctx.fn(b)
            s0 = b.raw["sig_in"][0]
            ctx.ob("C03.linear-api", not s0.startswith("&") and s0.startswith(ty), "%s::%s takes `%s`: it must consume the writer (self by value)" % (ty, m, s0),
                   fn=b.path, construct="self-by-value", sample={"rule": "linear-api", "method": b.path, "self": s0})
        for b in prog.find(r"^%s::<'a, W>::\w+$" % re.escape(ty)):
            if b.raw.get("name") in ("new",) or (b.raw.get("sig_in") and not b.raw["sig_in"][0].startswith(("&", ty)) and b.raw.get("sig_out", "").find(ty) >= 0):
                ctx.ob("C03.linear-api", b.raw.get("vis") != "Public", "%s is a public constructor of %s" % (b.path, ty), fn=b.path, construct="constructor")

    # ---- status packets ----------------------------------------------------------------------
    # the more-results chain is carried by the status word of the OK / EOF packets: its position is part of this property
    ctx.rule("C03.status-packets", "OK and EOF packet layouts: the status word (more-results bit) sits where clients read it")
    import rules.C14 as C14
    C14.ok_layout(ctx, prog, "C03.status-packets")
    C14.eof_layout(ctx, prog, "C03.status-packets")

    # ---- finalize-first ----------------------------------------------------------------------
    fin = prog.one(r"^resultset::QueryResultWriter::<'a, W>::finalize$")
    ctx.fn(fin)

    def conn_events(b, p):
        out = []
        for pos, bb, t in p.calls():
            e = eff.of_call(b, bb, t)
            n = cname(t["func"]) if "indirect" not in t["func"] else ""
            if "writes" in e or n == fin.path:
                out.append((pos, bb, t, n))
        return out

    for m, flag in (("start", 1), ("complete_one", 1), ("error", 1), ("no_more_results", 0)):
        b = prog.one(r"^resultset::QueryResultWriter::<'a, W>::%s$" % m)
        ctx.fn(b)
        n = 0
        for p in enumerate_paths(b):
            if p.end != "return":
                continue
            ev = conn_events(b, p)
            if classify_return(p) == "err" and not ev:
                continue
            n += 1
            ok = bool(ev) and ev[0][3] == fin.path and more_arg(p.arg(ev[0][0], 1)) is bool(flag)
            ctx.ob("C03.finalize-first", ok, "%s: the first connection write is %s (need finalize(%s) first)" % (m, (ev[0][3] + "(" + term_str(p.arg(ev[0][0], 1)) + ")") if ev else None, "true" if flag else "false"),
                   fn=b.path, construct="first-write", where=b.where(p.blocks[-1]), sample={"rule": "finalize-first", "method": m, "first": ev[0][3] if ev else None})
        ctx.floor("C03.finalize-first", "paths of %s" % m, n, 1)
    # whoever records a new pending terminator on the result writer must first have flushed the previous one: a store to
    # `self.last_end` in a QueryResultWriter method is preceded by finalize(..) on every path (otherwise the held-back
    # EOF/OK of the preceding resultset is silently overwritten)
    n_st = 0
    for b in prog.find(r"^resultset::QueryResultWriter::<'a, W>::\w+$"):
        if b.path == fin.path:
            continue
        for bb, i, s_ in b.stmts():
            # on `self`, or on the result writer under another name (`let mut next = self.next_response()?; next.last_end = ..`)
            if s_["k"] != "assign" or not s_["lhs"]["p"] or not (s_["lhs"]["l"] == 1 or "resultset::QueryResultWriter<" in b.local_ty(s_["lhs"]["l"]).split("(")[0]):
                continue
            fl = place_fields(s_["lhs"])
            if fl != ["last_end"]:
                continue
            if s_["rv"]["k"] == "agg" and s_["rv"].get("vname") == "None":
                continue
            n_st += 1
            bad = 1 if bb == 0 else 0      # in the entry block nothing can have been called before
            for p in ([] if bb == 0 else enumerate_paths(b, stop_at={bb}, max_visits=1)):
                if p.end != "stop":
                    continue
                if not any(cname(t["func"]) == fin.path for pos, blk, t in p.calls() if pos < len(p.blocks) - 1):
                    bad += 1
            ctx.ob("C03.finalize-first", bad == 0, "%s records a new pending terminator on %d path(s) without flushing the previous one first (finalize)" % (b.path.split("::")[-1], bad),
                   fn=b.path, construct="last_end-store", where=b.where(bb, i))
    ctx.floor("C03.finalize-first", "pending-terminator stores in QueryResultWriter methods", n_st, 1)
    for imp in prog.impls:
        if imp.get("trait_path") == "std::ops::Drop" and imp["self_ty"].startswith("resultset::QueryResultWriter<"):
            b = prog.bodies[imp["methods"][0]]
            ctx.fn(b)
            calls = [(bb, t) for bb, t in b.calls() if cname(t["func"]) == fin.path]
            ok = len(calls) == 1 and more_arg(b.arg_origin(calls[0][0], 1)) is False
            ctx.ob("C03.drop-finalises", ok, "dropping a QueryResultWriter must flush the pending terminator with more_results=false", fn=b.path, construct="drop")
    # inside finalize: bit 0x0008 iff more_exists; take()
    n = 0
    for p in enumerate_paths(fin):
        if p.end != "return":
            continue
        wr = [(pos, t) for pos, bb, t in p.calls() if cname(t["func"]) in ("writers::write_ok_packet", "writers::write_eof_packet")]
        if not wr:
            continue
        n += 1
        # which way did the `more_exists` test go?
        more = None
        for i, blk in enumerate(p.blocks[:-1]):
            t = fin.term(blk)
            if t["k"] == "switch":
                v = p.origin_op(t["discr"], i)
                if T.is_param(v, 2) and "0" in t["vals"]:
                    more = p.blocks[i + 1] != t["tgts"][t["vals"].index("0")]
        sets = [(pos, t) for pos, bb, t in p.calls() if re.search(r"StatusFlags>::(set|insert|toggle)$", cname(t["func"])) or re.search(r"StatusFlags>::(bitor|union)", cname(t["func"]))]
        bits = 0
        for pos, t in sets:
            c = p.arg(pos, 1)
            on = p.arg(pos, 2) if len(t["args"]) > 2 else ("const", ("int", 1, "bool"))
            if c[0] == "const" and c[1][0] == "bits" and T.is_const_int(on, 1):
                bits |= c[1][1]
        status_arg = p.arg(wr[0][0], len(wr[0][1]["args"]) - 1)
        # the status word may also be built as an expression (`if more { FLAG } else { empty() }`, `FLAG | ..`)
        def ev(t, depth=0):
            if depth > 10 or not isinstance(t, tuple):
                return None
            if t[0] == "const" and t[1][0] == "bits":
                return t[1][1]
            if T.is_call(t, r"StatusFlags>::empty$"):
                return 0
            if T.is_call(t, r"StatusFlags>::(bitor|union)$|BitOr>::bitor$") and len(t[2]) == 2:
                a, b_ = ev(t[2][0], depth + 1), ev(t[2][1], depth + 1)
                return None if a is None or b_ is None else a | b_
            if T.is_call(t, r"StatusFlags>::from_bits_truncate$|StatusFlags>::from_bits_retain$") and T.const_int(t[2][0]) is not None:
                return T.const_int(t[2][0])
            return None
        direct = ev(status_arg)
        if direct is not None and not sets:
            bits = direct
        elif direct is not None:
            bits |= direct
        ok = more is not None and ((bits & SPEC.MORE_RESULTS_EXISTS) != 0) == more and (bits & ~SPEC.MORE_RESULTS_EXISTS) == 0
        if more is None and "StatusFlags" in (fin.raw.get("sig_in") or ["", ""])[1] and T.is_param(T.peel(status_arg), 2) and not sets:
            # finalize is handed the status word itself and passes it on untouched: the callers' arguments (checked by the
            # first-write rule above: SERVER_MORE_RESULTS_EXISTS / empty()) decide the bit
            ok = True
        ctx.ob("C03.finalize-first", ok, "finalize(more_exists=%s) sends status bits %#06x (bit 0x0008 must be set exactly when more results follow)" % (more, bits),
               fn=fin.path, construct="status-bit", callee=cname(wr[0][1]["func"]), where=fin.where(p.blocks[-1]), key_extra={"more": more},
               sample={"rule": "finalize-first/status", "more_exists": more, "bits": bits})
        took = any(cname(t["func"]).endswith("Option::<T>::take") for pos, bb, t in p.calls())
        ctx.ob("C03.finalize-first", took, "the pending terminator is written without being consumed (could be written twice)", fn=fin.path, construct="take", nontrivial=False)
    ctx.floor("C03.finalize-first", "terminator-writing paths of finalize", n, 2)

    # ---- terminator-choice --------------------------------------------------------------------
    fi = prog.one(r"^resultset::RowWriter::<'a, W>::finish_inner$")
    ctx.fn(fi)
    n = 0
    for p in enumerate_paths(fi):
        if p.end != "return" or classify_return(p) == "err":
            continue
        stores = []
        for pos, blk in enumerate(p.blocks):
            for i, s in enumerate(fi.blocks[blk]["stmts"]):
                if s["k"] == "assign" and s["rv"]["k"] == "agg" and s["rv"].get("ak") == "adt" and s["rv"]["adt"].endswith("Finalizer"):
                    stores.append(s["rv"]["vname"])
        conds = {}
        for i, blk in enumerate(p.blocks[:-1]):
            t = fi.term(blk)
            if t["k"] == "switch" and "0" in t["vals"]:
                v = fi.origin_op(t["discr"], blk, len(fi.blocks[blk]["stmts"]))
                truth = p.blocks[i + 1] != t["tgts"][t["vals"].index("0")]
                if T.is_call(v, r"is_empty$") and T.is_field(T.peel(v[2][0]), "columns"):
                    conds["empty"] = truth
                if T.is_param(v, 2):
                    conds["complete"] = truth
                if T.is_field(T.peel(v), "finished"):
                    conds["finished"] = truth
        if "empty" not in conds:
            e_ = emptiness_of(p, lambda x: T.is_field(x, "columns"))
            if e_ is not None:
                conds["empty"] = e_
        if conds.get("finished"):
            continue
        n += 1
        want = [] if not conds.get("complete") else (["Ok"] if conds.get("empty") else ["Eof"])
        ctx.ob("C03.terminator-choice", stores == want, "completion stores %s on a path with %s (expected %s)" % (stores, conds, want), fn=fi.path, construct="finalizer-store",
               where=fi.where(p.blocks[-1]), key_extra={"conds": str(sorted(conds.items()))}, sample={"rule": "terminator-choice", "conds": conds, "stores": stores})
    ctx.floor("C03.terminator-choice", "non-trivial Ok paths of finish_inner", n, 3)
    fe = prog.one(r"^resultset::RowWriter::<'a, W>::finish_error$")
    fo = prog.one(r"^resultset::RowWriter::<'a, W>::finish_one$")
    for b, flag in ((fe, 0), (fo, 1)):
        ctx.fn(b)
        cs = [(bb, t) for bb, t in b.calls() if cname(t["func"]) == fi.path]
        ok = len(cs) == 1 and T.is_const_int(b.arg_origin(cs[0][0], 1), flag)
        ctx.ob("C03.terminator-choice", ok, "%s must call finish_inner(%s) exactly once" % (b.path, "true" if flag else "false"), fn=b.path, construct="finish-inner-call")
    for imp in prog.impls:
        if imp.get("trait_path") == "std::ops::Drop" and imp["self_ty"].startswith("resultset::RowWriter<"):
            b = prog.bodies[imp["methods"][0]]
            ctx.fn(b)
            cs = [(bb, t) for bb, t in b.calls() if cname(t["func"]) == fi.path]
            ok = len(cs) == 1 and T.is_const_int(b.arg_origin(cs[0][0], 1), 1)
            ctx.ob("C03.drop-finalises", ok, "dropping a RowWriter must complete the resultset (finish_inner(true))", fn=b.path, construct="drop")
    drops = [i for i in prog.impls if i.get("trait_path") == "std::ops::Drop" and i["self_ty"].startswith(("resultset::RowWriter<", "resultset::QueryResultWriter<"))]
    ctx.floor("C03.drop-finalises", "Drop impls of the result writers", len(drops), 2)

    # ---- reply-effects ------------------------------------------------------------------------
    lm = arms.LoopModel(prog, roles, eff)
    fr = roles.f_run
    ctx.fn(fr)
    seen_arms = set()
    for arm, outcome, p in lm.iteration_paths():
        if arm is None or outcome == "unreachable":
            continue
        ev = lm.events(p)
        writes = [e for e in ev if e[0] == "write" or (e[0].startswith("shim:") and "writes" in eff.of_call(fr, e[2], e[3]))]
        if arm in CMD.NO_REPLY:
            seen_arms.add(arm)
            ctx.ob("C03.reply-effects", not writes, "%s expects no reply but the server writes (%s)" % (arm, [fr.where(e[2]) for e in writes]), fn=fr.path,
                   construct="no-reply", callee=arm, where=fr.where(p.blocks[-1]))
        elif outcome == "stop":
            seen_arms.add(arm)
            ctx.ob("C03.reply-effects", bool(writes), "a completed %s command produces no reply on this path" % arm, fn=fr.path, construct="must-reply", callee=arm,
                   where=fr.where(p.blocks[-1]), sample={"rule": "reply-effects", "arm": arm, "writes": len(writes)} if arm in ("Ping", "ListFields") else None)
    ctx.floor("C03.reply-effects", "command arms examined", len(seen_arms), 9)
    # default methods of the shim trait that are handed a writer must use it on every Ok path
    for tp, tr in prog.traits.items():
        if not tp.endswith("MysqlShim"):
            continue
        for m in tr["methods"]:
            if not m["has_default"] or not effects.mentions_writer(m["sig_in"]):
                continue
            b = prog.bodies.get(m["path"])
            if b is None:
                continue
            ctx.fn(b)
            for p in enumerate_paths(b):
                if p.end != "return" or classify_return(p) == "err":
                    continue
                used = any("writes" in eff.of_call(b, bb, t) for pos, bb, t in p.calls())
                ctx.ob("C03.reply-effects", used, "the default %s returns Ok without replying through the writer it was given: the client gets no response" % m["path"],
                       fn=m["path"], construct="default-uses-writer", where=b.where(p.blocks[-1]))

    # ---- shape-checks -------------------------------------------------------------------------
    er = prog.one(r"^resultset::RowWriter::<'a, W>::end_row$")
    ctx.fn(er)
    n = 0
    for p in enumerate_paths(er):
        ends = [pos for pos, bb, t in p.calls() if wire.RX_END_PACKET.search(cname(t["func"]))]
        if not ends:
            continue
        n += 1
        lo, hi = None, None   # bounds on (col - len(columns)) implied by the branch conditions before the packet end
        for i, blk in enumerate(p.blocks[:ends[0]]):
            t = er.term(blk)
            if t["k"] != "switch" or "0" not in t["vals"]:
                continue
            v = er.origin_op(t["discr"], blk, len(er.blocks[blk]["stmts"]))
            truth = p.blocks[i + 1] != t["tgts"][t["vals"].index("0")]
            if isinstance(v, tuple) and v[0] == "bin" and v[1] in ("Eq", "Ne", "Lt", "Le", "Gt", "Ge"):
                d = T.affine(v[2]).add(T.affine(v[3]), -1)
                want = Aff(0, {("path", "self", "col"): 1, ("len", ("path", "self", "columns")): -1})
                sign = 1 if d == want else (-1 if d.scale(-1) == want else 0)
                if not sign:
                    continue
                op = v[1]
                if sign == -1:
                    op = {"Lt": "Gt", "Le": "Ge", "Gt": "Lt", "Ge": "Le"}.get(op, op)
                if not truth:
                    op = {"Eq": "Ne", "Ne": "Eq", "Lt": "Ge", "Le": "Gt", "Gt": "Le", "Ge": "Lt"}[op]
                if op == "Eq":
                    lo, hi = 0, 0
                elif op == "Ge":
                    lo = 0 if lo is None else max(lo, 0)
                elif op == "Gt":
                    lo = 1 if lo is None else max(lo, 1)
                elif op == "Le":
                    hi = 0 if hi is None else min(hi, 0)
                elif op == "Lt":
                    hi = -1 if hi is None else min(hi, -1)
        ctx.ob("C03.shape-checks", lo == 0 and hi == 0, "a row packet is ended on a path that only establishes col - columns.len() in [%s, %s] (must be exactly 0)" % (lo, hi),
               fn=er.path, construct="row-shape", where=er.where(p.blocks[-1]), sample={"rule": "shape-checks", "bounds": [lo, hi]})
    ctx.floor("C03.shape-checks", "paths of end_row ending a row packet", n, 2)
    # end_row is the only place (besides the framer itself) where RowWriter code ends a packet
    for b in prog.find(r"^resultset::RowWriter::<'a, W>::\w+$"):
        for bb, t in b.calls():
            if wire.RX_END_PACKET.search(cname(t["func"])) and b.path != er.path:
                ctx.ob("C03.shape-checks", False, "%s ends a packet itself, bypassing the row shape check" % b.path, fn=b.path, construct="packet-end-outside-end_row", where=b.where(bb))
    wc = prog.one(r"^resultset::RowWriter::<'a, W>::write_col$")
    ctx.fn(wc)
    n = 0
    for bb, t in wc.calls():
        if cname(t["func"]).endswith("ToMysqlValue::to_mysql_bin"):
            n += 1
            col = wc.arg_origin(bb, 2)
            g = T.peel(col, extra_rx=r"Option::<T>::ok_or_else$")
            ok = col[0] in ("okpayload", "somepayload") and T.is_call(g, r"slice::<impl \[T\]>::get$") and T.is_field(T.peel(g[2][0]), "columns") and \
                T.affine(g[2][1]) == Aff(0, {("path", "self", "col"): 1})
            ctx.ob("C03.shape-checks", ok, "binary cells are encoded against %s (need the successfully looked-up columns.get(col))" % term_str(col)[:100], fn=wc.path,
                   construct="bin-bound-check", where=wc.where(bb))
    ctx.floor("C03.shape-checks", "binary encode sites in write_col", n, 1)

    # every outbound clause of this property presupposes a faithful framing layer (one transport write site that sends the
    # whole pending packet, in order, with a correct header): C04's framing rules are evaluated here as well
    # a response is only accepted by a conformant decoder if its header is well formed: the column-count packet, the column
    # definitions and the PREPARE_OK header are C09's rules (which evaluate the wire bundle as well)


def thorough():
    """Compile-fail witnesses (rustc is the checker): each must fail with the stated error code, its twin must compile."""
    here = os.path.dirname(os.path.dirname(os.path.abspath(__file__)))
    r = subprocess.run([os.path.join(here, "witnesses", "run.sh")], capture_output=True, text=True)
    print(r.stdout[-3000:])
    if r.returncode != 0:
        rp = os.path.join(here, ".cache", "replay", "C03-witness.json")
        os.makedirs(os.path.dirname(rp), exist_ok=True)
        with open(rp, "w") as fh:
            fh.write('{"property":"C03","rule":"C03.linear-api","key":{"construct":"witness"},"what":"a compile_fail witness compiled or a twin failed","where":"witnesses/"}\n')
        print("VIOLATION property=C03 replay=%s" % rp)
        return 1
    return 0
