// D12 (C03): COM_INIT_DB / `USE db` to a shim that keeps the default `on_init` gets no reply.
mod harness;
use harness::*;
use msql_srv::*;
use std::io;

struct Shim;
impl MysqlShim<Pipe> for Shim {
    type Error = io::Error;
    fn on_prepare(&mut self, _: &str, i: StatementMetaWriter<'_, Pipe>) -> io::Result<()> { i.reply(1, &[], &[]) }
    fn on_execute(&mut self, _: u32, _: ParamParser<'_>, r: QueryResultWriter<'_, Pipe>) -> io::Result<()> { r.completed(0, 0) }
    fn on_close(&mut self, _: u32) {}
    fn on_query(&mut self, _: &str, r: QueryResultWriter<'_, Pipe>) -> io::Result<()> { r.completed(0, 0) }
    // on_init: default
}

#[test]
fn init_db_is_answered_by_the_default_shim() {
    let mut bytes = handshake();
    bytes.extend(packet(0, b"\x02mydb"));      // COM_INIT_DB
    bytes.extend(packet(0, b"\x03USE `mydb`;")); // text form
    bytes.extend(packet(0, &[0x0e]));          // COM_PING
    bytes.extend(packet(0, &[0x01]));
    let (r, out) = run(Shim, bytes);
    r.unwrap();
    let pk = split(&out);
    // greeting, auth OK, reply to INIT_DB, reply to USE, reply to PING
    assert_eq!(pk.len(), 5, "expected one reply per command, got packets {:?}", pk.iter().map(|p| p.1.first().copied()).collect::<Vec<_>>());
    for p in &pk[1..] { assert_eq!(p.1[0], 0x00, "every reply is an OK"); }
    for p in &pk[2..] { assert_eq!(p.0, 1, "command replies carry sequence id 1"); }
}
