// D1 (C20/C05): a request whose last packet carries sequence id 255 must be answered with id 0,
// not crash the server on `seq + 1`.
mod harness;
use harness::*;
use msql_srv::*;
use std::io;
struct Shim;
impl MysqlShim<Pipe> for Shim {
    type Error = io::Error;
    fn on_prepare(&mut self, _: &str, i: StatementMetaWriter<'_, Pipe>) -> io::Result<()> { i.reply(1, &[], &[]) }
    fn on_execute(&mut self, _: u32, _: ParamParser<'_>, r: QueryResultWriter<'_, Pipe>) -> io::Result<()> { r.completed(0, 0) }
    fn on_close(&mut self, _: u32) {}
    fn on_query(&mut self, _: &str, r: QueryResultWriter<'_, Pipe>) -> io::Result<()> { r.completed(0, 0) }
}
#[test]
fn request_sequence_id_255_wraps() {
    let mut bytes = handshake();
    bytes.extend(packet(255, &[0x0e])); // COM_PING with sequence id 255
    bytes.extend(packet(0, &[0x01]));
    let r = std::panic::catch_unwind(|| run(Shim, bytes));
    let (res, out) = r.expect("run_on panicked on request sequence id 255");
    res.unwrap();
    let pk = split(&out);
    assert_eq!(pk.len(), 3);
    assert_eq!(pk[2].0, 0, "reply to a request with id 255 carries id 0");
}
#[test]
fn handshake_sequence_id_255_wraps() {
    let mut h = handshake();
    h[3] = 255;
    h.extend(packet(0, &[0x01]));
    let r = std::panic::catch_unwind(|| run(Shim, h));
    let (res, out) = r.expect("run_on panicked on handshake sequence id 255");
    res.unwrap();
    assert_eq!(split(&out)[1].0, 0);
}
