"""E3 (reader side): cursor-chain analysis on origin terms.

A slice-typed origin term that was obtained from a base slice by nom combinators, split_at and
range indexing denotes `base[off .. off+len]`; `locate(t)` returns (base_term, off: Aff, len: Aff|None).
A scalar obtained by a fixed-width reader denotes `read(base, off, width)`; `reading(t)` returns
that description.  Offsets are affine forms (terms.Aff) so that they can be compared with the
protocol's layout tables for every parameter count / payload length at once.
"""
import re

from . import terms as T
from .terms import Aff

NOM_NUM = re.compile(r"^nom::number::complete::(le|be)_([ui])(8|16|24|32|64)$")
NOM_TAKE_C = re.compile(r"^nom::bytes::complete::take::\{closure#0\}$")
NOM_TAG_C = re.compile(r"^nom::bytes::complete::tag::\{closure#0\}$")
NOM_TAKE_UNTIL_C = re.compile(r"^nom::bytes::complete::take_until::\{closure#0\}$")
SPLIT_AT = re.compile(r"slice::<impl \[T\]>::split_at(_mut)?$")
INDEX = re.compile(r"(ops::Index<.*>>::index|Index::index|ops::IndexMut<.*>>::index_mut|IndexMut::index_mut|slice::index::<impl std::ops::Index(Mut)?<I> for \[T\]>::index(_mut)?)$")


def _unwrap_result_tuple(t):
    """t = field(okpayload(CALL), i)  ->  (CALL, i)   (also through an intermediate tuple copy)"""
    if isinstance(t, tuple) and t[0] == "field" and isinstance(t[3], int):
        inner = t[1]
        if isinstance(inner, tuple) and inner[0] == "okpayload":
            c = inner[1]
            if isinstance(c, tuple) and c[0] == "call":
                return c, t[3]
        if isinstance(inner, tuple) and inner[0] == "call":
            return inner, t[3]
    return None, None


def _tuple0(t):
    """first element of a 1-tuple aggregate argument `(i,)`"""
    if isinstance(t, tuple) and t[0] == "agg" and t[1] == "tuple" and len(t[4]) == 1:
        return t[4][0]
    return t


NOM_PAIR_C = re.compile(r"^nom::sequence::pair::\{closure#0\}$")
LOCAL_PARSERS = {}     # local fn path -> nom number parser it forwards its whole input to (filled by register_local_parsers)


def register_local_parsers(prog):
    """Local functions `fn f(i: &[u8]) -> IResult<&[u8], T> { nom_number_parser(i) }` behave as that parser when
    they are handed to a combinator by name."""
    for b in list(prog.bodies.values()):
        if b.kind not in ("fn", "inlined-helper") or b.raw.get("arg_count") != 1 or "nom::" not in b.raw.get("sig_out", ""):
            continue
        rbs = b.return_blocks()
        if len(rbs) != 1:
            continue
        v = b.origin_place({"l": 0, "p": []}, rbs[0], len(b.blocks[rbs[0]]["stmts"]))
        if isinstance(v, tuple) and v[0] == "call" and NOM_NUM.match(v[1]) and len(v[2]) == 1 and T.is_param(T.peel(v[2][0]), 1):
            LOCAL_PARSERS[b.path] = v[1]


def _parser_of(f):
    """(width Aff, kind) of a parser-valued term: a nom number parser (or a local alias of one) named as a function"""
    f = T.peel(f, payloads=False)
    if isinstance(f, tuple) and f[0] == "const" and f[1][0] == "fn":
        name = LOCAL_PARSERS.get(f[1][1], f[1][1])
        m = NOM_NUM.match(name)
        if m:
            return Aff(int(m.group(3)) // 8), "%s_%s%s" % (m.group(1), m.group(2), m.group(3))
    return None


def _pair_parts(call):
    """for `pair(P1, P2)(i)`: (input, [(w1, kind1), (w2, kind2)]) or None"""
    if not NOM_PAIR_C.match(call[1]):
        return None
    mk = T.peel(call[2][0], payloads=False)
    if not (T.is_call(mk, r"^nom::sequence::pair$") and len(mk[2]) == 2):
        return None
    ps = [_parser_of(x) for x in mk[2]]
    if any(p is None for p in ps):
        return None
    return _tuple0(call[2][1]), ps


NOM_TUPLE_C = re.compile(r"^nom::sequence::tuple::\{closure#0\}$")


def _tuple_parts(call):
    """for `tuple((P1, .., Pn))(i)`: (input, [desc(Pk)]) or None"""
    if not NOM_TUPLE_C.match(call[1]):
        return None
    mk = T.peel(call[2][0], payloads=False)
    if not (T.is_call(mk, r"^nom::sequence::tuple$") and len(mk[2]) == 1):
        return None
    ps = T.peel(mk[2][0], payloads=False)
    if not (isinstance(ps, tuple) and ps[0] == "agg" and ps[1] == "tuple"):
        return None
    ds = [_parser_desc(x) for x in ps[4]]
    if any(d is None for d in ds):
        return None
    return _tuple0(call[2][1]), ds


NOM_TERMINATED_C = re.compile(r"^nom::sequence::terminated::\{closure#0\}$")


def _parser_desc(f):
    """(width Aff|None, kind, extra) of a parser-valued term: a number parser named as a function (or a local alias),
    or `take(n)` / `tag(b)` / `take_until(b)` applied to their argument."""
    d = _parser_of(f)
    if d is not None:
        return d[0], d[1], None
    f = T.peel(f, payloads=False)
    if T.is_call(f, r"^nom::bytes::complete::take$"):
        return T.affine(f[2][0]), "take", f[2][0]
    if T.is_call(f, r"^nom::bytes::complete::tag$"):
        b = T.const_bytes(T.peel(f[2][0]))
        return (Aff(len(b)) if b is not None else None), "tag", b
    if T.is_call(f, r"^nom::bytes::complete::take_until$"):
        return None, "take_until", T.const_bytes(T.peel(f[2][0]))
    return None


def _terminated_parts(call):
    """for `terminated(P1, P2)(i)`: (input, desc(P1), desc(P2)) or None"""
    if not NOM_TERMINATED_C.match(call[1]):
        return None
    mk = T.peel(call[2][0], payloads=False)
    if not (T.is_call(mk, r"^nom::sequence::terminated$") and len(mk[2]) == 2):
        return None
    d1, d2 = _parser_desc(mk[2][0]), _parser_desc(mk[2][1])
    if d1 is None or d2 is None:
        return None
    return _tuple0(call[2][1]), d1, d2


def delimited_by(t):
    """the delimiter bytes when slice term t is the value of `take_until(D)` (directly or as the first part of
    `terminated(take_until(D), ..)`), else None"""
    t = T.peel(t, payloads=False)
    call, idx = _unwrap_result_tuple(t)
    if call is None or idx != 1:
        return None
    tp = _terminated_parts(call)
    if tp is not None and tp[1][1] == "take_until":
        return tp[1][2]
    st = nom_step(call)
    if st is not None and st[2] == "take_until":
        return st[3]
    return None


def nom_step(call):
    """For a call term of a nom parser applied to an input: (input_term, width Aff|None, kind, extra)."""
    name = LOCAL_PARSERS.get(call[1], call[1])
    m = NOM_NUM.match(name)
    if m:
        w = int(m.group(3)) // 8
        return call[2][0], Aff(w), "%s_%s%s" % (m.group(1), m.group(2), m.group(3)), None
    if NOM_TAKE_C.match(name):
        mk = T.peel(call[2][0], payloads=False)
        n = mk[2][0] if T.is_call(mk, r"nom::bytes::complete::take$") else None
        return _tuple0(call[2][1]), (T.affine(n) if n is not None else None), "take", n
    if NOM_TAG_C.match(name):
        mk = T.peel(call[2][0], payloads=False)
        tg = mk[2][0] if T.is_call(mk, r"nom::bytes::complete::tag$") else None
        b = T.const_bytes(T.peel(tg)) if tg is not None else None
        return _tuple0(call[2][1]), (Aff(len(b)) if b is not None else None), "tag", b
    if NOM_TAKE_UNTIL_C.match(name):
        mk = T.peel(call[2][0], payloads=False)
        tg = mk[2][0] if T.is_call(mk, r"nom::bytes::complete::take_until$") else None
        b = T.const_bytes(T.peel(tg)) if tg is not None else None
        return _tuple0(call[2][1]), None, "take_until", b
    return None


def _some_of(t):
    """`opt.ok_or(..)?` / `opt.ok_or_else(..)?` yield the Some payload: read okpayload(ok_or_else(X, _)) as somepayload(X)"""
    if isinstance(t, tuple) and t[0] == "field" and isinstance(t[1], tuple) and t[1][0] == "okpayload":
        inner = T.peel(t[1][1], payloads=False)
        if T.is_call(inner, r"Option::<T>::(ok_or_else|ok_or)$"):
            return ("field", ("somepayload", inner[2][0])) + tuple(t[2:])
    if isinstance(t, tuple) and t[0] == "okpayload":
        inner = T.peel(t[1], payloads=False)
        if T.is_call(inner, r"Option::<T>::(ok_or_else|ok_or)$"):
            return ("somepayload", inner[2][0])
    return t


def locate(t, depth=0):
    """(base, off, length) for slice-typed term t; base is the term where the chain starts."""
    t = _some_of(T.peel(t, payloads=False))
    if depth > 40 or not isinstance(t, tuple):
        return t, Aff(0), None
    # a slice-valued element of the value of `tuple((P1, .., Pn))(i)`: `field(field(okpayload(CALL), 1), k)` sits behind P1..Pk-1
    if t[0] == "field" and isinstance(t[3], int) and isinstance(t[1], tuple) and t[1] and t[1][0] == "field" and t[1][3] == 1:
        c_, i_ = _unwrap_result_tuple(t[1])
        if c_ is not None and i_ == 1:
            tup_ = _tuple_parts(c_)
            if tup_ is not None and t[3] < len(tup_[1]) and all(d[0] is not None for d in tup_[1][:t[3]]):
                b, off, ln = locate(tup_[0], depth + 1)
                w = Aff(0)
                for d in tup_[1][:t[3]]:
                    w = w.add(d[0])
                return b, off.add(w), tup_[1][t[3]][0]
    call, idx = _unwrap_result_tuple(t)
    if call is not None:
        name = call[1]
        if SPLIT_AT.search(name):
            b, off, ln = locate(call[2][0], depth + 1)
            k = T.affine(call[2][1])
            if idx == 0:
                return b, off, k
            return b, off.add(k), (ln.add(k, -1) if ln is not None else None)
        tup = _tuple_parts(call)
        if tup is not None and idx == 0 and all(d[0] is not None for d in tup[1]):
            b, off, ln = locate(tup[0], depth + 1)
            w = Aff(0)
            for d in tup[1]:
                w = w.add(d[0])
            return b, off.add(w), (ln.add(w, -1) if ln is not None else None)
        tp = _terminated_parts(call)
        if tp is not None:
            inp, d1, d2 = tp
            b, off, ln = locate(inp, depth + 1)
            if idx == 1:      # the value of the first parser
                return b, off, d1[0]
            if d1[0] is None or d2[0] is None:
                return b, off.add(Aff(0, {("scan", d1[1], repr(d1[2]), repr(off)): 1})).add(d2[0] if d2[0] is not None else Aff(0)), None
            w = d1[0].add(d2[0])
            return b, off.add(w), (ln.add(w, -1) if ln is not None else None)
        pp = _pair_parts(call)
        if pp is not None and idx == 0:
            b, off, ln = locate(pp[0], depth + 1)
            w = pp[1][0][0].add(pp[1][1][0])
            return b, off.add(w), (ln.add(w, -1) if ln is not None else None)
        st = nom_step(call)
        if st is not None:
            inp, w, kind, extra = st
            b, off, ln = locate(inp, depth + 1)
            if idx == 0:  # rest
                if w is None:
                    return b, off.add(Aff(0, {("scan", kind, repr(extra), repr(off)): 1})), None
                return b, off.add(w), (ln.add(w, -1) if ln is not None else None)
            else:  # value part (for take/tag/take_until it is a slice)
                return b, off, w
    # `x.split_first()` = Some((&x[0], &x[1..]))
    if t[0] == "field" and isinstance(t[1], tuple) and t[1][0] == "somepayload" and T.is_call(T.peel(t[1][1], payloads=False), r"slice::<impl \[T\]>::split_first$") and t[3] == 1:
        c = T.peel(t[1][1], payloads=False)
        b, off, ln = locate(c[2][0], depth + 1)
        return b, off.add(Aff(1)), (ln.add(Aff(1), -1) if ln is not None else None)
    # item of `x.chunks_exact(n)` / `x.chunks(n)`: the k-th chunk is x[n*k .. n*k + n] (k = the iteration, one atom per loop)
    if t[0] == "somepayload" and T.is_call(T.peel(t[1], payloads=False), r"(ChunksExact|Chunks)<'a, T> as std::iter::Iterator>::next$"):
        nx = T.peel(t[1], payloads=False)
        ch = T.find(nx, lambda x: T.is_call(x, r"slice::<impl \[T\]>::(chunks_exact|chunks)$"))
        if ch is not None and T.const_int(ch[2][1]) is not None:
            n = T.const_int(ch[2][1])
            b, off, ln = locate(ch[2][0], depth + 1)
            site = ch[3] if len(ch) > 3 else None
            return b, off.add(Aff(0, {("iter", repr(site)): n})), Aff(n)
    # `x.strip_prefix(P)` = Some(&x[len(P)..]) exactly when x starts with P
    if t[0] == "somepayload" and T.is_call(T.peel(t[1], payloads=False), r"slice::<impl \[T\]>::strip_prefix$"):
        c = T.peel(t[1], payloads=False)
        pre = T.const_bytes(T.peel(c[2][1]))
        b, off, ln = locate(c[2][0], depth + 1)
        if pre is not None:
            k = Aff(len(pre))
            return b, off.add(k), (ln.add(k, -1) if ln is not None else None)
        return b, off.add(Aff(0, {("opaque", "strip_prefix"): 1})), None
    if t[0] == "call" and INDEX.search(t[1]) and len(t[2]) == 2:
        b, off, ln = locate(t[2][0], depth + 1)
        r = t[2][1]
        if isinstance(r, tuple) and r[0] == "agg" and r[2]:
            rn = r[2].split("::")[-1]
            f = r[4]
            if rn == "RangeFrom":
                a = T.affine(f[0])
                return b, off.add(a), (ln.add(a, -1) if ln is not None else None)
            if rn == "RangeTo":
                return b, off, T.affine(f[0])
            if rn == "Range":
                a, e = T.affine(f[0]), T.affine(f[1])
                return b, off.add(a), e.add(a, -1)
            if rn == "RangeFull":
                return b, off, ln
        return b, off.add(Aff(0, {("opaque", "index"): 1})), None
    if t[0] == "subslice":
        b, off, ln = locate(t[1], depth + 1)
        if not t[4]:
            return b, off.add(Aff(t[2])), Aff(t[3] - t[2])
        return b, off.add(Aff(t[2])), (ln.add(Aff(t[2] + t[3]), -1) if ln is not None else None)
    return t, Aff(0), None


def reading(t):
    """Description of a scalar read: {'kind','base','off','width'} or None.
    Handles nom number parsers' value part and `slice[i]` indexing."""
    t0 = _some_of(T.peel(t, payloads=False))
    call, idx = _unwrap_result_tuple(t0)
    if call is not None and idx == 1:
        st = nom_step(call)
        if st is not None and st[2] not in ("take", "tag", "take_until"):
            inp, w, kind, _ = st
            b, off, _ln = locate(inp)
            return {"kind": kind, "base": b, "off": off, "width": w.c}
    # `*x.split_first()?.0` is x[0];  `*x.get(i)?` / `*x.first()?` is x[i] / x[0]
    if isinstance(t0, tuple) and t0[0] == "field" and t0[3] == 0 and isinstance(t0[1], tuple) and t0[1][0] == "somepayload" and \
            T.is_call(T.peel(t0[1][1], payloads=False), r"slice::<impl \[T\]>::split_first$"):
        c = T.peel(t0[1][1], payloads=False)
        b, off, _ln = locate(c[2][0])
        return {"kind": "u8", "base": b, "off": off, "width": 1}
    if isinstance(t0, tuple) and t0[0] == "somepayload" and T.is_call(T.peel(t0[1], payloads=False), r"slice::<impl \[T\]>::(get|first)$"):
        c = T.peel(t0[1], payloads=False)
        b, off, _ln = locate(c[2][0])
        ix = T.affine(c[2][1]) if c[1].endswith("::get") and len(c[2]) == 2 else Aff(0)
        return {"kind": "u8", "base": b, "off": off.add(ix), "width": 1}
    # element k of the value tuple of `tuple((P1, .., Pn))(i)`
    if isinstance(t0, tuple) and t0[0] == "field" and isinstance(t0[3], int):
        call3, idx3 = _unwrap_result_tuple(t0[1])
        if call3 is not None and idx3 == 1:
            tup = _tuple_parts(call3)
            if tup is not None and t0[3] < len(tup[1]) and all(d[0] is not None for d in tup[1][:t0[3]]):
                b, off, _ln = locate(tup[0])
                for d in tup[1][:t0[3]]:
                    off = off.add(d[0])
                d = tup[1][t0[3]]
                if d[1] not in ("take", "tag", "take_until") and d[0] is not None:
                    return {"kind": d[1], "base": b, "off": off, "width": d[0].c}
    # element k of the value pair of `pair(P1, P2)(i)`
    if isinstance(t0, tuple) and t0[0] == "field" and isinstance(t0[3], int) and t0[3] in (0, 1):
        call2, idx2 = _unwrap_result_tuple(t0[1])
        if call2 is not None and idx2 == 1:
            pp = _pair_parts(call2)
            if pp is not None:
                b, off, _ln = locate(pp[0])
                if t0[3] == 1:
                    off = off.add(pp[1][0][0])
                return {"kind": pp[1][t0[3]][1], "base": b, "off": off, "width": pp[1][t0[3]][0].c}
    if isinstance(t0, tuple) and t0[0] == "index":
        b, off, _ln = locate(t0[1])
        return {"kind": "u8", "base": b, "off": off.add(T.affine(t0[2])), "width": 1}
    return None
