"""E2: connection typestate {clean, dirty} — interprocedural forward may-analysis.

clean  = every reply byte produced so far has been handed to the transport and flushed
dirty  = bytes may be pending in the packet buffer or in the transport's own buffer

Transfer: a call that may write to the connection (E1 effect `writes`, shim callbacks handed a
writer, drops of writer types) -> dirty; the connection flush (F_flush) -> clean; local callees
are summarised by their own exit states on non-error returns (memoised, recursion-guarded).
"""
from .effects import forward, is_shim_call
from .prog import cname

CLEAN, DIRTY = "clean", "dirty"


def err_blocks(body):
    """Blocks that build an error result: `?`'s from_residual or `_0 = Err(..)`; the analysis
    does not propagate through them to the return (they are error exits)."""
    out = set()
    for b in range(body.n):
        if body.is_cleanup(b):
            continue
        t = body.term(b)
        if t["k"] == "call" and "indirect" not in t["func"] and t["func"]["path"].endswith("FromResidual::from_residual"):
            out.add(b)
        for s in body.blocks[b]["stmts"]:
            if s["k"] == "assign" and s["lhs"]["l"] == 0 and not s["lhs"]["p"]:
                rv = s["rv"]
                if rv["k"] == "agg" and rv.get("ak") == "adt" and rv["adt"].endswith("result::Result") and rv["vname"] == "Err":
                    out.add(b)
    return out


class ConnTypestate:
    def __init__(self, prog, roles, eff):
        self.prog = prog
        self.roles = roles
        self.eff = eff
        self.memo = {}
        self.read_obligations = []   # (body, bb, in_state)

    def transfer_term(self, body, bb, st, record=False):
        t = body.term(bb)
        k = t["k"]
        if k == "call":
            f = t["func"]
            if "indirect" in f:
                return st
            n = cname(f)
            r = self.roles
            if n == r.f_flush.path:
                return frozenset([CLEAN])
            if n == r.f_read.path:
                if record:
                    self.read_obligations.append((body, bb, st))
                return st
            if is_shim_call(t) and not f.get("rpath"):
                e = self.eff.of_call(body, bb, t)
                return frozenset([DIRTY]) if "writes" in e else st
            if n in self.prog.bodies and n not in (r.f_wr.path, r.f_term.path):
                e = self.eff.summ.get(n, set())
                if "writes" not in e and "flushes" not in e:
                    return st
                out = set()
                for s in st:
                    out |= self.exit_states(n, s)
                return frozenset(out) if out else st
            e = self.eff.of_call(body, bb, t)
            if "writes" in e:
                return frozenset([DIRTY])
            return st
        if k == "drop":
            e = self.eff.of_drop(t["ty"])
            if "writes" in e:
                return frozenset([DIRTY])
        return st

    def exit_states(self, fn, entry):
        key = (fn, entry)
        if key in self.memo:
            return self.memo[key]
        self.memo[key] = {entry}  # recursion guard: optimistic seed, refined below
        body = self.prog.bodies[fn]
        IN, OUT = self.run(body, entry)
        out = set()
        for b in body.return_blocks():
            out |= set(IN.get(b, ()))
        if not out:
            out = {entry}
        self.memo[key] = out
        return out

    def run(self, body, entry, record=False):
        eb = err_blocks(body)

        def tr(bb, st):
            if bb in eb:
                return frozenset()
            return self.transfer_term(body, bb, st, False)

        # recording must happen once per block with the final IN state: run to fixpoint first
        IN, OUT = forward(body, [entry] if isinstance(entry, str) else entry, lambda bb, st: tr(bb, st))
        if record:
            self.read_obligations = [x for x in self.read_obligations if x[0] is not body]
            for b in range(body.n):
                if b in IN and not body.is_cleanup(b) and b not in eb:
                    self.transfer_term(body, b, IN[b], True)
        return IN, OUT
