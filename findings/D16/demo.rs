// D16 (C16): the type block of COM_STMT_EXECUTE is parsed lazily, inside Params::next, i.e. only when the shim iterates
// the parameters.  An execution that carries types but whose parameters the shim does not look at (it answers with an
// error, or needs none of them) leaves the statement's type table untouched; the next execution that omits types is then
// decoded with the types of an OLDER execution (or panics on bound_types[col] if there never was one).
mod harness;
use harness::*;
use msql_srv::*;
use std::io;
use std::sync::{Arc, Mutex};

struct Shim { n: usize, seen: Arc<Mutex<Vec<(ColumnType, Vec<u8>)>>> }
impl MysqlShim<Pipe> for Shim {
    type Error = io::Error;
    fn on_prepare(&mut self, _: &str, i: StatementMetaWriter<'_, Pipe>) -> io::Result<()> {
        let p = [Column { table: String::new(), column: "p".into(), coltype: ColumnType::MYSQL_TYPE_VAR_STRING, colflags: ColumnFlags::empty() }];
        i.reply(1, &p, &[])
    }
    fn on_execute(&mut self, _: u32, p: ParamParser<'_>, r: QueryResultWriter<'_, Pipe>) -> io::Result<()> {
        self.n += 1;
        if self.n == 2 {
            // the second execution is refused without looking at its parameters
            return r.error(ErrorKind::ER_NO_SUCH_TABLE, &b"no such table".to_vec());
        }
        for v in p {
            let bytes = match v.value.into_inner() {
                ValueInner::Bytes(b) => b.to_vec(),
                ValueInner::Int(i) => i.to_le_bytes().to_vec(),
                other => format!("{:?}", other).into_bytes(),
            };
            self.seen.lock().unwrap().push((v.coltype, bytes));
        }
        r.completed(0, 0)
    }
    fn on_close(&mut self, _: u32) {}
    fn on_query(&mut self, _: &str, r: QueryResultWriter<'_, Pipe>) -> io::Result<()> { r.completed(0, 0) }
}

fn exec(tail: &[u8]) -> Vec<u8> {
    let mut e = vec![0x17, 1, 0, 0, 0, 0, 1, 0, 0, 0];
    e.extend_from_slice(tail);
    packet(0, &e)
}

#[test]
fn types_of_an_execution_the_shim_did_not_iterate_are_remembered() {
    let mut b = handshake();
    b.extend(packet(0, b"\x16SELECT ?"));
    b.extend(exec(&[0x00, 0x01, 0x08, 0x00, 7, 0, 0, 0, 0, 0, 0, 0]));   // 1: bind LONGLONG, value 7
    b.extend(exec(&[0x00, 0x01, 0xfd, 0x00, 2, b'a', b'b']));            // 2: rebind VAR_STRING, value "ab" (shim refuses, does not iterate)
    b.extend(exec(&[0x00, 0x00, 2, b'c', b'd']));                        // 3: no types: must be decoded as VAR_STRING "cd"
    b.extend(packet(0, &[0x01]));
    let seen = Arc::new(Mutex::new(Vec::new()));
    let s2 = seen.clone();
    let res = std::panic::catch_unwind(move || run(Shim { n: 0, seen: s2 }, b));
    let seen = seen.lock().unwrap().clone();
    assert!(res.is_ok(), "run_on panicked decoding the third execution with stale types; the shim saw {:?}", seen);
    assert_eq!(seen.len(), 2);
    assert_eq!(seen[1], (ColumnType::MYSQL_TYPE_VAR_STRING, b"cd".to_vec()), "third execution decoded with the types of the first");
}
