"""C20 — no client byte sequence can crash or wedge a connection."""
import re

from engines import effects, panics, cursor, readloop
from engines.obligations import Bounds, dominating_facts, truth_of
from engines.prog import cname, term_str, fold, _cint
from engines import terms as T
from engines.terms import Aff

CONFIGS = ["tls", "notls"]
LEVEL = "other"
EXPLANATION = (
    "Panic-site obligations. Client-path functions = everything reachable in the call graph from run_on except the writer API "
    "and value encoders (their inputs come from the shim), plus the parameter-decoding API a callback drives over client bytes. "
    "In those functions every panic-capable construct of the MIR — Assert terminators (overflow, bounds, division), calls into "
    "core::panicking (panic!/unreachable!/assert_eq!), unwrap/expect, split_at, range/usize indexing, Vec::drain, byteorder "
    "slice writers — is an obligation. It is discharged automatically when the assert condition folds to a constant, when "
    "type-derived intervals exclude the overflow, when a dominating branch fact (emptiness test, explicit comparison, loop "
    "range) bounds the index by the slice length computed as an affine form, or when the range is RangeFull; otherwise it must "
    "appear in the reasoned table below (one line of reason, tied to the invariant rule that backs it), else it is a violation. "
    "Known findings carry a concrete triggering input. Loop progress: every natural loop in client-path functions is an "
    "iterator loop over a finite range, the reader loop (every back edge passes the transport read, and read==0 leaves), or "
    "the command loop (every back edge passes the reader).")
ASSUMPTIONS = [
    "panics inside dependencies (nom, mysql_common, rustls) on adversarial input are out of scope",
    "Vec lengths are <= isize::MAX (allocation limit), Read::read returns n <= buf.len()",
    "a client that simply stops sending is not a wedge (timing is out of scope)",
]

# Reasoned table: obligations that need an invariant from another rule or an argument outside the simple provers.
# key: (function regex, kind regex, callee/op regex or None, ordinal or None) -> reason
REASONED = [
    (r"^{F_READ}$", r"assert:Overflow\(Sub\)", None, None,
     "bytes.len() - remaining: remaining <= len(bytes) is the window invariant (C01.window-invariant: remaining is only ever set to rest.len() of a sub-slice of bytes, to len(bytes), or to 0)"),
    (r"^{F_READ}$", r"^index$", r"Vec<T, A> as std::ops::Index<I>>::index", None,
     "bytes[start..]: start = len - remaining <= len by the same invariant (C01.window-invariant)"),
    (r"^{F_READ}$", r"^vec-op$", r"drain", None, "drain(0..start): start <= len (C01.window-invariant)"),
    (r"^{F_READ}$", r"assert:Overflow\(Mul\)", None, None, "end * 2: end = Vec length <= isize::MAX, so 2*end < 2^64"),
    (r"^{F_READ}$", r"^index$", r"IndexMut<I>>::index_mut", None, "bytes[end..] right after resize(max(4096, 2*end)): new length >= end"),
    (r"^{F_READ}$", r"assert:Overflow\(Add\)", None, None, "end + read: read <= buf.len() = len - end (Read contract), so the sum is <= len"),
    (r"^{F_TERM}$", r"assert:Overflow\(Sub\)", None, None, "to_write.len() - 4: the buffer always holds the 4 header bytes (C04.header-equals-payload: initial vec![0;4], truncate(4))"),
    (r"^{F_TERM}$", r"^index$", None, None, "to_write[0..3], to_write[3], to_write[..]: length >= 4 (C04.header-equals-payload)"),
    (r"^{F_TERM}$", r"^byteorder-slice$", None, None, "write_u24 into a 3-byte slice with len < 2^24 (C04.split-threshold bounds the pending length)"),
    (r"^packet::PacketConn::<W>::switch_to_tls$", r"assert:Overflow\(Sub\)|^index$", None, None, "bytes[len - remaining..]: remaining <= len (C01.window-invariant)"),
    (r"^<tls::SwitchableConn<T> as std::io::(Read|Write)>::(read|write|flush)$", r"^unwrap$", None, None,
     "self.0 is Some from the constructor; switch_to_tls takes it and either restores Some or returns an error that ends run_on (C18.ownership)"),
    (r"^tls::SwitchableConn::<T>::switch_to_tls$", r"^panic$", None, None, "unreachable!() for self.0 == None: see the unwrap reasoning (the value is Some whenever the connection is in use)"),
    (r"^tls::|^<tls::", r"^unwrap$", r" <- .*ServerConnection::new\(", None, "ServerConnection::new fails only for an inconsistent ServerConfig supplied by the shim, not for client bytes"),
    (r"^{F_RUN}$", r"^index$", r"Index<I> for \[T\]>::index :: &\[u8\],std::ops::RangeFrom<usize>( <- .*)?$", None,
     "q[b\"SELECT @@\".len()..] / q[b\"USE \".len()..]: dominated by starts_with(prefix) of the same length (C02.prefix-agreement)"),
    (r"^<params::Params<'a> as std::iter::Iterator>::next$", r"^panic$", None, None,
     "unreachable!() for nullmap == None: the first block stores Some(..) whenever it was None (path-checked below by C20.nullmap-some)"),
]


def client_fns(prog, roles):
    reach = prog.reachable_fns([roles.run_on.path])
    extra = [b.path for b in prog.fns() if re.search(r"^<params::|^params::|value::decode::Value(Inner)?::<'a>::parse_from|^<tls::|^tls::", b.path)]
    out = (set(reach) | set(extra)) - set(getattr(prog, "absorbed_new_closures", ())) - set(getattr(prog, "absorbed_dead_closures", ()))
    return {x for x in out if not re.search(r"^resultset::|value::encode|^<resultset::|::tests::|as std::fmt::Debug|as std::clone::Clone|^MysqlShim::", x)}


def _unit_counter(body, op):
    """is the operand a local whose every definition is a small constant or `itself + 1`?"""
    from engines.prog import op_place
    pl = op_place(op)
    if pl is None or pl["p"]:
        return False
    l = pl["l"]
    if l <= body.raw["arg_count"]:
        return False
    ndefs = 0
    for bb_, i_, s_ in body.stmts():
        if s_["k"] != "assign" or s_["lhs"]["l"] != l:
            continue
        if s_["lhs"]["p"]:
            return False
        ndefs += 1
        rv = s_["rv"]
        if rv["k"] != "use":
            return False
        o = rv["op"]
        if "const" in o:
            try:
                if 0 <= int(o["const"].get("int", "x")) < (1 << 32):
                    continue
            except ValueError:
                pass
            return False
        q = op_place(o)
        if q is None or len(q["p"]) != 1 or not (isinstance(q["p"][0], dict) and q["p"][0].get("f") == 0):
            return False
        # the tuple local must be `AddWithOverflow(copy l, const 1)`
        okk = False
        for _, _, s2 in body.stmts():
            if s2["k"] == "assign" and s2["lhs"]["l"] == q["l"] and not s2["lhs"]["p"]:
                r2 = s2["rv"]
                a_, b_ = op_place(r2.get("a") or {}), (r2.get("b") or {})
                okk = r2["k"] == "bin" and r2["op"] in ("AddWithOverflow", "Add") and a_ is not None and a_["l"] == l and not a_["p"] and \
                    "const" in b_ and str(b_["const"].get("int")) == "1"
                if not okk:
                    return False
        if not okk:
            return False
    # no call may write it through a reference
    for bb_, i_, s_ in body.stmts():
        if s_["k"] == "assign" and s_["rv"]["k"] == "ref" and s_["rv"].get("mut") and s_["rv"]["place"]["l"] == l:
            return False
    for bb_, t_ in body.calls():
        if not t_["dest"]["p"] and t_["dest"]["l"] == l:
            return False
    return ndefs >= 1


def _mapped_take_widths(prog, closure_path):
    """for every place where the closure is handed to nom's `map(parser, closure)`: the constant k when parser is `take(k)`, else None"""
    out = []
    for b in prog.fns():
        for bb, t in b.calls():
            if "indirect" in t["func"]:
                continue
            for ai in range(len(t["args"])):
                a = b.arg_origin(bb, ai)
                if isinstance(a, tuple) and a and a[0] == "agg" and a[1] == "closure" and a[2] == closure_path:
                    if cname(t["func"]).endswith("nom::combinator::map") and ai == 1:
                        p0 = T.peel(b.arg_origin(bb, 0))
                        out.append(T.const_int(p0[2][0]) if T.is_call(p0, r"nom::bytes::complete::take$") and len(p0[2]) == 1 else None)
                    elif re.search(r"iter::Iterator::(map|for_each|try_for_each|filter_map|flat_map)$", t["func"]["path"]) and ai == 1:
                        # items of `x.chunks_exact(k)` have exactly k elements
                        p0 = T.peel(b.arg_origin(bb, 0))
                        ch = T.find(p0, lambda x: T.is_call(x, r"slice::<impl \[T\]>::chunks_exact$"))
                        out.append(T.const_int(ch[2][1]) if ch is not None and len(ch[2]) == 2 else None)
                    else:
                        out.append(None)
    return out


_PRUNED = {}


def _const_pruned_reachable(body):
    """blocks reachable from the entry when a switch whose discriminant folds to a constant only takes that constant's edge"""
    key = id(body)
    if key in _PRUNED:
        return _PRUNED[key]
    seen, stack = set(), [0]
    while stack:
        b_ = stack.pop()
        if b_ in seen:
            continue
        seen.add(b_)
        t_ = body.term(b_)
        succ = list(body.succ[b_])
        if t_["k"] == "switch":
            try:
                v_ = fold(body.origin_op(t_["discr"], b_, len(body.blocks[b_]["stmts"])))
            except Exception:
                v_ = None
            c_ = _cint(v_) if v_ is not None else None
            if c_ is not None:
                tgt = t_["otherwise"]
                for val, g in zip(t_["vals"], t_["tgts"]):
                    if int(val) == c_:
                        tgt = g
                succ = [tgt]
        stack.extend(x for x in succ if x not in seen)
    _PRUNED[key] = seen
    return seen


def auto_discharge(body, kind, bb, t, prog):
    """Returns (True, how) when the obligation is discharged mechanically."""
    if kind == "panic" and bb not in _const_pruned_reachable(body):
        return True, "the block is only reached through a branch whose condition folds to the other constant (e.g. the `else` of a slice pattern on an item of chunks_exact(n))"
    if kind.startswith("assert:"):
        msg = kind[7:]
        if "PointerDereference" in msg:
            return True, "compiler-inserted pointer validity check on a reference (not data dependent)"
        cond = body.origin_op(t["cond"], bb, len(body.blocks[bb]["stmts"]))
        cv = _cint(fold(cond))
        if cv is not None and bool(cv) == bool(t["expected"]):
            return True, "condition folds to the expected constant"
        B = Bounds(body, bb, prog.ptr_bits)
        if msg.startswith("Overflow("):
            op = msg[9:-1]
            a = body.origin_op(t["ops"][0], bb, len(body.blocks[bb]["stmts"])) if t["ops"] else None
            b = body.origin_op(t["ops"][1], bb, len(body.blocks[bb]["stmts"])) if len(t["ops"]) > 1 else None
            # result type: the type of the checked operation (first operand)
            ty = None
            for s in body.blocks[bb]["stmts"]:
                if s["k"] == "assign" and s["rv"]["k"] == "bin" and s["rv"]["op"].endswith("WithOverflow"):
                    ty = s["rv"]["ty"]
            from engines.prog import int_range
            if ty is None and isinstance(a, tuple):
                if a[0] == "const" and a[1][0] == "int":
                    ty = a[1][2]
                elif a[0] == "bin" and len(a) > 4:
                    ty = a[4]
                elif a[0] == "cast":
                    ty = a[2]
            rng = int_range(ty, prog.ptr_bits) if ty else None
            if op in ("Add", "Sub", "Mul") and rng and a is not None and b is not None:
                ia, ib = B.interval(a), B.interval(b)
                if ia is None and isinstance(a, tuple):
                    ia = None
                if ia is not None and ib is not None:
                    r = B.interval(("bin", op, a, b, ty))
                    if r is not None and rng[0] <= r[0] and r[1] <= rng[1]:
                        return True, "type-derived intervals: %s %s %s within %s" % (ia, op, ib, ty)
                # guard-derived: x + c with a dominating fact x < y (unsigned): x + c <= max when c == 1 and x < something of the same type
                if op == "Add" and T.const_int(b) is not None:
                    e = B.aff(a)
                    for r_ in B.rel:
                        # r_: (y - x - 1 >= 0) -> x <= y - 1 <= max - 1 -> x + 1 <= max
                        neg = r_.add(e)   # y - 1 + (other)
                        if T.const_int(b) == 1 and r_.c == -1 and any(v == -1 and Aff(0, {k: 1}) == e for k, v in r_.m.items()):
                            return True, "dominating comparison bounds the operand strictly below another value of the same type"
            if op == "Add" and ty in ("usize", "u64") and prog.ptr_bits == 64 and T.const_int(b) == 1 and _unit_counter(body, t["ops"][0]):
                return True, "64-bit counter that starts at a constant and only ever grows by one per step: overflow needs 2^64 steps"
            if op in ("Shl", "Shr") and b is not None:
                ib = B.interval(b)
                if ib is not None and rng and 0 <= ib[0] and ib[1] < (rng[1].bit_length() if rng[0] == 0 else rng[1].bit_length() + 1):
                    return True, "shift amount interval %s within the type width" % (ib,)
            return False, None
        if msg in ("DivisionByZero", "RemainderByZero"):
            return False, None
        if msg == "BoundsCheck":
            ln = body.origin_op(t["ops"][0], bb, len(body.blocks[bb]["stmts"]))
            ix = body.origin_op(t["ops"][1], bb, len(body.blocks[bb]["stmts"]))
            # an item of `chunks_exact(n)` has exactly n elements
            it = T.find(ln, lambda x: isinstance(x, tuple) and x[0] == "somepayload" and T.is_call(T.peel(x[1], payloads=False), r"ChunksExact<'a, T> as std::iter::Iterator>::next$"))
            if it is not None and T.const_int(ix) is not None:
                chx = T.find(it, lambda x: T.is_call(x, r"slice::<impl \[T\]>::chunks_exact$"))
                n_ = T.const_int(chx[2][1]) if chx is not None else None
                if n_ is not None and 0 <= T.const_int(ix) < n_:
                    return True, "constant index %d into an item of chunks_exact(%d)" % (T.const_int(ix), n_)
            # `map(take(k), |s| s[i])`: inside the closure the parameter is exactly what `take(k)` yielded, k bytes — at every site that
            # builds this closure
            ln_of = ln[2] if isinstance(ln, tuple) and ln and ln[0] == "un" and ln[1] == "PtrMetadata" else (ln[2][0] if T.is_call(ln, r"slice::<impl \[T\]>::len$") else ln)
            if "{closure" in body.path and T.const_int(ix) is not None and T.is_param(T.peel(ln_of), 2):
                ks = _mapped_take_widths(prog, body.path)
                if ks and all(k_ is not None and 0 <= T.const_int(ix) < k_ for k_ in ks):
                    return True, "constant index %d into the %s bytes nom's take() hands to this mapping closure" % (T.const_int(ix), sorted(set(ks)))
            e = B.aff(ln).add(B.aff(ix), -1).add(Aff(-1))    # len - idx - 1 >= 0
            loopvars = {}
            for x in T.walk(ix):
                n = B.loop_var_bound(x)
                if n is not None:
                    a = T.affine(x)
                    if len(a.m) == 1:
                        loopvars[list(a.m.keys())[0]] = n
            if B.prove_nonneg(e, loopvars) and not (e.m and not B.rel and not loopvars and e.c < 0):
                # guard against the trivial "all atoms nonneg" shortcut when the constant is negative
                if e.is_const() or e.c >= 0 or any((e.add(r, -1)).is_const() and (e.add(r, -1)).c >= 0 for r in B.rel) or loopvars:
                    return True, "index < length from affine bounds: len - idx - 1 = %r" % (e,)
            return False, None
    if kind == "index":
        rng = body.arg_origin(bb, 1)
        if isinstance(rng, tuple) and rng[0] == "agg" and (rng[2] or "").endswith("ops::RangeFull"):
            return True, "RangeFull indexing cannot panic"
        B = Bounds(body, bb, prog.ptr_bits)
        recv = body.arg_origin(bb, 0)
        if isinstance(rng, tuple) and rng[0] == "agg" and (rng[2] or "").endswith("ops::RangeFrom"):
            e = B.len_atom(recv).add(B.aff(rng[4][0]), -1)   # len - a >= 0
            if e.is_const() and e.c >= 0:
                return True, "range start within constant length"
            for r in B.rel:
                d = e.add(r, -1)
                if d.is_const() and d.c >= 0:
                    return True, "range start <= length from a dominating fact (len - start = %r)" % (e,)
        return False, None
    if kind == "slice-op" and re.search(r"::(chunks_exact|chunks)$", cname(t["func"])):
        n = T.const_int(body.arg_origin(bb, 1))
        if n is not None and n > 0:
            return True, "chunk size is the non-zero constant %d" % n
        return False, None
    if kind == "slice-op" and re.search(r"split_at(_mut)?$", cname(t["func"])):
        B = Bounds(body, bb, prog.ptr_bits)
        recv = body.arg_origin(bb, 0)
        k = body.arg_origin(bb, 1)
        # the pending write buffer always holds its 4 header bytes (initial vec![0; 4], truncate(4): C04.header-equals-payload evaluates both)
        if T.const_int(k) is not None and 0 <= T.const_int(k) <= 4 and T.is_field(T.peel(recv, extra_rx=r"(Deref>::deref|DerefMut>::deref_mut|as_mut_slice|as_slice)$"), "to_write"):
            return True, "split point %d within the 4 header bytes the pending buffer always holds" % T.const_int(k)
        e = B.len_atom(recv).add(B.aff(k), -1)              # len - k >= 0
        if e.is_const() and e.c >= 0:
            return True, "split point within constant length"
        if e.m and e.c >= 0 and all(c_ > 0 for c_ in e.m.values()) and B.prove_nonneg(e, {}):
            # k = len - r with r an unsigned quantity: len - k = r >= 0 (the subtraction itself is a separate obligation)
            return True, "split point = length minus an unsigned quantity (len - k = %r)" % (e,)
        for r in B.rel:
            d = e.add(r, -1)
            if d.is_const() and d.c >= 0:
                return True, "split point <= length from a dominating comparison"
        # `if k > len { Err } else { split_at(k) }`: fact Gt(k, len) false
        return False, None
    return False, None


def run(ctx, configs=None):
    for cfg in (configs or CONFIGS):
        prog = ctx.prog(cfg)
        roles, eff = effects.build(prog)
        fns = client_fns(prog, roles)
        ctx.rule("C20.panic-obligations", "every panic-capable construct in client-path functions is discharged, reasoned, or a finding")
        ctx.rule("C20.loop-progress", "every loop in client-path functions is an iterator loop, the reader loop or the command loop")
        ctx.rule("C20.nullmap-some", "the parameter iterator's nullmap is Some whenever it is examined")
        nsites = 0
        nauto = 0
        for path in sorted(fns):
            b = prog.bodies[path]
            ss = panics.sites(b)
            if not ss:
                continue
            ctx.fn(b)
            ords = {}
            # sites are keyed by the function that owns them, closures included: moving a panicking expression into (or out of) a
            # closure of the same function does not make it a different site
            owner = re.sub(r"(::\{closure#\d+\})+$", "", path)
            for kind, bb, t in ss:
                nsites += 1
                callee = cname(t["func"]) if t["k"] == "call" else t["msg"]
                ok, how = auto_discharge(b, kind, bb, t, prog)
                if ok:
                    nauto += 1
                    ctx.ob("C20.panic-obligations", True, "", fn=path, construct=kind, callee=callee, nontrivial=True, key_extra={"bb_kind": kind},
                           sample={"rule": "panic-obligations", "site": b.where(bb), "kind": kind, "discharged_by": how} if nauto % 9 == 1 else None)
                    continue
                reason = None
                for frx, krx, crx, _ord, why in REASONED:
                    # functions are named by role where one exists (the reader, the packet terminator, the command loop), so that
                    # merging / renaming them does not orphan the reasoning; call sites carry their argument types and origin
                    frx = frx.replace("{F_READ}", re.escape(roles.f_read.path)).replace("{F_TERM}", re.escape(roles.f_term.path)).replace("{F_RUN}", re.escape(roles.f_run.path))
                    callee_s = callee
                    if t["k"] == "call":
                        callee_s = callee + " :: " + ",".join(t.get("arg_tys") or [])
                        if t["args"]:
                            callee_s += " <- " + term_str(b.arg_origin(bb, 0))[:160]
                    if re.search(frx, path) and re.search(krx, kind) and (crx is None or re.search(crx, callee_s)):
                        reason = why
                        break
                if reason:
                    ctx.ob("C20.panic-obligations", True, "", fn=owner, construct=kind, callee=callee, nontrivial=False)
                    ctx.note("reasoned: %s %s %s: %s" % (path, kind, b.where(bb), reason))
                    continue
                macro = (t.get("exp") or {}).get("descr")
                ctx.ob("C20.panic-obligations", False,
                       "client-reachable panic site not discharged: %s%s in %s" % (kind, (" " + callee.split("::")[-1]) if t["k"] == "call" else "", path.split("::")[-1]) +
                       ((" (%s)" % macro) if macro else ""),
                       fn=owner, construct=kind, callee=callee, where=b.where(bb))
        ctx.floor("C20.panic-obligations", "panic-capable sites in client-path functions (%s)" % cfg, nsites, 60 if cfg == "tls" else 50)

        # ---- nullmap is Some when examined --------------------------------------------------------
        from engines.paths import enumerate_paths
        nxt = prog.one(r"^<params::Params<'a> as std::iter::Iterator>::next$")
        pan = [bb for k, bb, t in panics.sites(nxt) if k == "panic"]
        reach_pan = 0
        npaths = 0
        for p in enumerate_paths(nxt, max_visits=2):
            npaths += 1
            if any(b in pan for b in p.blocks):
                reach_pan += 1
        ctx.ob("C20.nullmap-some", reach_pan == 0, "the unreachable!() of the parameter iterator lies on %d feasible enumerated paths" % reach_pan, fn=nxt.path,
               construct="unreachable", sample={"rule": "nullmap-some", "paths": npaths})

        # ---- iterator progress: a shim looping over the parameters must terminate ---------------------
        from engines.prog import place_fields
        ctx.rule("C20.iterator-progress", "every Some(..) of the parameter iterator advances the column index (a `for p in params` loop in the shim terminates)")
        nsome = 0
        for p in enumerate_paths(nxt, max_visits=2):
            if p.end != "return":
                continue
            rv = p.return_value()
            if rv[0] == "agg" and rv[3] == "Some":
                nsome += 1
                adv = sum(1 for blk in p.blocks for s_ in nxt.blocks[blk]["stmts"] if s_["k"] == "assign" and place_fields(s_["lhs"]) == ["col"])
                ctx.ob("C20.iterator-progress", adv >= 1, "the parameter iterator yields a value without advancing: a shim iterating the parameters never returns (connection wedged)",
                       fn=nxt.path, construct="advance", where=nxt.where(p.blocks[-1]))
        ctx.floor("C20.iterator-progress", "yielding paths of the parameter iterator (%s)" % cfg, nsome, 3)

        # ---- loop progress ------------------------------------------------------------------------
        nloops = 0
        for path in sorted(fns):
            b = prog.bodies[path]
            for h, blks in b.loops().items():
                nloops += 1
                kindl = None
                # iterator loop: header (or a block in it) calls Iterator::next and the loop exits on None
                its = [bb for bb in blks if b.term(bb)["k"] == "call" and re.search(r"Iterator::next$|Iterator>::next$|Range<A>>::next$", cname(b.term(bb)["func"]))]
                if its:
                    src = b.arg_origin(its[0], 0)
                    finite = T.contains(src, lambda x: isinstance(x, tuple) and x[0] == "agg" and (x[2] or "").endswith("ops::Range")) or \
                        T.contains(src, lambda x: T.is_call(x, r"IntoIterator>?::into_iter$|slice::<impl \[T\]>::(iter|chunks_exact|chunks)$"))
                    if finite:
                        kindl = "iterator"
                if kindl is None:
                    back = [(x, y) for (x, y) in b.back_edges() if y == h]
                    if b.path == roles.f_read.path:
                        rd = {bb for (_, bb, _) in roles.read_sites if _ is not None} if False else {bb for (bd, bb, tt) in roles.read_sites}
                        ok = all(_must_pass(b, h, src_bb, rd) for src_bb, _ in back)
                        kindl = "reader" if ok else None
                    elif b.path == roles.f_run.path:
                        rd = {bb for bb, t in b.calls() if cname(t["func"]) == roles.f_read.path}
                        ok = all(_must_pass(b, h, src_bb, rd) for src_bb, _ in back)
                        kindl = "command" if ok else None
                ctx.ob("C20.loop-progress", kindl is not None, "loop at %s in %s is neither a finite iterator loop nor guarded by the transport read" % (b.where(h), path),
                       fn=path, construct="loop", where=b.where(h), sample={"rule": "loop-progress", "fn": path, "kind": kindl})
        ctx.floor("C20.loop-progress", "loops in client-path functions (%s)" % cfg, nloops, 3)
        # the reader loop leaves when read == 0: no cycle through the loop on which the transport returned 0 bytes (or
        # on which that was not tested) — otherwise a closed connection makes the server spin
        fr = roles.f_read
        rd = {bb for (bd, bb, tt) in roles.read_sites}
        ncyc = 0
        for h in fr.loops():
            for p in enumerate_paths(fr, start=h, stop_second={h}, max_visits=2):
                if p.end != "stop" or not any(b in rd for b in p.blocks):
                    continue
                ncyc += 1
                verdict = None
                for i, blk in enumerate(p.blocks[:-1]):
                    t = fr.term(blk)
                    if t["k"] == "switch" and "0" in t["vals"]:
                        v = p.origin_op(t["discr"], i)
                        if isinstance(v, tuple) and v[0] == "bin" and v[1] in ("Eq", "Ne") and T.is_const_int(v[3], 0) and \
                                T.contains(v[2], lambda x: T.is_call(x, r"std::io::Read>::read$|^std::io::Read::read$")):
                            truth = p.blocks[i + 1] != t["tgts"][t["vals"].index("0")]
                            is_zero = truth if v[1] == "Eq" else not truth
                            verdict = is_zero if verdict is None else verdict
                        elif isinstance(v, tuple) and v[0] in ("okpayload", "field", "variant", "cast") and \
                                T.contains(v, lambda x: T.is_call(x, r"std::io::Read>::read$|^std::io::Read::read$")):
                            # the byte count itself is switched on (`match read { 0 => .. }`, `match (read, remaining) { (0, 0) => .. }`)
                            is_zero = p.blocks[i + 1] == t["tgts"][t["vals"].index("0")]
                            verdict = is_zero if verdict is None else verdict
                ctx.ob("C20.loop-progress", verdict is False, "the reader loop can go around after the transport returned %s bytes: a closed connection would spin" % ("0" if verdict else "an untested number of"),
                       fn=fr.path, construct="read-zero-leaves", where=fr.where(p.blocks[-1]), sample={"rule": "loop-progress/read-zero", "cycle_blocks": len(p.blocks)})
        ctx.floor("C20.loop-progress", "cycles of the reader loop through the transport read (%s)" % cfg, ncyc, 1)
        # a complete but malformed message must be refused (Failure), not answered with `read more` (Error/Incomplete):
        # otherwise the server waits for bytes the client will never send (wedge)
        psites = [bb for bb, t in fr.calls() if cname(t["func"]) in prog.bodies and t["args"] and "[u8]" in (t.get("arg_tys") or [""])[0] and
                  "nom::" in prog.bodies[cname(t["func"])].raw.get("sig_out", "")]
        nb = 0
        for pb_ in psites:
            for fn_, b_, bb_, i_, vname in readloop.built_verdicts(prog, cname(fr.term(pb_)["func"])):
                nb += 1
                ctx.ob("C20.loop-progress", vname == "Failure", "%s answers a malformed message with nom::Err::%s, which the reader takes as `read more`: the connection would wait forever" % (fn_, vname),
                       fn=fn_, construct="built-verdict", callee=vname, where=b_.where(bb_, i_))
        ctx.floor("C20.loop-progress", "verdicts built by the framing parsers (%s)" % cfg, nb, 1)


def _must_pass(body, header, back_src, through):
    """Every cycle header -> ... -> back_src -> header passes a block of `through`."""
    if header in through or back_src in through:
        return True
    reach = body.reachable(header, avoid=set(through))
    return back_src not in reach
