#!/bin/sh
# Offline setup: build the analysis driver and pre-check /repo's dependency graph for both
# feature configurations into /verif/.cache (so that later extractions take ~1 s).
set -e
cd "$(dirname "$0")"
export CARGO_NET_OFFLINE=true
(cd driver && cargo +nightly build --release --offline)
python3 engines/extract.py tls notls
