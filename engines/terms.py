"""Matching helpers over origin terms (see prog.py / paths.py for their shape)."""
import re

PASS_CALLS = re.compile(
    r"(Deref::deref|DerefMut::deref_mut|Borrow::borrow|BorrowMut::borrow_mut|AsRef::as_ref|AsMut::as_mut|"
    r"Option::<T>::unwrap|Result::<T, E>::unwrap|Option::<T>::expect|Result::<T, E>::expect|"
    r"Option::<T>::as_mut|Option::<T>::as_ref|IntoIterator::into_iter|Vec::<T, A>::as_slice|"
    r"<.* as std::ops::Deref>::deref|<.* as std::ops::DerefMut>::deref_mut|str::<impl str>::as_bytes|"
    r"String::as_bytes|std::hint::must_use|<.* as std::convert::AsRef<.*>>::as_ref|<.* as std::borrow::Borrow<.*>>::borrow|"
    r"<.* as std::iter::IntoIterator>::into_iter|slice::<impl \[T\]>::iter|Index::index|<.* as std::ops::Index<.*>>::index)$")


def children(t):
    if not isinstance(t, tuple) or not t:
        return
    k = t[0]
    if k == "call":
        for a in t[2]:
            yield a
    elif k in ("field", "variant", "okpayload", "somepayload", "errpayload", "errresidual", "cast", "un", "discr", "subslice", "repeat"):
        yield t[1] if k != "un" else t[2]
    elif k == "bin":
        yield t[2]
        yield t[3]
    elif k == "agg":
        for a in t[4]:
            yield a
    elif k == "phi":
        for a in t[1]:
            yield a
    elif k == "index":
        yield t[1]
        yield t[2]


def walk(t, depth=0):
    if depth > 80:
        return
    yield t
    for c in children(t):
        yield from walk(c, depth + 1)


def find(t, pred):
    for x in walk(t):
        if pred(x):
            return x
    return None


def contains(t, pred):
    return find(t, pred) is not None


def is_call(t, rx):
    return isinstance(t, tuple) and t[0] == "call" and re.search(rx, t[1]) is not None


def is_param(t, idx=None, name=None):
    return isinstance(t, tuple) and t[0] == "param" and (idx is None or t[1] == idx) and (name is None or t[2] == name)


def is_const_int(t, v=None):
    return isinstance(t, tuple) and t[0] == "const" and t[1][0] == "int" and (v is None or t[1][1] == v)


def const_int(t):
    if isinstance(t, tuple) and t[0] == "const" and t[1][0] == "int":
        return t[1][1]
    return None


def const_bytes(t):
    if isinstance(t, tuple) and t[0] == "const" and t[1][0] == "bytes":
        return t[1][1]
    return None


def is_field(t, name):
    return isinstance(t, tuple) and t[0] == "field" and t[2] == name


def variant_field(t):
    """('Execute', 'stmt', base) if t is a field of an enum variant downcast, else None."""
    if isinstance(t, tuple) and t[0] == "field" and isinstance(t[1], tuple) and t[1][0] == "variant":
        return (t[1][2], t[2], t[1][1])
    return None


def peel(t, extra_rx=None, payloads=True, casts=False):
    """Strip pass-through wrappers: payload projections, unwrap/deref/borrow-like calls."""
    n = 0
    while isinstance(t, tuple) and n < 100:
        n += 1
        k = t[0]
        if payloads and k in ("okpayload", "somepayload"):
            t = t[1]
        elif k == "call" and (PASS_CALLS.search(t[1]) or (extra_rx and re.search(extra_rx, t[1]))) and t[2]:
            t = t[2][0]
        elif casts and k == "cast":
            t = t[1]
        else:
            break
    return t


def same(a, b):
    return a == b
