"""Shared rule over the transport reader's loop: the transport is (re-)read without a parse attempt only on a
path that established that nothing is buffered (`remaining == 0`).

Two families of paths are examined: from the loop header (or function entry) to the read, and from the read round to the
read again.  On such a path that does not pass the packet parser, some decision must test the *current* value of the
`remaining` field against zero and take the zero side.  A stronger gate (a `looks complete` predicate, a byte-count
threshold, `the last read filled the buffer`) can leave a completely received command unparsed while the server waits."""
from .paths import enumerate_paths
from . import terms as T
from .prog import term_str


def _remaining_place(fr):
    for bb, i, s in fr.stmts():
        if s["k"] != "assign":
            continue
        for e in s["lhs"]["p"]:
            if isinstance(e, dict) and e.get("n") == "remaining" and s["lhs"]["l"] == 1:
                return {"l": 1, "p": ["deref", e]}
    return None


def establishes_empty(fr, p, rem_place):
    """(True/False, [other decisions]) — does some decision on p test the current `remaining` against 0 and find it 0?"""
    gates = []
    for i, blk, v, truth in p.decisions():
        if isinstance(v, tuple) and v[0] == "bin" and v[1] in ("Ne", "Eq") and T.is_const_int(v[3], 0):
            cur = p.origin_place(rem_place, i) if rem_place is not None else None
            if T.is_field(T.peel(v[2]), "remaining") or (cur is not None and cur[0] != "unknown" and v[2] == cur):
                if (v[1] == "Eq") == truth:
                    return True, gates
                continue
        gates.append(term_str(v)[:70])
    return False, gates


def unparsed_reads(fr, read_bb, parser_bbs, starts):
    """[(kind, path, ok, gates)] for every path from a start (`entry`/header block, or the read itself) to the read that
    does not pass a parser call."""
    rem = _remaining_place(fr)
    out = []
    for kind, st in starts:
        for p in enumerate_paths(fr, start=st, stop_at={read_bb} | set(parser_bbs), max_visits=2 if st == read_bb else 1):
            if p.end != "stop" or p.blocks[-1] != read_bb:
                continue
            ok, gates = establishes_empty(fr, p, rem)
            out.append((kind, p, ok, gates))
    return out


def built_verdicts(prog, parser_fn):
    """[(function, body, bb, idx, variant)] for every `nom::Err` value the framing parsers construct themselves
    (everything reachable from the reader's parser call).  The reader takes Error/Incomplete as `read more`, so a
    verdict about a complete but malformed message must be `Failure`."""
    out = []
    for fn_ in sorted(prog.reachable_fns([parser_fn])):
        b = prog.bodies.get(fn_)
        if b is None or b.kind not in ("fn", "closure"):
            continue
        for bb, i, s_ in b.stmts():
            if s_["k"] == "assign" and s_["rv"]["k"] == "agg" and s_["rv"].get("ak") == "adt" and s_["rv"]["adt"] == "nom::Err":
                out.append((fn_, b, bb, i, s_["rv"]["vname"]))
    return out


def fragment_id_chain(prog, pk):
    """Obligations about the running sequence id kept while the full (0xFFFFFF) fragments of one message are folded:
    [(ok, what, body, block)].  The accumulator function handed to `fold_many0` must, on every path, replace its id
    component by the id of the fragment it was just given; and when it already holds a payload, its `in order` component
    becomes `old && new_id == old_id.wrapping_add(1)` (false stays false).  Shape-independent: the accumulator may be a
    tuple or a small struct, the function a closure or a named function."""
    from .prog import cname, term_str
    out = []
    fold = None
    for bb, t in pk.calls():
        if cname(t["func"]) == "nom::multi::fold_many0":
            fold = (bb, t)
    if fold is None:
        return [(False, "no fold over the full fragments found in the packet parser", pk, 0)]
    g = pk.arg_origin(fold[0], 2)
    gp = None
    if isinstance(g, tuple) and g[0] == "agg" and g[1] == "closure":
        gp = g[2]
    elif isinstance(g, tuple) and g[0] == "const" and g[1][0] in ("closure", "fn"):
        gp = g[1][1]
    gb = prog.bodies.get(gp) if gp else None
    if gb is None:
        return [(False, "the accumulator function of the fragment fold is not a local function or closure", pk, fold[0])]
    acc_i, item_i = (2, 3) if gb.kind == "closure" else (1, 2)

    def is_item_id(t):
        t = T.peel(t)
        return isinstance(t, tuple) and t[0] == "field" and t[3] == 0 and T.is_param(T.peel(t[1]), item_i)

    def acc_field(t):
        t = T.peel(t)
        if isinstance(t, tuple) and t[0] == "field" and T.is_param(T.peel(t[1]), acc_i):
            return t[3]
        return None
    rows = []
    for p in enumerate_paths(gb, max_visits=1):
        if p.end != "return":
            continue
        rv = p.return_value()
        if not (isinstance(rv, tuple) and rv[0] == "agg"):
            continue
        # did this path find a payload in the accumulator?
        had = None
        for i, blk in enumerate(p.blocks[:-1]):
            tt = gb.term(blk)
            if tt["k"] == "switch":
                v = p.origin_op(tt["discr"], i)
                if isinstance(v, tuple) and v[0] == "discr" and acc_field(v[1]) is not None:
                    taken = [x for x, g_ in zip(tt["vals"], tt["tgts"]) if g_ == p.blocks[i + 1]]
                    had = taken == ["1"] or (not taken and "1" not in tt["vals"])
        rows.append((p, rv[4], had))
    if not rows:
        return [(False, "the accumulator function returns no aggregate", gb, 0)]
    ncomp = len(rows[0][1])
    idk = [k for k in range(ncomp) if any(len(c) == ncomp and is_item_id(c[k]) for _, c, _ in rows)]
    if len(idk) != 1:
        return [(False, "no component of the accumulator is ever set to the new fragment's sequence id", gb, 0)]
    k = idk[0]
    for p, comps, had in rows:
        ok = len(comps) == ncomp and is_item_id(comps[k])
        out.append((ok, "the fragment accumulator keeps %s as the last sequence id on a path (need the id of the fragment just folded in)" % term_str(comps[k] if len(comps) == ncomp else None)[:60],
                    gb, p.blocks[-1]))
        if had and len(comps) == ncomp:
            # some bool component must be the chained order test; find it by the Eq(new_id, wrapping_add(old_id, 1)) shape
            def is_chain(t):
                return isinstance(t, tuple) and t[0] == "bin" and t[1] == "Eq" and ((is_item_id(t[2]) and T.is_call(T.peel(t[3]), r"<impl u8>::wrapping_add$") and acc_field(T.peel(t[3])[2][0]) == k and T.is_const_int(T.peel(t[3])[2][1], 1)) or
                                                                              (is_item_id(t[3]) and T.is_call(T.peel(t[2]), r"<impl u8>::wrapping_add$") and acc_field(T.peel(t[2])[2][0]) == k and T.is_const_int(T.peel(t[2])[2][1], 1)))
            chained = any(is_chain(T.peel(c)) for c in comps)
            false_kept = any(T.is_const_int(c, 0) for c in comps)
            out.append((chained or false_kept, "a fragment is folded onto an existing payload without comparing its sequence id with the previous one + 1 (modulo 256)", gb, p.blocks[-1]))
    return out
