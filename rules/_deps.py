"""Which rule sets a property's check evaluates in addition to its own, and why.

A property stated as `X reaches the other side exactly` presupposes every layer between the code that implements X and the
wire (or the shim): a change in one of those layers breaks X although X's own anchors are untouched.  Round 4 and, above all,
the site-constrained round 6 of seeded changes showed that such changes are what a per-property rule set misses (21 of 40).

The table lists, per property, (rule file, rule ids) pairs that are *necessary conditions* of that property: breaking one of
them breaks the property's statement.  Only the listed rule ids of the included file are evaluated (its other rules and its own
inclusions are not): an unrelated clause of a neighbouring property never raises this property's alarm.  There is no
transitivity; each list is written out in full."""
import importlib
import inspect

ALL = None
XPORT_W = ("C18", ["C18.variant-delegation"])          # the transport wrappers of the TLS module hand bytes on unchanged, in order
WIRE = [("C04", ALL), ("C05", ALL), XPORT_W]            # framing + sequence ids + wrappers: every outbound clause
PARSERS = ("C02", ["C02.byte-table", "C02.fixed-fields"])   # command bytes -> Command fields (ids, indexes, parameter block)

INCLUDES = {
    # "reaches the shim exactly once, in order, byte-for-byte, however the transport chunks": the dispatcher between reader and
    # shim (C02) and the hand-over of already-read bytes at the TLS switch (C18) are on that path
    "C01": [("C02", ALL), ("C18", ["C18.tail-handoff", "C18.ownership", "C18.variant-delegation"])],
    # a delivered command presupposes a faithful reader
    # ... under TLS, read delegation of the transport wrappers; and the statement registry decides whether an EXECUTE / CLOSE the
    # client was entitled to send reaches its callback at all (C10)
    "C02": [("C01", ALL), XPORT_W, ("C10", ALL)],
    # a response a conformant decoder accepts: its header (C09) and the wire layer
    # ... plus: a command the parser wrongly refuses gets no response at all (PARSERS); the handshake's own replies (C11.gate)
    # ... a binary row a decoder accepts has the right bitmap length and header (C07); "emits" includes the flush (C12)
    "C03": [("C09", ALL), PARSERS, ("C11", ["C11.gate"]), ("C07", ["C07.bitmap-arith", "C07.row-prefix"]),
            ("C12", ["C12.clean-at-read", "C12.flush-is-complete"]), ("C06", ["C06.one-cell", "C06.row-boundary"]),
            ("C13", ["C13.err-on-packet-boundary"])] + WIRE,   # and text rows made of well-formed cells; a pending row is ended before its terminator
    # ... and the writer of a message ends it whatever the buffer looks like: a row that filled its last packet exactly still
    # needs its (empty) terminator, which only end_row -> end_packet sends (C13's rule on finish_inner ending a pending row)
    # ... and a message whose writer failed (the error was deferred) is not framed and sent as if it were complete: the flush
    # reports the deferred error before it ends the pending packet (C19.deferred-error; round 14, C04-C)
    "C04": [XPORT_W, ("C13", ["C13.err-on-packet-boundary"]), ("C19", ["C19.deferred-error"])],
    "C05": [("C04", ALL), XPORT_W],
    # rows arrive unchanged only behind a correct resultset header and wire layer
    # ... and the last row, written cell by cell and left to Drop / finish, is ended as its own packet before the terminator is
    # written (else the terminator's bytes are appended to the row: C13.err-on-packet-boundary; round 14, C06-C)
    "C06": [("C09", ALL), ("C13", ["C13.err-on-packet-boundary"])] + WIRE,
    # C07 also: integer cells of a binary row (C15's exact-or-refused) — the row is "decoded to exactly the values written"
    "C07": [("C09", ALL), ("C15", ["C15.exact-or-refused", "C15.completeness"]), ("C13", ["C13.err-on-packet-boundary"])] + WIRE,
    # parameters: type table (C16), long data (C17), statement registry (C10), command parsers, reassembly of the payload (C01)
    "C08": [("C16", ALL), ("C17", ALL), ("C10", ALL), PARSERS, ("C01", ALL)],
    "C09": WIRE,
    # statement ids are what the command parsers deliver
    # ... a framing bug that splits one message into two manufactures commands (a phantom CLOSE); "CLOSE produces no reply": no
    # stray terminator packet may be pending when the flush after a reply-less command runs (C04.empty-terminator)
    "C10": [PARSERS, ("C01", ALL), ("C04", ["C04.empty-terminator"])],
    # the OK / ERR that end the handshake must be flushed and carry the next sequence id in a well-formed packet
    # ... and the ERR that answers a rejected login has the ERR layout (code, '#', SQLSTATE, message) whatever the client announced
    # ... the handshake response is read through the same reader as every command (C01)
    "C11": [("C12", ["C12.flush-is-complete"]), ("C13", ["C13.err-layout"]), ("C01", ALL)] + WIRE,
    # "already been answered": every command's reply is complete (reply per command, list terminators) before the server waits again
    # ... including the terminator a dropped writer still owes (C03.drop-finalises / finalize-first)
    # ... and a writer that could NOT finish its reply on drop hands the error to the next flush, which ends the connection instead of
    # going back to wait with the command unanswered (C19.deferred-error; round 14, C12-C)
    "C12": [("C03", ["C03.reply-effects", "C03.drop-finalises", "C03.finalize-first"]), ("C09", ["C09.eof-policy", "C09.count-packet"]), XPORT_W,
            ("C19", ["C19.deferred-error"])],
    "C13": [("C12", ["C12.clean-at-read", "C12.flush-is-complete"])] + WIRE,   # "reaches the client": written AND flushed
    # a completion is attributed to its command only if every command gets exactly one response
    # ... a completion stored for an earlier resultset of the reply is written before whatever follows it (C03.finalize-first; round 14, C14-B)
    "C14": [("C03", ["C03.reply-effects", "C03.finalize-first"]), ("C11", ["C11.gate"])] + WIRE,     # incl. the handshake: exactly one reply to the login
    # what the client decodes depends on the announced column (C09) and on where the value sits in the row (bitmap length, header)
    # ... and, in the text protocol, on the decimal text being the value's own `{}` rendering (C06.int-text: the integer part of C06.text-grammar)
    "C15": [("C09", ALL), ("C07", ["C07.bitmap-arith", "C07.row-prefix"]), ("C06", ["C06.int-text"])] + WIRE,   # a fixed-width integer behind a 16 MiB cell sits where the framing puts it
    # per-statement state: the registry entry's life cycle (C10) and the parsers that delimit the parameter block / long data
    # ... the reassembled payload (C01) and the decoder honouring the (type, unsigned) pair it is given (C08.value-layouts)
    "C16": [("C10", ALL), PARSERS, ("C01", ALL), ("C08", ["C08.value-layouts"])],
    "C17": [("C10", ALL), PARSERS, ("C01", ALL)],
    # the encrypted handshake response is parsed by the handshake parser; everything after the switch uses the wire layer
    # ... "however the transport coalesces or splits the SSL request and the following TLS records across reads": the reader (C01)
    "C18": [("C11", ["C11.response-layout", "C11.username-flow"]), ("C01", ALL)] + WIRE,
    # the flush that reports a deferred error is C12's
    # ... Ok "exactly when the client quits": which command bytes mean Quit is the parser's byte table
    # ... an error "only when something failed": the reader must never hand the transport an empty buffer and take its Ok(0) for the
    # end of the stream (C01.window-invariant, clauses d0/d/e)
    # ... "makes run_on return an error": it has to return — every loop on the client path leaves when the transport reports the end
    # of the stream or makes no progress (C20.loop-progress)
    "C19": [("C12", ALL), ("C02", ["C02.byte-table"]), ("C01", ["C01.window-invariant"]), ("C20", ["C20.loop-progress"])],
    # the parameter iterator unwraps the value parser's result (a known finding): every input the value parser refuses is a crash,
    # so the set it accepts is part of this property until that finding is repaired
    # ... and the parameter count the iterator slices by is the registry's, which must be the one announced (C10)
    # ... and it indexes the statement's bound-type table, which must still hold the last binding when an execution carries no
    # types (C16's storage rules: a table cleared between executions is an index panic on well-formed input; round 14, C20-B)
    # ... "a conformant reply or an error return": a reply whose ERR / terminator is appended to a half-written row is neither
    # (C13.err-on-packet-boundary; round 14, C20-C)
    "C20": [("C08", ["C08.value-layouts"]), ("C10", ["C10.registry-ownership", "C10.fresh-on-prepare"]),
            ("C16", ["C16.per-statement-storage", "C16.rebind-replaces"]), ("C13", ["C13.err-on-packet-boundary"])],
}


def run_includes(ctx, prop):
    done = set()
    for name, rules in INCLUDES.get(prop, []):
        key = (name, tuple(rules) if rules else None)
        if key in done or name == prop:
            continue
        done.add(key)
        mod = importlib.import_module("rules." + name)
        own = name + "."
        if rules is ALL:
            flt = lambda r, own=own: r.startswith(own) or r in ("anchor-missing", "analysis-budget")
        else:
            rs = set(rules)
            flt = lambda r, rs=rs: r in rs
        kw = {}
        if "configs" in inspect.signature(mod.run).parameters:
            kw["configs"] = [c for c in getattr(mod, "CONFIGS", ["tls"]) if c in ctx.progs] or ["tls"]
        prev = ctx.rule_filter
        ctx.rule_filter = flt
        try:
            mod.run(ctx, **kw)
        finally:
            ctx.rule_filter = prev
