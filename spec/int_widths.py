"""Binary protocol integer widths per column type (bytes on the wire); signedness comes from the
UNSIGNED flag of the column definition."""
WIDTH = {"MYSQL_TYPE_TINY": 1, "MYSQL_TYPE_SHORT": 2, "MYSQL_TYPE_YEAR": 2, "MYSQL_TYPE_INT24": 4, "MYSQL_TYPE_LONG": 4, "MYSQL_TYPE_LONGLONG": 8}
UNSIGNED_FLAG = 32
