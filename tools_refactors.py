#!/usr/bin/env python3
"""Run every claimed check against behaviour-preserving refactorings (must stay silent).
usage: tools_refactors.py <dir-with-refactorN.diff> ...   (or the filed ones under selftest/equivalents)"""
import glob, json, os, re, shutil, subprocess, sys, tempfile
from concurrent.futures import ThreadPoolExecutor
HERE = os.path.dirname(os.path.abspath(__file__))
claimed = [c["property_id"] for c in json.load(open(os.path.join(HERE, "MANIFEST.json")))["checks"]]
patches = []
for a in sys.argv[1:] or [os.path.join(HERE, "selftest", "equivalents")]:
    patches += sorted(glob.glob(os.path.join(a, "*.diff")))

def one(patch):
    scratch = tempfile.mkdtemp(prefix="msqlx-rf-"); evd = tempfile.mkdtemp(prefix="msqlx-ev-")
    try:
        subprocess.run(["rsync", "-a", "--exclude", "target", "--exclude", ".git", "/repo/", scratch + "/"], check=True)
        r = subprocess.run(["patch", "-p1", "-s", "--no-backup-if-mismatch", "-i", patch], cwd=scratch, capture_output=True, text=True)
        if r.returncode != 0:
            return (patch, "PATCH-FAILED", [])
        alarms = []
        for prop in claimed:
            r = subprocess.run([os.path.join(HERE, "check"), prop], env=dict(os.environ, MSQLX_REPO=scratch, MSQLX_EVIDENCE_DIR=evd), capture_output=True, text=True, cwd=HERE)
            if r.returncode != 0:
                rules = sorted(set(re.findall(r"violation rule=(\S+)", r.stdout)))
                first = [l.strip()[:260] for l in r.stdout.splitlines() if "violation rule" in l][:2]
                alarms.append((prop, r.returncode, rules, first))
        return (patch, "SILENT" if not alarms else "ALARM", alarms)
    finally:
        shutil.rmtree(scratch, ignore_errors=True); shutil.rmtree(evd, ignore_errors=True)

with ThreadPoolExecutor(max_workers=3) as ex:
    for patch, status, alarms in ex.map(one, patches):
        print("%-60s %s" % ("/".join(patch.split("/")[-2:]), status))
        for prop, rc, rules, first in alarms:
            print("      %s rc=%d %s" % (prop, rc, ",".join(rules)))
            for f in first: print("          " + f)
