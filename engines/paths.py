"""Path-sensitive view of a MIR body: bounded enumeration of CFG paths (normal edges), with
path-precise def-use (the value of a local at a point is found by scanning *that path*
backwards), constant folding and pruning of branches whose condition folds to a constant.

This is trace partitioning for the dataflow rules; there is no solver and nothing is executed:
values are origin terms (see prog.py) simplified syntactically.
"""
from .prog import (cname, op_const, op_place, place_key, _freeze_const, _simplify, _mk_field, int_range, fold, _cint, _wrap)


import re as _re0
_SCALARISH = _re0.compile(r"^([iu](8|16|32|64|128|size)|bool)$|Flags$")


class TooManyPaths(Exception):
    pass


def _strip(k):
    """place key without derefs (references are transparent for overlap purposes)"""
    return tuple(x for x in k if x != "*")


def _overlap(k1, k2):
    a, b = _strip(k1), _strip(k2)
    n = min(len(a), len(b))
    return a[:n] == b[:n]


class Path:
    """A sequence of basic blocks b0 -> b1 -> ... along normal edges of `body`."""

    __slots__ = ("body", "blocks", "end", "_cache")

    def __init__(self, body, blocks, end=None):
        self.body = body
        self.blocks = blocks
        self.end = end  # 'return' | 'stop' | 'cut' | 'diverge' | 'unreachable'
        self._cache = {}

    def __len__(self):
        return len(self.blocks)

    # ---- path-precise def-use ----------------------------------------------------------
    def _find_def(self, local, pos, sidx):
        """Last whole-local definition of `local` before (pos, sidx) on this path.
        Returns ('s', pos, i) | ('t', pos) | ('arg', local) | None."""
        body = self.body
        p = pos
        upto = sidx
        while p >= 0:
            b = self.blocks[p]
            stmts = body.blocks[b]["stmts"]
            if upto is None:
                # the terminator of block p defines its dest when followed on this path
                t = body.blocks[b]["term"]
                if t["k"] == "call" and not t["dest"]["p"] and t["dest"]["l"] == local:
                    return ("t", p)
                upto = len(stmts)
            for i in range(min(upto, len(stmts)) - 1, -1, -1):
                s = stmts[i]
                if s["k"] == "assign" and not s["lhs"]["p"] and s["lhs"]["l"] == local:
                    return ("s", p, i)
            p -= 1
            upto = None
        if 0 < local <= body.arg_count:
            return ("arg", local)
        return None

    def _find_store(self, place, pos, sidx):
        """Last assignment to exactly this place (with projections) before (pos, sidx); returns
        'clobber' when a call that received a *mutable* borrow overlapping this place, or a store
        through an overlapping path, intervenes (the value is then unknown)."""
        body = self.body
        key = place_key(place)
        base = place["l"]
        p = pos
        upto = sidx
        while p >= 0:
            b = self.blocks[p]
            stmts = body.blocks[b]["stmts"]
            if upto is None:
                t = body.blocks[b]["term"]
                if t["k"] == "call":
                    if place_key(t["dest"]) == key:
                        return ("t", p)
                    for a in t["args"]:
                        pl = op_place(a)
                        if pl is None:
                            continue
                        r = self._borrow_of(pl, p, len(stmts), base)
                        if r is not None:
                            mut, bkey = r
                            if mut and _overlap(bkey, key) and self._callee_may_write(t, a, bkey, key):
                                return "clobber"
                upto = len(stmts)
            for i in range(min(upto, len(stmts)) - 1, -1, -1):
                s = stmts[i]
                if s["k"] == "assign":
                    k2 = place_key(s["lhs"])
                    if k2 == key:
                        return ("s", p, i)
                    if k2[0] == base and 1 < len(k2) < len(key) and key[:len(k2)] == k2:
                        return ("sp", p, i, len(k2) - 1)   # store to a prefix: project the stored value
                    if k2[0] == base and len(k2) > 1 and _overlap(k2, key):
                        return "clobber"
                    if not s["lhs"]["p"] and s["lhs"]["l"] == base:
                        return None  # base re-defined: earlier stores are irrelevant
            p -= 1
            upto = None
        return None

    def _callee_may_write(self, t, arg, bkey, key):
        """A local callee handed `&mut *base` writes the read place only if its field-write summary
        says so; anything else (foreign callee, partial borrow) is assumed to write."""
        if len(_strip(bkey)) > 1:
            return True   # a borrow of a sub-place that overlaps: assume written
        f = t["func"]
        if "indirect" in f or (f.get("trait") and not f.get("rpath")):
            return True
        callee = cname(f)
        prog = self.body.prog
        if callee not in prog.bodies:
            return True
        ai = t["args"].index(arg)
        wf = prog.writes_fields(callee, ai + 1)
        if wf is None:
            return True
        fields = [x for x in _strip(key)[1:] if isinstance(x, tuple) and x[0] == "f"]
        if not fields:
            return True
        first = fields[0]
        name = str(first[2]) if first[2] is not None else str(first[1])
        return name in wf

    def version_of(self, place_keyish, pos):
        """Index (block position, statement) of the last potential write to the place before the
        end of block position pos; used to tell whether two loads see the same value."""
        fake = {"l": place_keyish[0], "p": ["deref"] + [{"f": 0, "n": n} for n in place_keyish[1:]]}
        # reuse _find_store's scan: emulate by walking and recording where it stops
        st = self._find_store(fake, pos, None)
        if st is None:
            return -1
        if st == "clobber":
            return ("c", self._last_clobber_pos(fake, pos))
        return (st[0], st[1], st[2] if len(st) > 2 else None)

    def _last_clobber_pos(self, place, pos):
        # binary-search-free: shorten the path until the clobber disappears
        for q in range(pos, -1, -1):
            if self._find_store(place, q, 0 if q < pos else None) != "clobber":
                return q
        return 0

    def _borrow_of(self, pl, pos, sidx, base, depth=0):
        """If place pl (a temporary) holds a reference derived from a borrow of a place rooted at
        `base`, return (is_mutable, place_key of the borrowed place); else None."""
        if depth > 10:
            return (True, (base,))
        if pl["l"] == base:
            # the base itself passed by value/reference: treat as a mutable use of the whole thing only when it is a &mut local
            ty = self.body.local_ty(base)
            return (ty.startswith("&mut") or ty.startswith("&'") and " mut " in ty.split(" ")[0:2].__repr__(), place_key(pl)) if pl["p"] or ty.startswith("&") else None
        d = self._find_def(pl["l"], pos, sidx)
        if d is None or d[0] != "s":
            return None
        s = self.body.blocks[self.blocks[d[1]]]["stmts"][d[2]]
        rv = s["rv"]
        if rv["k"] in ("ref", "rawptr"):
            src = rv["place"]
            mut = rv.get("mut", True)
            if src["l"] == base:
                return (mut, place_key(src))
            r = self._borrow_of(src, d[1], d[2], base, depth + 1)
            if r is not None:
                return (mut and r[0], r[1])
            return None
        if rv["k"] == "use":
            q = op_place(rv["op"])
            if q is not None:
                if q["l"] == base:
                    # copy of a reference stored inside base (e.g. `_55 = (*_25).writer`): writes through it do not alias base's own fields
                    return None
                return self._borrow_of(q, d[1], d[2], base, depth + 1)
        return None

    # ---- origin terms, path-precise -----------------------------------------------------
    def origin_op(self, op, pos, sidx=None, depth=0):
        c = op_const(op)
        if c is not None:
            return ("const", _freeze_const(c))
        return self.origin_place(op_place(op), pos, sidx, depth)

    def origin_place(self, place, pos, sidx=None, depth=0, address=False):
        """Value loaded from `place` at this point; with address=True the *place itself* (used for
        `&place`): projections over the base local's value, without consulting memory."""
        if sidx is None:
            sidx = len(self.body.blocks[self.blocks[pos]]["stmts"])
        if depth > 200:
            return ("unknown", "depth")
        # memory-like places (through deref or field of a local that is stored to piecewise):
        if place["p"] and not address:
            st = self._find_store(place, pos, sidx)
            if isinstance(st, tuple) and st[0] == "sp":
                t = self._value_of_def(("s", st[1], st[2]), depth + 1)
                return fold(self._project(t, place["p"][st[3]:], pos, sidx, depth))
            if isinstance(st, tuple):
                return self._value_of_def(st, depth + 1)
            if st == "clobber":
                return ("unknown", "clobbered:" + ".".join(str(x[2] if isinstance(x, tuple) and len(x) > 2 else x) for x in place_key(place)))
        t = self.origin_local(place["l"], pos, sidx, depth + 1)
        return fold(self._project(t, place["p"], pos, sidx, depth))

    def _project(self, t, projs, pos, sidx, depth):
        for e in projs:
            if e == "deref":
                continue
            if e == "other":
                t = ("unknown", "proj")
            elif "f" in e:
                t = _simplify(_mk_field(t, e.get("n") if e.get("n") is not None else e["f"], e["f"]))   # every step: `(x as Some).0.0` is somepayload(x).0
            elif "dc" in e:
                t = ("variant", t, e.get("n") or e["dc"])
            elif "idx" in e:
                t = ("index", t, self.origin_local(e["idx"], pos, sidx, depth + 1))
            elif "cidx" in e:
                t = ("index", t, ("const", ("int", e["cidx"], "usize")))
            elif "sub" in e:
                t = ("subslice", t, e["sub"][0], e["sub"][1], e["from_end"])
            t = _simplify(t)
        return t

    def origin_local(self, local, pos, sidx, depth=0):
        ck = (local, pos, sidx)
        if ck in self._cache:
            return self._cache[ck]
        d = self._find_def(local, pos, sidx)
        if d is None:
            r = ("unknown", "nodef:_%d" % local)
        else:
            r = self._value_of_def(d, depth + 1)
            if d[0] in ("s", "t") and _SCALARISH.search(self.body.local_ty(local) or ""):
                r = self._apply_local_mutations(local, d, pos, r, depth)
        self._cache[ck] = r
        return r

    def _apply_local_mutations(self, local, d, pos, r, depth):
        """A scalar / bitflags local that is handed out as `&mut local` after its definition (`flags |= X`, `status.set(F, true)`,
        `n += 1` through a helper) no longer holds the defining value: fold the known bitflags mutators into the term, make
        anything else unknown."""
        body = self.body
        for q in range(d[1], pos):
            if d[0] == "t" and q == d[1]:
                continue
            t = body.blocks[self.blocks[q]]["term"]
            if t["k"] != "call" or not t["args"] or "indirect" in t["func"]:
                continue
            a0 = op_place(t["args"][0])
            if a0 is None or a0["p"]:
                continue
            dd = self._find_def(a0["l"], q, None)
            if dd is None or dd[0] != "s":
                continue
            if d[0] == "s" and (dd[1], dd[2]) < (d[1], d[2]):
                continue
            rv = body.blocks[self.blocks[dd[1]]]["stmts"][dd[2]]["rv"]
            if not (rv["k"] == "ref" and rv.get("mut", False) and rv["place"]["l"] == local and not rv["place"]["p"]):
                continue
            name = cname(t["func"])
            m = _re.search(r"::(bitor_assign|insert|set|remove|toggle|bitand_assign|bitxor_assign|sub_assign)$", name)
            arg1 = self.origin_op(t["args"][1], q, None, depth + 1) if len(t["args"]) > 1 else None
            if m and m.group(1) in ("bitor_assign", "insert") and arg1 is not None:
                r = ("call", name[:-len(m.group(1))] + "union", (r, arg1), ("site", self.blocks[q]))
            elif m and m.group(1) == "set" and len(t["args"]) == 3 and _cint(self.origin_op(t["args"][2], q, None, depth + 1)) == 1:
                r = ("call", name[:-len("set")] + "union", (r, arg1), ("site", self.blocks[q]))
            else:
                r = ("unknown", "mutated:%s" % name.split("::")[-1])
        return r

    def _value_of_def(self, d, depth):
        body = self.body
        if d[0] == "arg":
            return ("param", d[1], body.local_name(d[1]))
        if d[0] == "s":
            s = body.blocks[self.blocks[d[1]]]["stmts"][d[2]]
            return fold(self.origin_rvalue(s["rv"], d[1], d[2], depth))
        t = body.blocks[self.blocks[d[1]]]["term"]
        args = tuple(self.origin_op(a, d[1], None, depth) for a in t["args"])
        return fold(("call", cname(t["func"]), args, ("site", self.blocks[d[1]])))

    def origin_rvalue(self, rv, pos, sidx, depth):
        k = rv["k"]
        if k == "use":
            return self.origin_op(rv["op"], pos, sidx, depth)
        if k in ("ref", "rawptr"):
            return self.origin_place(rv["place"], pos, sidx, depth, address=True)
        if k == "cast":
            inner = self.origin_op(rv["op"], pos, sidx, depth)
            if rv["ck"].startswith("PointerCoercion") or rv["ck"] in ("PtrToPtr", "Subtype"):
                return inner
            return ("cast", inner, rv["ty"], rv["ck"], rv["from"])
        if k == "bin":
            return ("bin", rv["op"], self.origin_op(rv["a"], pos, sidx, depth), self.origin_op(rv["b"], pos, sidx, depth), rv["ty"])
        if k == "un":
            return fold(("un", rv["op"], self.origin_op(rv["a"], pos, sidx, depth)))
        if k == "discr":
            return ("discr", self.origin_place(rv["place"], pos, sidx, depth))
        if k == "agg":
            fs = tuple(self.origin_op(f, pos, sidx, depth) for f in rv["fields"])
            if rv["ak"] == "adt":
                return ("agg", "adt", rv["adt"], rv["vname"], fs, tuple(rv.get("fnames") or ()))
            if rv["ak"] == "closure":
                return ("agg", "closure", rv["closure"], None, fs, ())
            return ("agg", rv["ak"], None, None, fs, ())
        if k == "repeat":
            return ("repeat", self.origin_op(rv["op"], pos, sidx, depth), rv["n"])
        return ("unknown", "rvalue:" + k)

    def arg(self, pos, i):
        t = self.body.blocks[self.blocks[pos]]["term"]
        return self.origin_op(t["args"][i], pos, None)

    # ---- iteration helpers -------------------------------------------------------------
    def calls(self):
        for pos, b in enumerate(self.blocks):
            t = self.body.blocks[b]["term"]
            if t["k"] == "call":
                if pos + 1 < len(self.blocks) or self.end in ("diverge",):
                    yield pos, b, t
                elif t.get("t") is None:
                    yield pos, b, t

    def decisions(self):
        """(pos, block, tested term, truth) for every boolean branch taken on the path, with leading
        negations folded into the truth value (`if !x` / `let y = !x; if y` read as a test of x)."""
        for i, blk in enumerate(self.blocks[:-1]):
            t = self.body.blocks[blk]["term"]
            if t["k"] != "switch" or "0" not in t["vals"]:
                continue
            v = self.origin_op(t["discr"], i, None)
            truth = self.blocks[i + 1] != t["tgts"][t["vals"].index("0")]
            while isinstance(v, tuple) and v[0] == "un" and v[1] == "Not":
                v = v[2]
                truth = not truth
            yield i, blk, v, truth

    def return_value(self):
        if self.end != "return":
            return None
        pos = len(self.blocks) - 1
        return self.origin_place({"l": 0, "p": []}, pos, None)


# --------------------------------------------------------------------------------------
# branch correlation: the same pure test of the same dynamic values gives the same answer
# --------------------------------------------------------------------------------------

import re as _re

PURE = _re.compile(
    r"(slice::<impl \[T\]>::(is_empty|len|starts_with|ends_with|contains|first|last)|Option::<T>::(is_none|is_some)|"
    r"Result::<T, E>::(is_ok|is_err)|Vec::<T, A>::(len|is_empty)|str::<impl str>::(len|is_empty|starts_with)|"
    r"bitflags.*::contains|::contains)$")


def memo_key(body, blocks, t, depth=0, path=None):
    """Canonical identity of a term that denotes the same dynamic value wherever it is
    re-evaluated on this path, or None when that cannot be established (memory loads, call
    sites visited twice)."""
    if depth > 30 or not isinstance(t, tuple):
        return None
    k = t[0]
    if k == "const":
        return t
    if k == "param":
        ty = body.local_ty(t[1])
        if ty.startswith("&") or ty.startswith("*"):
            return None
        return ("param", t[1])
    if k == "field" and isinstance(t[1], tuple) and t[1][0] == "param" and path is not None:
        # a load of a first-level field through a reference parameter: same value as long as nothing
        # on the path may have written it in between (versioned by the last potential write)
        ty = body.local_ty(t[1][1])
        if ty.startswith("&"):
            try:
                ver = path.version_of((t[1][1], t[2]), len(blocks) - 1)
            except Exception:
                return None
            return ("load", t[1][1], str(t[2]), ver)
    if k == "call":
        if PURE.search(t[1]):
            ks = tuple(memo_key(body, blocks, a, depth + 1, path) for a in t[2])
            if any(x is None for x in ks):
                return None
            return ("pure", t[1], ks)
        site = t[3][1] if len(t) > 3 and isinstance(t[3], tuple) else None
        if site is None or blocks.count(site) != 1:
            return None
        return ("site", t[1], site)
    if k in ("field", "variant"):
        c = memo_key(body, blocks, t[1], depth + 1, path)
        return None if c is None else (k, c, t[2])
    if k == "discr" and isinstance(t[1], tuple) and t[1][0] == "call" and isinstance(t[1][1], str) and \
            t[1][1].endswith("<std::result::Result<T, E> as std::ops::Try>::branch") and len(t[1][2]) == 1:
        # `r?` re-tests r: Ok = 0 -> Continue = 0, Err = 1 -> Break = 1, so the decision is the one about r itself
        return memo_key(body, blocks, ("discr", t[1][2][0]), depth + 1, path)
    if k in ("okpayload", "somepayload", "errpayload", "errresidual", "discr"):
        c = memo_key(body, blocks, t[1], depth + 1, path)
        return None if c is None else (k, c)
    if k == "cast":
        c = memo_key(body, blocks, t[1], depth + 1, path)
        return None if c is None else (k, c, t[2])
    if k == "bin":
        a, b = memo_key(body, blocks, t[2], depth + 1, path), memo_key(body, blocks, t[3], depth + 1, path)
        return None if a is None or b is None else (k, t[1], a, b)
    if k == "un":
        a = memo_key(body, blocks, t[2], depth + 1, path)
        return None if a is None else (k, t[1], a)
    if k == "index":
        a, b = memo_key(body, blocks, t[1], depth + 1, path), memo_key(body, blocks, t[2], depth + 1, path)
        return None if a is None or b is None else (k, a, b)
    return None


# --------------------------------------------------------------------------------------
# enumeration
# --------------------------------------------------------------------------------------

def enumerate_paths(body, start=0, stop_at=(), max_visits=2, limit=50000, prune=True,
                    avoid=(), stop_second=()):
    """Enumerate paths from `start` along normal edges.

    A path ends at: a return ('return'); a block in stop_at, which is included as last block
    ('stop'); the second visit of a block in stop_second (included, 'stop'); a block whose visit count would exceed max_visits ('cut'; the block is not
    appended); a diverging call / unreachable ('diverge').  Branches on values that fold to a
    constant along the path so far are pruned when prune=True.
    """
    stop_at = set(stop_at)
    stop_second = set(stop_second)
    avoid = set(avoid)
    out = []
    blocks = [start]
    counts = {start: 1}
    decisions = []   # (key, ("val", v) | ("not", frozenset(vals)))

    steps = [0]

    def rec():
        steps[0] += 1
        if len(out) > limit or steps[0] > 40 * limit:
            raise TooManyPaths("%s: more than %d paths / %d steps from block %d" % (body.path, limit, 40 * limit, start))
        b = blocks[-1]
        t = body.blocks[b]["term"]
        k = t["k"]
        if len(blocks) > 1 and b in stop_at:
            out.append(Path(body, list(blocks), "stop"))
            return
        if b in stop_second and counts.get(b, 0) >= 2:
            out.append(Path(body, list(blocks), "stop"))
            return
        if k == "return":
            out.append(Path(body, list(blocks), "return"))
            return
        if k in ("unreachable", "resume", "terminate"):
            out.append(Path(body, list(blocks), "unreachable"))
            return
        succs = body.succ[b]
        mk = None
        if k == "switch" and prune:
            p = Path(body, blocks)
            v = p.origin_op(t["discr"], len(blocks) - 1, None)
            ci = _cint(v)
            if ci is not None:
                tgt = t["otherwise"]
                for val, g in zip(t["vals"], t["tgts"]):
                    if int(val) == ci:
                        tgt = g
                        break
                succs = [tgt] if not body.is_cleanup(tgt) else []
            else:
                mk = memo_key(body, blocks, v, 0, p)
                # `x.len() == 0` / `!= 0` is decided by an earlier decision about len(x) (which is_empty(x) also records)
                if mk is not None and mk[0] == "bin" and mk[1] in ("Eq", "Ne") and isinstance(mk[2], tuple) and mk[2][0] == "pure" and mk[2][1].endswith("::len") \
                        and mk[3] == ("const", ("int", 0, "usize")) and "0" in t["vals"]:
                    for (k0, d0) in decisions:
                        if k0 != mk[2]:
                            continue
                        is_zero = True if d0 == ("val", 0) else (False if (d0[0] == "not" and 0 in d0[1]) or (d0[0] == "val" and d0[1] != 0) else None)
                        if is_zero is None:
                            continue
                        truth = is_zero if mk[1] == "Eq" else not is_zero
                        zt = t["tgts"][t["vals"].index("0")]
                        succs = [x for x in succs if (x != zt) == truth] if len(set(succs)) > 1 else succs
                if mk is not None:
                    for (k0, d0) in decisions:
                        if k0 != mk:
                            continue
                        if d0[0] == "val":
                            tgt = t["otherwise"]
                            for val, g in zip(t["vals"], t["tgts"]):
                                if int(val) == d0[1]:
                                    tgt = g
                            succs = [x for x in succs if x == tgt]
                        else:
                            banned = {g for val, g in zip(t["vals"], t["tgts"]) if int(val) in d0[1]}
                            allowed = {g for val, g in zip(t["vals"], t["tgts"]) if int(val) not in d0[1]} | {t["otherwise"]}
                            succs = [x for x in succs if x in allowed or x not in banned]
        if not succs:
            out.append(Path(body, list(blocks), "diverge"))
            return
        for s in succs:
            if s in avoid:
                continue
            if counts.get(s, 0) >= max_visits:
                out.append(Path(body, list(blocks), "cut:%d" % s))
                continue
            counts[s] = counts.get(s, 0) + 1
            pushed = False
            extra_pushed = 0
            if mk is not None and mk[0] == "pure" and _re.search(r"Option::<T>::(is_none|is_some)$", mk[1]) and len(mk[2]) == 1 and "0" in t["vals"]:
                # is_none(x) == b  <=>  discriminant(x) == (0 if b else 1)   (Option: None = 0, Some = 1)
                truth = s != t["tgts"][t["vals"].index("0")]
                is_none = mk[1].endswith("is_none")
                some = (not truth) if is_none else truth
                decisions.append((("discr", mk[2][0]), ("val", 1 if some else 0)))
                extra_pushed += 1
            if mk is not None and mk[0] == "pure" and _re.search(r"Result::<T, E>::(is_ok|is_err)$", mk[1]) and len(mk[2]) == 1 and "0" in t["vals"]:
                # is_ok(x) == b  <=>  discriminant(x) == (0 if b else 1)   (Result: Ok = 0, Err = 1); `x?` re-tests the same discriminant
                truth = s != t["tgts"][t["vals"].index("0")]
                okv = truth if mk[1].endswith("is_ok") else not truth
                decisions.append((("discr", mk[2][0]), ("val", 0 if okv else 1)))
                extra_pushed += 1
            if mk is not None and mk[0] == "bin" and mk[1] in ("Eq", "Ne") and isinstance(mk[2], tuple) and mk[2][0] == "pure" and mk[2][1].endswith("::len") \
                    and mk[3] == ("const", ("int", 0, "usize")) and "0" in t["vals"]:
                truth = s != t["tgts"][t["vals"].index("0")]
                is_zero = truth if mk[1] == "Eq" else not truth
                decisions.append((mk[2], ("val", 0) if is_zero else ("not", frozenset([0]))))
                decisions.append((("pure", mk[2][1][:-len("len")] + "is_empty", mk[2][2]), ("val", 1 if is_zero else 0)))
                extra_pushed += 2
            if mk is not None and mk[0] == "pure" and mk[1].endswith("::is_empty") and "0" in t["vals"]:
                # is_empty(x) == b  <=>  (len(x) == 0) == b
                truth = s != t["tgts"][t["vals"].index("0")]
                lk = ("pure", mk[1][:-len("is_empty")] + "len", mk[2])
                decisions.append((lk, ("val", 0) if truth else ("not", frozenset([0]))))
                extra_pushed += 1
            if mk is not None and mk[0] == "pure" and mk[1].endswith("::len"):
                vh = [int(val) for val, g in zip(t["vals"], t["tgts"]) if g == s]
                ek = ("pure", mk[1][:-len("len")] + "is_empty", mk[2])
                if vh == [0]:
                    decisions.append((ek, ("val", 1)))
                    extra_pushed += 1
                elif (vh and 0 not in vh) or (not vh and "0" in t["vals"]):
                    decisions.append((ek, ("val", 0)))
                    extra_pushed += 1
            if mk is not None:
                vals_here = [int(val) for val, g in zip(t["vals"], t["tgts"]) if g == s]
                if s != t["otherwise"] and len(vals_here) == 1:
                    decisions.append((mk, ("val", vals_here[0])))
                    pushed = True
                elif s == t["otherwise"] and not vals_here:
                    decisions.append((mk, ("not", frozenset(int(val) for val in t["vals"]))))
                    pushed = True
            blocks.append(s)
            rec()
            blocks.pop()
            if pushed:
                decisions.pop()
            for _ in range(extra_pushed):
                decisions.pop()
            counts[s] -= 1

    import sys
    old = sys.getrecursionlimit()
    sys.setrecursionlimit(max(old, 20000))
    try:
        rec()
    finally:
        sys.setrecursionlimit(old)
    return out


def classify_return(path):
    """'ok' | 'err' | 'tail:<callee>' | 'other' for a path ending in return of a Result fn."""
    rv = path.return_value()
    if rv is None:
        return "none"
    if rv[0] == "agg" and rv[1] == "adt" and rv[2] and rv[2].endswith("result::Result"):
        return "ok" if rv[3] == "Ok" else "err"
    if rv[0] == "call":
        if "from_residual" in rv[1]:
            return "err"
        return "tail:" + rv[1]
    return "other"


def emptiness_of(p, is_target, last=False):
    """First decision on path p about whether the collection x with is_target(x) is empty, however it is spelled:
    `x.is_empty()`, `x.len() == 0` / `!= 0`, `match x.len() { 0 => .., _ => .. }`, with leading negations.
    True (empty) / False (non-empty) / None (not tested)."""
    from . import terms as T
    body = p.body
    res = None
    for i, blk in enumerate(p.blocks[:-1]):
        t = body.blocks[blk]["term"]
        if t["k"] != "switch":
            continue
        v = p.origin_op(t["discr"], i, None)
        nxt = p.blocks[i + 1]
        neg = False
        while isinstance(v, tuple) and v[0] == "un" and v[1] == "Not":
            v, neg = v[2], not neg
        zero_t = t["tgts"][t["vals"].index("0")] if "0" in t["vals"] else None
        if T.is_call(v, r"::is_empty$") and len(v[2]) == 1 and is_target(T.peel(v[2][0])) and zero_t is not None:
            res = (nxt != zero_t) != neg
            if not last:
                return res
            continue
        if isinstance(v, tuple) and v[0] == "bin" and v[1] in ("Eq", "Ne") and T.is_const_int(v[3], 0) and zero_t is not None:
            a = T.peel(v[2], payloads=False)
            if T.is_call(a, r"::len$") and len(a[2]) == 1 and is_target(T.peel(a[2][0])):
                truth = (nxt != zero_t) != neg
                res = truth if v[1] == "Eq" else not truth
                if not last:
                    return res
                continue
        a = T.peel(v, payloads=False) if isinstance(v, tuple) else v
        if T.is_call(a, r"::len$") and len(a[2]) == 1 and is_target(T.peel(a[2][0])) and zero_t is not None:
            res = nxt == zero_t
            if not last:
                return res
    return res
