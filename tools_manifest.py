#!/usr/bin/env python3
"""Generate MANIFEST.json from the claim table below (kept in one place so it stays valid)."""
import json, os
HERE = os.path.dirname(os.path.abspath(__file__))
from claims import CLAIMS, NOT_APPLICABLE, NOTES

checks = []
for pid, c in sorted(CLAIMS.items()):
    checks.append({
        "property_id": pid,
        "quick_cmd": "./check %s --tier quick" % pid,
        "thorough_cmd": "./check %s --tier thorough" % pid,
        "evidence_file": "/verif/evidence/%s.json" % pid,
        "replay_cmd_template": "./check %s --replay {path}" % pid,
        "engine": "msqlx+rules",
        "level_claimed": {"category": c.get("level", "other"), "text": c["text"], "design_ref": c.get("ref", "DESIGN.md section 4 (%s)" % pid)},
        "level_note": c["note"],
        "technique": c["technique"],
    })
m = {
    "version": 1,
    "setup_cmd": "./setup.sh",
    "hooks": {
        "guard": "msql_srv_verif",
        "enable": "none needed: the analysis reads the ordinary build (cargo +nightly check with the msqlx driver as RUSTC_WORKSPACE_WRAPPER); no hook commits exist",
        "baseline_off_cmd": "cd /repo && cargo test --workspace --no-fail-fast --offline",
        "source_commits": [],
        "add_only": True,
    },
    "engines": [
        {"name": "msqlx", "path": "driver/", "serves_properties": sorted(CLAIMS), "kind_free_text": "rustc_private driver exporting MIR (opt-level 0), resolved callees, constants, ADT/impl tables as JSON"},
        {"name": "rules", "path": "engines/ rules/ spec/", "serves_properties": sorted(CLAIMS), "kind_free_text": "python3 static analyses over the exported program: call graph/effects, CFG path rules, def-use origin terms, wire-layout extraction, interval dataflow, table checks"},
    ],
    "checks": checks,
    "notes": NOTES,
    "not_applicable": [{"property_id": k, "reason": v} for k, v in sorted(NOT_APPLICABLE.items())],
}
with open(os.path.join(HERE, "MANIFEST.json"), "w") as fh:
    json.dump(m, fh, indent=1)
    fh.write("\n")
print("MANIFEST.json written: %d checks, %d not applicable" % (len(checks), len(NOT_APPLICABLE)))
