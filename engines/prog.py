"""Program model over the facts exported by the msqlx driver.

Nothing here executes msql-srv: every query is over the type-checked program (MIR at
opt-level 0 with resolved callees).  Used by all rule files.
"""
import json
import re
from collections import defaultdict


# --------------------------------------------------------------------------------------
# small helpers over the JSON shapes
# --------------------------------------------------------------------------------------

def cname(func):
    """Canonical callee name: the resolved instance's path if resolution succeeded."""
    if "indirect" in func:
        return "<indirect>"
    r = func.get("rpath")
    return r if r else func["path"]


def fname(func):
    return func.get("name", "") if "indirect" not in func else ""


def op_place(o):
    if "copy" in o:
        return o["copy"]
    if "move" in o:
        return o["move"]
    return None


def op_const(o):
    return o.get("const")


def const_int(c):
    if c is not None and "int" in c:
        return int(c["int"])
    return None


def is_int_ty(t):
    return re.fullmatch(r"[iu](8|16|32|64|128|size)", t) is not None


def int_range(t, ptr_bits=64):
    m = re.fullmatch(r"([iu])(8|16|32|64|128|size)", t)
    if not m:
        return None
    bits = ptr_bits if m.group(2) == "size" else int(m.group(2))
    if m.group(1) == "u":
        return (0, (1 << bits) - 1)
    return (-(1 << (bits - 1)), (1 << (bits - 1)) - 1)


def int_bits(t, ptr_bits=64):
    m = re.fullmatch(r"([iu])(8|16|32|64|128|size)", t)
    if not m:
        return None
    return ptr_bits if m.group(2) == "size" else int(m.group(2))


def place_key(p):
    """Hashable access path of a place."""
    out = [p["l"]]
    for e in p["p"]:
        if e == "deref":
            out.append("*")
        elif e == "other":
            out.append("?")
        elif "f" in e:
            out.append(("f", e["f"], e.get("n")))
        elif "idx" in e:
            out.append(("idx", e["idx"]))
        elif "cidx" in e:
            out.append(("cidx", e["cidx"], e["from_end"]))
        elif "sub" in e:
            out.append(("sub", e["sub"][0], e["sub"][1], e["from_end"]))
        elif "dc" in e:
            out.append(("dc", e["dc"], e.get("n")))
    return tuple(out)


def place_fields(p):
    """Names of field projections, ignoring derefs/downcasts (e.g. ['to_write'])."""
    return [e.get("n") if e.get("n") is not None else e["f"] for e in p["p"] if isinstance(e, dict) and "f" in e]


# --------------------------------------------------------------------------------------
# Body
# --------------------------------------------------------------------------------------

class Body:
    def __init__(self, prog, raw):
        self.prog = prog
        self.raw = raw
        self.path = raw["path"]
        self.kind = raw["kind"]
        self.blocks = raw["blocks"]
        self.n = len(self.blocks)
        self.locals = raw["locals"]
        self.arg_count = raw["arg_count"]
        self.file = raw["file"]
        self._succ = None
        self._pred = None
        self._dom = None
        self._defs = None
        self._pdom = None
        self.debug_names = {}
        for dv in raw["debug"]:
            v = dv["v"]
            if "place" in v and not v["place"]["p"]:
                self.debug_names.setdefault(v["place"]["l"], dv["name"])

    # ---- naming -------------------------------------------------------------------------
    def local_name(self, l):
        return self.debug_names.get(l, "_%d" % l)

    def local_ty(self, l):
        return self.locals[l]["ty"]

    # ---- CFG ----------------------------------------------------------------------------
    def term(self, bb):
        return self.blocks[bb]["term"]

    def is_cleanup(self, bb):
        return self.blocks[bb]["cleanup"]

    def term_succs(self, bb, unwind=False):
        t = self.blocks[bb]["term"]
        k = t["k"]
        out = []
        if k == "goto":
            out.append(t["t"])
        elif k == "switch":
            out.extend(t["tgts"])
            out.append(t["otherwise"])
        elif k in ("call", "drop", "assert"):
            if t.get("t") is not None:
                out.append(t["t"])
            if unwind and isinstance(t.get("unwind"), int):
                out.append(t["unwind"])
        return out

    @property
    def succ(self):
        if self._succ is None:
            self._succ = [self._dedup(self.term_succs(b)) if not self.is_cleanup(b) else [] for b in range(self.n)]
            # successors never include cleanup blocks (normal edges only)
            self._succ = [[s for s in ss if not self.is_cleanup(s)] for ss in self._succ]
        return self._succ

    @staticmethod
    def _dedup(xs):
        out = []
        for x in xs:
            if x not in out:
                out.append(x)
        return out

    @property
    def pred(self):
        if self._pred is None:
            p = [[] for _ in range(self.n)]
            for b in range(self.n):
                for s in self.succ[b]:
                    p[s].append(b)
            self._pred = p
        return self._pred

    def reachable(self, start=0, avoid=(), avoid_edges=()):
        """Blocks reachable from start along normal edges without entering blocks in avoid."""
        avoid = set(avoid)
        avoid_edges = set(avoid_edges)
        seen = set()
        if start in avoid:
            return seen
        stack = [start]
        while stack:
            b = stack.pop()
            if b in seen:
                continue
            seen.add(b)
            for s in self.succ[b]:
                if s not in avoid and s not in seen and (b, s) not in avoid_edges:
                    stack.append(s)
        return seen

    def reachable_after(self, bb, avoid=(), avoid_edges=()):
        """Blocks reachable from the *successors* of bb (bb itself only if on a cycle)."""
        out = set()
        for s in self.succ[bb]:
            if s in set(avoid) or (bb, s) in set(avoid_edges):
                continue
            out |= self.reachable(s, avoid, avoid_edges)
        return out

    def return_blocks(self):
        return [b for b in range(self.n) if not self.is_cleanup(b) and self.term(b)["k"] == "return"]

    @property
    def dom(self):
        """dom[b] = set of blocks dominating b (normal edges, from entry)."""
        if self._dom is None:
            reach = self.reachable(0)
            allb = set(reach)
            dom = {b: set(allb) for b in reach}
            dom[0] = {0}
            changed = True
            order = sorted(reach)
            while changed:
                changed = False
                for b in order:
                    if b == 0:
                        continue
                    ps = [p for p in self.pred[b] if p in reach]
                    if not ps:
                        continue
                    new = set.intersection(*[dom[p] for p in ps]) | {b}
                    if new != dom[b]:
                        dom[b] = new
                        changed = True
            self._dom = dom
        return self._dom

    def dominates(self, a, b):
        return b in self.dom and a in self.dom[b]

    def back_edges(self):
        out = []
        for b in self.reachable(0):
            for s in self.succ[b]:
                if self.dominates(s, b):
                    out.append((b, s))
        return out

    def loops(self):
        """Natural loops: header -> set(blocks)."""
        loops = {}
        for (b, h) in self.back_edges():
            body = {h, b}
            stack = [b]
            while stack:
                x = stack.pop()
                if x == h:
                    continue
                for p in self.pred[x]:
                    if p not in body:
                        body.add(p)
                        stack.append(p)
            loops.setdefault(h, set()).update(body)
        return loops

    # ---- statements / calls -------------------------------------------------------------
    def calls(self, cleanup=False):
        for b in range(self.n):
            if self.is_cleanup(b) and not cleanup:
                continue
            t = self.term(b)
            if t["k"] == "call":
                yield b, t

    def calls_to(self, pat, cleanup=False):
        """Call sites whose canonical callee (or declared path) matches regex pat."""
        rx = re.compile(pat)
        for b, t in self.calls(cleanup):
            f = t["func"]
            if "indirect" in f:
                continue
            if rx.search(cname(f)) or rx.search(f["path"]):
                yield b, t

    def stmts(self, cleanup=False):
        for b in range(self.n):
            if self.is_cleanup(b) and not cleanup:
                continue
            for i, s in enumerate(self.blocks[b]["stmts"]):
                yield b, i, s

    # ---- definitions --------------------------------------------------------------------
    @property
    def defs(self):
        """local -> list of definition sites ('s', bb, idx) / ('t', bb) writing the whole local."""
        if self._defs is None:
            d = defaultdict(list)
            for b in range(self.n):
                for i, s in enumerate(self.blocks[b]["stmts"]):
                    if s["k"] == "assign" and not s["lhs"]["p"]:
                        d[s["lhs"]["l"]].append(("s", b, i))
                t = self.term(b)
                if t["k"] == "call" and not t["dest"]["p"]:
                    d[t["dest"]["l"]].append(("t", b))
            self._defs = d
        return self._defs

    def partial_writes(self, local):
        """Sites assigning to a projection of local (field stores, stores through deref)."""
        out = []
        for b in range(self.n):
            for i, s in enumerate(self.blocks[b]["stmts"]):
                if s["k"] in ("assign",) and s["lhs"]["l"] == local and s["lhs"]["p"]:
                    out.append(("s", b, i))
                if s["k"] == "setdiscr" and s["place"]["l"] == local:
                    out.append(("s", b, i))
            t = self.term(b)
            if t["k"] == "call" and t["dest"]["l"] == local and t["dest"]["p"]:
                out.append(("t", b))
        return out

    def reaching_defs(self, local, bb, idx):
        """Definition sites of `local` (whole-local writes) that may reach point (bb, idx).

        idx = index of the statement *before which* the value is read; len(stmts) = terminator.
        Walks normal AND cleanup predecessors are irrelevant for normal blocks.
        """
        found = []
        seen = set()

        def scan(b, upto):
            stmts = self.blocks[b]["stmts"]
            for i in range(min(upto, len(stmts)) - 1, -1, -1):
                s = stmts[i]
                if s["k"] == "assign" and not s["lhs"]["p"] and s["lhs"]["l"] == local:
                    return ("s", b, i)
            return None

        d = scan(bb, idx)
        if d:
            return [d]
        stack = [(p, bb) for p in self.pred_all(bb)]
        while stack:
            b, frm = stack.pop()
            if (b, frm) in seen:
                continue
            seen.add((b, frm))
            t = self.term(b)
            if t["k"] == "call" and not t["dest"]["p"] and t["dest"]["l"] == local and t.get("t") == frm:
                found.append(("t", b))
                continue
            d = scan(b, len(self.blocks[b]["stmts"]))
            if d:
                if d not in found:
                    found.append(d)
                continue
            for p in self.pred_all(b):
                stack.append((p, b))
        if not found and local <= self.arg_count and local != 0:
            return [("arg", local)]
        if local <= self.arg_count and local != 0:
            # an argument that is also reassigned on some path
            pass
        return found

    def pred_all(self, bb):
        if not hasattr(self, "_pred_all"):
            p = [[] for _ in range(self.n)]
            for b in range(self.n):
                for s in self._dedup(self.term_succs(b, unwind=True)):
                    p[s].append(b)
            self._pred_all = p
        return self._pred_all[bb]

    # ---- origin terms -------------------------------------------------------------------
    def origin_op(self, op, bb, idx, depth=0):
        c = op_const(op)
        if c is not None:
            return ("const", _freeze_const(c))
        return self.origin_place(op_place(op), bb, idx, depth)

    def origin_place(self, place, bb, idx, depth=0):
        if depth > 150:
            self._depth_cuts = self.__dict__.get("_depth_cuts", 0) + 1
            return ("unknown", "depth")
        base = self.origin_local(place["l"], bb, idx, depth)
        t = base
        for e in place["p"]:
            if e == "deref":
                continue  # references are transparent
            if e == "other":
                t = ("unknown", "proj")
            elif "f" in e:
                t = _simplify(_mk_field(t, e.get("n") if e.get("n") is not None else e["f"], e["f"]))   # every step: `(x as Some).0.0` is somepayload(x).0
            elif "dc" in e:
                t = ("variant", t, e.get("n") or e["dc"])
            elif "idx" in e:
                t = ("index", t, self.origin_local(e["idx"], bb, idx, depth + 1))
            elif "cidx" in e:
                t = ("index", t, ("const", ("int", e["cidx"], "usize")))
            elif "sub" in e:
                t = ("subslice", t, e["sub"][0], e["sub"][1], e["from_end"])
        return _simplify(t)

    def origin_local(self, local, bb, idx, depth=0):
        # memoised per (local, program point): a long chain of statements that each mention the previous value more than once (a
        # buffer threaded through dozens of writes) is otherwise re-expanded exponentially often.  A result is only kept when no
        # depth cut-off happened while it was computed (it is then independent of the depth it was asked at).
        memo = self.__dict__.setdefault("_origin_memo", {})
        key = (local, bb, idx)
        hit = memo.get(key)
        # an entry computed without any depth cut-off is exact; one computed with cut-offs at depth d0 is at least as precise as
        # what a request at depth >= d0 would compute (it had more budget left), so it may stand in for it
        if hit is not None and (hit[0] is None or depth >= hit[0]):
            return hit[1]
        cuts0 = self.__dict__.get("_depth_cuts", 0)
        res = self._origin_local_uncached(local, bb, idx, depth)
        memo[key] = (None if self.__dict__.get("_depth_cuts", 0) == cuts0 else depth, res)
        return res

    def _origin_local_uncached(self, local, bb, idx, depth=0):
        if depth > 150:
            self._depth_cuts = self.__dict__.get("_depth_cuts", 0) + 1
            return ("unknown", "depth")
        rds = self.reaching_defs(local, bb, idx)
        if not rds:
            return ("unknown", "nodef:_%d" % local)
        terms = []
        for d in rds:
            if d[0] == "arg":
                terms.append(("param", d[1], self.local_name(d[1])))
            elif d[0] == "s":
                s = self.blocks[d[1]]["stmts"][d[2]]
                terms.append(fold(self.origin_rvalue(s["rv"], d[1], d[2], depth + 1)))
            else:
                t = self.term(d[1])
                nst = len(self.blocks[d[1]]["stmts"])
                args = tuple(self.origin_op(a, d[1], nst, depth + 1) for a in t["args"])
                terms.append(fold(("call", cname(t["func"]), args, d[1])))
        if len(terms) == 1:
            return terms[0]
        uniq = []
        for t in terms:
            if t not in uniq:
                uniq.append(t)
        if len(uniq) == 1:
            return uniq[0]
        return ("phi", tuple(uniq))

    def origin_rvalue(self, rv, bb, idx, depth):
        k = rv["k"]
        if k == "use":
            return self.origin_op(rv["op"], bb, idx, depth)
        if k in ("ref", "rawptr"):
            return self.origin_place(rv["place"], bb, idx, depth)
        if k == "cast":
            inner = self.origin_op(rv["op"], bb, idx, depth)
            if rv["ck"].startswith("PointerCoercion") or rv["ck"] in ("PtrToPtr", "Transmute", "Subtype"):
                return inner if rv["ck"] != "Transmute" else ("cast", inner, rv["ty"], rv["ck"], rv["from"])
            return ("cast", inner, rv["ty"], rv["ck"], rv["from"])
        if k == "bin":
            return ("bin", rv["op"], self.origin_op(rv["a"], bb, idx, depth), self.origin_op(rv["b"], bb, idx, depth), rv["ty"])
        if k == "un":
            return fold(("un", rv["op"], self.origin_op(rv["a"], bb, idx, depth)))
        if k == "discr":
            return ("discr", self.origin_place(rv["place"], bb, idx, depth))
        if k == "agg":
            fs = tuple(self.origin_op(f, bb, idx, depth) for f in rv["fields"])
            if rv["ak"] == "adt":
                return ("agg", "adt", rv["adt"], rv["vname"], fs, tuple(rv.get("fnames") or ()))
            if rv["ak"] == "closure":
                return ("agg", "closure", rv["closure"], None, fs, ())
            return ("agg", rv["ak"], None, None, fs, ())
        if k == "repeat":
            return ("repeat", self.origin_op(rv["op"], bb, idx, depth), rv["n"])
        return ("unknown", "rvalue:" + k)

    def arg_origin(self, bb, i):
        """Origin term of argument i of the call terminating bb."""
        t = self.term(bb)
        return self.origin_op(t["args"][i], bb, len(self.blocks[bb]["stmts"]))

    # ---- reporting ----------------------------------------------------------------------
    def where(self, bb, idx=None):
        if idx is None or idx >= len(self.blocks[bb]["stmts"]):
            ln = self.term(bb)["line"]
        else:
            ln = self.blocks[bb]["stmts"][idx].get("line", 0)
        return "%s:%d" % (self.file, ln)


ADT_DISCR = {}     # (enum path, variant name) -> discriminant, for the enums in the exported ADT table (filled by Program)


def _freeze_const(c):
    if "int" in c:
        return ("int", int(c["int"]), c["ty"])
    if "bytes" in c:
        return ("bytes", bytes(c["bytes"]), c["ty"])
    if "fn" in c:
        return ("fn", cname(c["fn"]), c["fn"]["path"])
    if "closure" in c:
        return ("closure", c["closure"])
    if "promoted" in c:
        if c.get("powner"):
            return ("promoted", c["promoted"], c["ty"], c["powner"])
        return ("promoted", c["promoted"], c["ty"])
    if "float" in c:
        return ("float", c["float"], c["ty"])
    if "bits" in c:
        return ("bits", int(c["bits"]), c["ty"])
    return ("opaque", c.get("dbg", ""), c["ty"])


def _mk_field(t, name, idx):
    return ("field", t, name, idx)


_CHECKED = {"AddWithOverflow": "Add", "SubWithOverflow": "Sub", "MulWithOverflow": "Mul"}


def _simplify(t):
    """Local algebraic simplifications of origin terms."""
    if not isinstance(t, tuple):
        return t
    if t[0] == "field":
        base = t[1]
        # (checked op).0 -> plain op
        if base[0] == "bin" and base[1] in _CHECKED and t[3] == 0:
            return ("bin", _CHECKED[base[1]], base[2], base[3], base[4])
        # aggregate field projection
        if base[0] == "agg" and isinstance(t[3], int) and t[3] < len(base[4]):
            return base[4][t[3]]
        # payloads of Ok/Some/Continue/Err/Break (tuple variants only: the field is named "0")
        if base[0] == "variant" and t[3] == 0 and str(t[2]) == "0":
            inner = base[1]
            v = base[2]
            if inner[0] == "call" and inner[1].endswith("::branch") and "Try" in inner[1]:
                if v == "Continue":
                    src = inner[2][0]
                    if isinstance(src, tuple) and src[0] == "agg" and src[1] == "adt" and src[3] in ("Ok", "Some") and len(src[4]) == 1:
                        return src[4][0]      # `Some(x)?` / `Ok(x)?` is x
                    return ("okpayload", src)
                if v == "Break":
                    return ("errresidual", inner[2][0])
            if inner[0] == "agg" and inner[1] == "adt" and inner[3] == v and len(inner[4]) > 0:
                return inner[4][0]
            if v in ("Ok", "Continue"):
                return ("okpayload", inner)
            if v == "Some":
                return ("somepayload", inner)
            if v in ("Err", "Break"):
                return ("errpayload", inner)
        if base[0] == "variant":
            inner = base[1]
            if inner[0] == "agg" and inner[1] == "adt" and inner[3] == base[2] and isinstance(t[3], int) and t[3] < len(inner[4]):
                return inner[4][t[3]]
    return t


# --------------------------------------------------------------------------------------
# constant folding on origin terms
# --------------------------------------------------------------------------------------

def _cint(t):
    if isinstance(t, tuple) and t[0] == "const" and t[1][0] == "int":
        return t[1][1]
    return None


def _wrap(v, ty):
    r = int_range(ty)
    if r is None:
        return v
    lo, hi = r
    span = hi - lo + 1
    return ((v - lo) % span) + lo


_PRIM_OP_RX = re.compile(r"^<&?(?:'\w+ )?([ui](?:8|16|32|64|128|size)) as std::ops::(Add|Sub|Mul|Div|Rem|BitAnd|BitOr|BitXor|Shl|Shr)<&?(?:'\w+ )?[ui](?:8|16|32|64|128|size)>>::\w+$")


def fold(t):
    if not isinstance(t, tuple):
        return t
    k = t[0]
    if k == "index" and len(t) == 3:
        # element of a constant byte array / string: CONST[i]
        base, i = t[1], _cint(t[2])
        while isinstance(base, tuple) and base[0] == "ref":
            base = base[1]
        if i is not None and isinstance(base, tuple) and base[0] == "const" and base[1][0] == "bytes" and 0 <= i < len(base[1][1]):
            return ("const", ("int", base[1][1][i], "u8"))
        if i is not None and isinstance(base, tuple) and base[0] == "agg" and base[1] == "array" and 0 <= i < len(base[4]):
            return base[4][i]
        return t
    if k == "bin":
        a, b = _cint(t[2]), _cint(t[3])
        op = t[1]
        ty = t[4]
        if a is not None and b is not None:
            if op in ("Eq", "Ne", "Lt", "Le", "Gt", "Ge"):
                r = {"Eq": a == b, "Ne": a != b, "Lt": a < b, "Le": a <= b, "Gt": a > b, "Ge": a >= b}[op]
                return ("const", ("int", int(r), "bool"))
            if op in ("BitOr", "BitAnd", "BitXor") and ty != "bool":
                r = {"BitOr": a | b, "BitAnd": a & b, "BitXor": a ^ b}[op]
                return ("const", ("int", _wrap(r, ty), ty))
            if op in ("BitOr", "BitAnd", "BitXor") and ty == "bool":
                r = {"BitOr": a | b, "BitAnd": a & b, "BitXor": a ^ b}[op]
                return ("const", ("int", r & 1, "bool"))
            if op in ("Add", "Sub", "Mul") and int_range(ty):
                r = {"Add": a + b, "Sub": a - b, "Mul": a * b}[op]
                lo, hi = int_range(ty)
                if lo <= r <= hi:
                    return ("const", ("int", r, ty))
            if op in ("Shl",) and int_range(ty) and 0 <= b < 128:
                return ("const", ("int", _wrap(a << b, ty), ty))
            if op in ("Shr",) and int_range(ty) and 0 <= b < 128:
                return ("const", ("int", a >> b, ty))
            if op == "Div" and b != 0 and a >= 0 and b > 0:
                return ("const", ("int", a // b, ty))
            if op == "Rem" and b != 0 and a >= 0 and b > 0:
                return ("const", ("int", a % b, ty))
    elif k == "un" and t[1] != "PtrMetadata":
        a = _cint(t[2])
        if a is not None and t[1] == "Not" and t[2][1][2] == "bool":
            return ("const", ("int", 1 - a, "bool"))
    elif k == "cast":
        a = _cint(t[1])
        if a is not None and t[3] == "IntToInt" and int_range(t[2]):
            return ("const", ("int", _wrap(a, t[2]), t[2]))
    elif k == "call" and len(t[2]) == 2 and re.search(r"ops::Index<I> for \[T; N\]>::index$|ops::Index<I> for \[T\]>::index$", t[1]):
        a, r = t[2]
        if isinstance(r, tuple) and r[0] == "agg" and (r[2] or "").endswith("ops::RangeFull"):
            if isinstance(a, tuple) and a[0] == "const" and a[1][0] == "bytes":
                return ("const", ("bytes", a[1][1], "&[u8]"))
            if isinstance(a, tuple) and a[0] == "repeat" and _cint(a[1]) is not None and str(a[2]).isdigit():
                return ("const", ("bytes", bytes([_cint(a[1]) & 0xFF]) * int(a[2]), "&[u8]"))
            if isinstance(a, tuple) and a[0] == "agg" and a[1] == "array" and all(_cint(x) is not None for x in a[4]):
                return ("const", ("bytes", bytes([_cint(x) & 0xFF for x in a[4]]), "&[u8]"))
    elif k == "call" and len(t[2]) == 1 and t[1].endswith("Result<T, E> as std::ops::Try>::branch"):
        a = t[2][0]
        if isinstance(a, tuple) and a[0] == "agg" and a[1] == "adt" and a[2] == "std::result::Result":
            if a[3] == "Ok":
                return ("agg", "adt", "std::ops::ControlFlow", "Continue", a[4], ("0",))
            if a[3] == "Err":
                return ("agg", "adt", "std::ops::ControlFlow", "Break", (a,), ("0",))
        if isinstance(a, tuple) and a[0] == "call" and a[1].endswith("FromResidual<std::result::Result<std::convert::Infallible, E>>>::from_residual"):
            # a Result built from a residual is always Err: `?` on it (e.g. after inlining a helper) takes the Break arm
            return ("agg", "adt", "std::ops::ControlFlow", "Break", (a,), ("0",))
    elif k == "call" and len(t[2]) == 2 and _PRIM_OP_RX.match(t[1]):
        # operator traits on (references to) primitive integers are the MIR binary operations: `*byte & mask` == `byte & mask`
        m = _PRIM_OP_RX.match(t[1])
        return fold(("bin", m.group(2), t[2][0], t[2][1], m.group(1)))
    elif k == "call" and len(t[2]) == 1 and re.search(r"core::num::<impl [ui](8|16|32|64|128|size)>::to_(le|be)_bytes$", t[1]):
        a = t[2][0]
        ci = _cint(a)
        m = re.search(r"<impl ([ui])(8|16|32|64|128|size)>::to_(le|be)_bytes$", t[1])
        if ci is not None:
            w = 8 if m.group(2) == "size" else int(m.group(2)) // 8
            v = ci & ((1 << (8 * w)) - 1)
            return ("const", ("bytes", v.to_bytes(w, "little" if m.group(3) == "le" else "big"), "[u8; %d]" % w))
    elif k == "call" and len(t[2]) == 1 and t[1].endswith("Option<T> as std::ops::Try>::branch"):
        a = t[2][0]
        if isinstance(a, tuple) and a[0] == "agg" and a[1] == "adt" and a[2] == "std::option::Option":
            if a[3] == "Some":
                return ("agg", "adt", "std::ops::ControlFlow", "Continue", a[4], ("0",))
            if a[3] == "None":
                return ("agg", "adt", "std::ops::ControlFlow", "Break", (a,), ("0",))
    elif k == "call" and len(t[2]) == 1 and re.search(r"(ControlFlow::<B, C>::(is_break|is_continue)|Option::<T>::(is_some|is_none)|Result::<T, E>::(is_ok|is_err))$", t[1]):
        # a predicate on a value whose variant is known (typically after a helper returning `Ok(ControlFlow::Continue(()))` was inlined)
        a = t[2][0]
        while isinstance(a, tuple) and a and a[0] in ("ref", "deref", "copy") and len(a) > 1 and isinstance(a[1], tuple):
            a = a[1]
        if isinstance(a, tuple) and a[0] == "agg" and a[1] == "adt" and a[2] in ("std::ops::ControlFlow", "std::option::Option", "std::result::Result"):
            pos = {"is_break": "Break", "is_continue": "Continue", "is_some": "Some", "is_none": "None", "is_ok": "Ok", "is_err": "Err"}[t[1].rsplit("::", 1)[1]]
            return ("const", ("int", 1 if a[3] == pos else 0, "bool"))
    elif (k == "un" and t[1] == "PtrMetadata") or (k == "call" and len(t[2]) == 1 and t[1].endswith("slice::<impl [T]>::len")):
        a = t[2] if k == "un" else t[2][0]
        if k == "call" and isinstance(a, tuple) and a[0] == "const" and a[1][0] == "bytes":
            return ("const", ("int", len(a[1][1]), "usize"))
        # the length of an item of `x.chunks_exact(n)` is n
        while isinstance(a, tuple) and a and a[0] in ("ref", "deref", "copy") and len(a) > 1 and isinstance(a[1], tuple):
            a = a[1]
        if isinstance(a, tuple) and a and a[0] == "somepayload" and isinstance(a[1], tuple) and a[1] and a[1][0] == "call" and \
                re.search(r"ChunksExact<'a, T> as std::iter::Iterator>::next$", a[1][1]):
            ch = a[1][2][0] if a[1][2] else None
            for _ in range(6):
                if isinstance(ch, tuple) and ch and ch[0] in ("ref", "deref", "copy") and len(ch) > 1 and isinstance(ch[1], tuple):
                    ch = ch[1]
                elif isinstance(ch, tuple) and ch and ch[0] == "call" and ch[1].endswith("IntoIterator>::into_iter") and len(ch[2]) == 1:
                    ch = ch[2][0]      # an iterator's own into_iter is the identity
                else:
                    break
            if isinstance(ch, tuple) and ch and ch[0] == "call" and ch[1].endswith("slice::<impl [T]>::chunks_exact") and len(ch[2]) == 2 and _cint(ch[2][1]) is not None:
                return ("const", ("int", _cint(ch[2][1]), "usize"))
        if isinstance(a, tuple) and len(a) > 3 and a[0] == "field" and a[3] == 0 and isinstance(a[1], tuple) and a[1] and a[1][0] == "call" and \
                re.search(r"slice::<impl \[T\]>::split_at(_mut)?$", a[1][1]) and len(a[1][2]) == 2:
            # `x.split_at(n).0.len()` is n (split_at panics unless n <= x.len())
            return a[1][2][1]
        if k == "un":
            # the length a slice pattern (`[]`, `[first, ..]`) reads is the length `len()` returns: one spelling for both
            return ("call", "core::slice::<impl [T]>::len", (t[2],), None)
    elif k in ("discr", "somepayload") and isinstance(t[1], tuple) and t[1] and t[1][0] == "call" and isinstance(t[1][1], str) and \
            t[1][1].endswith("bool>::then_some") and len(t[1][2]) == 2:
        # `c.then_some(v)` is Some(v) exactly when c: its discriminant is c (None = 0 = false), its payload v
        return t[1][2][0] if k == "discr" else t[1][2][1]
    elif k == "discr":
        inner = t[1]
        if isinstance(inner, tuple) and inner[0] == "call" and inner[1].endswith("FromResidual<std::result::Result<std::convert::Infallible, E>>>::from_residual"):
            return ("const", ("int", 1, "isize"))     # a Result built from a residual is an Err
        if isinstance(inner, tuple) and inner[0] == "agg" and inner[1] == "adt":
            std = {"std::option::Option": {"None": 0, "Some": 1}, "std::result::Result": {"Ok": 0, "Err": 1},
                   "std::ops::ControlFlow": {"Continue": 0, "Break": 1}}
            if inner[2] in std and inner[3] in std[inner[2]]:
                return ("const", ("int", std[inner[2]][inner[3]], "isize"))
            d = ADT_DISCR.get((inner[2], inner[3]))
            if d is not None:
                return ("const", ("int", d, "isize"))     # a value of a known variant of one of the crate's own enums
            return ("discr_of_variant", inner[2], inner[3])
    return t




def term_contains(t, pred, depth=0):
    """Does any sub-term satisfy pred?"""
    if depth > 60:
        return False
    if pred(t):
        return True
    if isinstance(t, tuple):
        for x in t[1:]:
            if isinstance(x, tuple):
                if x and isinstance(x[0], str):
                    if term_contains(x, pred, depth + 1):
                        return True
                else:
                    for y in x:
                        if isinstance(y, tuple) and term_contains(y, pred, depth + 1):
                            return True
    return False


def term_str(t, depth=0):
    if depth > 12:
        return "…"
    if not isinstance(t, tuple):
        return repr(t)
    k = t[0]
    if k == "param":
        return t[2]
    if k == "const":
        c = t[1]
        if c[0] == "int":
            return "%d%s" % (c[1], c[2])
        if c[0] == "bytes":
            return "b%r" % (c[1],)
        return "%s" % (c[1],)
    if k == "call":
        return "%s(%s)" % (t[1].split("::")[-1] if len(t[1]) > 60 else t[1], ", ".join(term_str(a, depth + 1) for a in t[2]))
    if k == "field":
        return "%s.%s" % (term_str(t[1], depth + 1), t[2])
    if k == "variant":
        return "(%s as %s)" % (term_str(t[1], depth + 1), t[2])
    if k in ("okpayload", "somepayload", "errpayload", "errresidual"):
        return "%s(%s)" % (k, term_str(t[1], depth + 1))
    if k == "cast":
        return "(%s as %s)" % (term_str(t[1], depth + 1), t[2])
    if k == "bin":
        return "%s(%s, %s)" % (t[1], term_str(t[2], depth + 1), term_str(t[3], depth + 1))
    if k == "un":
        return "%s(%s)" % (t[1], term_str(t[2], depth + 1))
    if k == "discr":
        return "discr(%s)" % term_str(t[1], depth + 1)
    if k == "agg":
        return "%s::%s{%s}" % (t[2] or t[1], t[3] or "", ", ".join(term_str(a, depth + 1) for a in t[4]))
    if k == "phi":
        return "phi(%s)" % ", ".join(term_str(a, depth + 1) for a in t[1])
    if k == "index":
        return "%s[%s]" % (term_str(t[1], depth + 1), term_str(t[2], depth + 1))
    if k == "subslice":
        return "%s[%d..%s%d]" % (term_str(t[1], depth + 1), t[2], "-" if t[4] else "", t[3])
    if k == "unknown":
        return "?%s" % t[1]
    return repr(t)


# --------------------------------------------------------------------------------------
# Program
# --------------------------------------------------------------------------------------

_SUB = {}        # callee param local (callee numbering) -> caller place its reference argument points to
_POWNER = [None]  # path of the callee being inlined (owner of its promoted constants)


def _remap_place(pl, lo):
    src = _SUB.get(pl["l"])
    if src is not None and pl["p"] and pl["p"][0] == "deref":
        # `(*param).x` in the callee is `src.x` in the caller: stores and loads of the inlined code then meet the
        # caller's own accesses to the same object in the def-use / store search
        q = {"l": src["l"], "p": list(src["p"])}
        rest = pl["p"][1:]
    else:
        q = {"l": pl["l"] + lo, "p": []}
        rest = pl["p"]
    for e in rest:
        if isinstance(e, dict) and "idx" in e:
            e = dict(e)
            e["idx"] = e["idx"] + lo
        q["p"].append(e)
    return q


def _remap_op(o, lo):
    if "copy" in o:
        return {"copy": _remap_place(o["copy"], lo)}
    if "move" in o:
        return {"move": _remap_place(o["move"], lo)}
    if "const" in o and "promoted" in o["const"] and "powner" not in o["const"] and _POWNER[0]:
        c = dict(o["const"])
        c["powner"] = _POWNER[0]
        return {"const": c}
    return o


def _ref_source(B, bi, op, depth=0):
    """The caller place a reference-typed call argument points to, when the argument is a temporary defined in the
    calling block as `&[mut] place` (possibly through further reborrows / moves of temporaries); else None."""
    if depth > 6:
        return None
    pl = op.get("move") or op.get("copy")
    if pl is None or pl["p"]:
        return None
    l = pl["l"]
    defs = [s for s in B["blocks"][bi]["stmts"] if s["k"] == "assign" and s["lhs"]["l"] == l and not s["lhs"]["p"]]
    if len(defs) != 1:
        return None
    # the temporary must be defined only here in the whole caller
    n_all = sum(1 for bk in B["blocks"] for s in bk["stmts"] if s["k"] == "assign" and s["lhs"]["l"] == l and not s["lhs"]["p"])
    n_all += sum(1 for bk in B["blocks"] if bk["term"]["k"] == "call" and bk["term"]["dest"]["l"] == l and not bk["term"]["dest"]["p"])
    if n_all != 1 or l <= B["arg_count"]:
        return None
    rv = defs[0]["rv"]
    if rv["k"] == "ref":
        src = rv["place"]
        if any(isinstance(e, dict) and "idx" in e for e in src["p"]):
            return None
        if src["p"] and src["p"][0] == "deref":
            # a reborrow through another temporary reference: resolve it too
            inner = _ref_source(B, bi, {"copy": {"l": src["l"], "p": []}}, depth + 1)
            if inner is not None:
                return {"l": inner["l"], "p": list(inner["p"]) + list(src["p"][1:])}
        return {"l": src["l"], "p": list(src["p"])}
    if rv["k"] == "use":
        return _ref_source(B, bi, rv["op"], depth + 1)
    return None


def _remap_rv(rv, lo):
    rv = dict(rv)
    for k in ("op", "a", "b"):
        if k in rv and isinstance(rv[k], dict):
            rv[k] = _remap_op(rv[k], lo)
    if "place" in rv:
        rv["place"] = _remap_place(rv["place"], lo)
    if "fields" in rv:
        rv["fields"] = [_remap_op(f, lo) for f in rv["fields"]]
    return rv


def _closure_of_operand(B, bi, op):
    """(closure body path, local holding the closure value) when a call argument is a closure built in the calling
    block (aggregate) or a capture-less closure constant; else None"""
    c = op.get("const")
    if c is not None and "closure" in c:
        return c["closure"], None
    pl = op.get("move") or op.get("copy")
    if pl is None or pl["p"]:
        return None
    defs = [s for s in B["blocks"][bi]["stmts"] if s["k"] == "assign" and s["lhs"]["l"] == pl["l"] and not s["lhs"]["p"]]
    if len(defs) == 1 and defs[0]["rv"]["k"] == "agg" and defs[0]["rv"].get("ak") == "closure":
        return defs[0]["rv"]["closure"], pl["l"]
    return None


_ABSORBED = set()   # closure bodies that were expanded into the function that builds them


def _copy_body(B, C, lo, bo, dest, cont, line):
    """Append C's blocks to B (locals at offset lo, blocks at offset bo); `return` stores C's _0 into `dest` and jumps to `cont`."""
    if C.get("kind") == "closure":
        _ABSORBED.add(C["path"])
    new_blocks = []
    for cb in C["blocks"]:
        nb = {"cleanup": cb["cleanup"], "stmts": [], "term": None}
        for st in cb["stmts"]:
            st2 = dict(st)
            if st["k"] == "assign":
                st2["lhs"] = _remap_place(st["lhs"], lo)
                st2["rv"] = _remap_rv(st["rv"], lo)
            elif st["k"] == "setdiscr":
                st2["place"] = _remap_place(st["place"], lo)
            nb["stmts"].append(st2)
        ct = dict(cb["term"])
        k = ct["k"]
        if k == "return":
            nb["stmts"].append({"k": "assign", "lhs": dest, "rv": {"k": "use", "op": {"move": {"l": lo, "p": []}}}, "line": ct.get("line", line), "exp": None})
            ct = {"k": "goto", "t": cont, "line": ct.get("line", line), "exp": None} if cont is not None else {"k": "unreachable", "line": line, "exp": None}
        else:
            if k == "goto":
                ct["t"] = ct["t"] + bo
            elif k == "switch":
                ct["discr"] = _remap_op(ct["discr"], lo)
                ct["tgts"] = [x + bo for x in ct["tgts"]]
                ct["otherwise"] = ct["otherwise"] + bo
            elif k in ("call", "drop", "assert"):
                if ct.get("t") is not None:
                    ct["t"] = ct["t"] + bo
                if isinstance(ct.get("unwind"), int):
                    ct["unwind"] = ct["unwind"] + bo
                if k == "call":
                    ct["args"] = [_remap_op(a, lo) for a in ct["args"]]
                    ct["dest"] = _remap_place(ct["dest"], lo)
                    if "indirect" in ct["func"]:
                        ct["func"] = {"indirect": _remap_op(ct["func"]["indirect"], lo), "ty": ct["func"].get("ty")}
                elif k == "drop":
                    ct["place"] = _remap_place(ct["place"], lo)
                else:
                    ct["cond"] = _remap_op(ct["cond"], lo)
                    ct["ops"] = [_remap_op(a, lo) for a in ct["ops"]]
        nb["term"] = ct
        new_blocks.append(nb)
    return new_blocks


def _expand_and_then(B, bi, t, by_path):
    """`dest = Result::and_then(r, |x| body)` with a local closure becomes
         switch discriminant(r) { Ok => dest = body(x := payload), Err => dest = Err(payload) }
    so that what the closure does (in order, and only on the Ok edge) is visible to every engine."""
    if len(t["args"]) != 2 or t.get("t") is None:
        return False
    r_pl = t["args"][0].get("move") or t["args"][0].get("copy")
    co = _closure_of_operand(B, bi, t["args"][1])
    if r_pl is None or r_pl["p"] or co is None or co[0] not in by_path:
        return False
    C = by_path[co[0]]
    if C["arg_count"] != 2:
        return False
    rty = B["locals"][r_pl["l"]].get("ty", "")
    line = t.get("line", 0)
    lo = len(B["locals"])
    B["locals"] = B["locals"] + [dict(l) for l in C["locals"]] + [{"ty": "isize"}]
    dl = len(B["locals"]) - 1
    bo = len(B["blocks"])
    _SUB.clear()
    _POWNER[0] = co[0]
    body_blocks = _copy_body(B, C, lo, bo + 2, t["dest"], t["t"], line)
    _POWNER[0] = None
    # Ok edge: bind the closure's parameters, enter its body
    ok_stmts = []
    if co[1] is not None:
        if str(C["locals"][1].get("ty", "")).startswith("&"):
            ok_stmts.append({"k": "assign", "lhs": {"l": lo + 1, "p": []}, "rv": {"k": "ref", "place": {"l": co[1], "p": []}, "mut": str(C["locals"][1]["ty"]).startswith("&mut")}, "line": line, "exp": None})
        else:
            ok_stmts.append({"k": "assign", "lhs": {"l": lo + 1, "p": []}, "rv": {"k": "use", "op": {"move": {"l": co[1], "p": []}}}, "line": line, "exp": None})
    ok_stmts.append({"k": "assign", "lhs": {"l": lo + 2, "p": []}, "rv": {"k": "use", "op": {"move": {"l": r_pl["l"], "p": [{"dc": 0, "n": "Ok"}, {"f": 0, "n": "0", "ty": C["locals"][2].get("ty", ""), "of": rty}]}}}, "line": line, "exp": None})
    ok_blk = {"cleanup": False, "stmts": ok_stmts, "term": {"k": "goto", "t": bo + 2, "line": line, "exp": None}}
    err_blk = {"cleanup": False, "stmts": [
        {"k": "assign", "lhs": t["dest"], "rv": {"k": "agg", "ak": "adt", "adt": "std::result::Result", "variant": 1, "vname": "Err", "fnames": ["0"], "active": None,
                                                 "fields": [{"move": {"l": r_pl["l"], "p": [{"dc": 1, "n": "Err"}, {"f": 0, "n": "0", "ty": "", "of": rty}]}}]}, "line": line, "exp": None}],
        "term": {"k": "goto", "t": t["t"], "line": line, "exp": None}}
    B["blocks"] = B["blocks"] + [ok_blk, err_blk] + body_blocks
    blk = B["blocks"][bi]
    blk["stmts"].append({"k": "assign", "lhs": {"l": dl, "p": []}, "rv": {"k": "discr", "place": {"l": r_pl["l"], "p": []}, "of": rty}, "line": line, "exp": None})
    blk["term"] = {"k": "switch", "discr": {"move": {"l": dl, "p": []}}, "vals": ["0", "1"], "tgts": [bo, bo + 1], "otherwise": bo + 1, "line": line, "exp": None,
                   "inlined": co[0]}
    return True


def _resolve_closure_local(B, op, depth=0):
    """(closure body path, local holding the closure value) when the operand is, through moves of uniquely defined locals anywhere in
    the body, a closure aggregate; else None"""
    if depth > 8:
        return None
    c = op.get("const")
    if c is not None and "closure" in c:
        return c["closure"], None
    pl = op.get("move") or op.get("copy")
    if pl is None or pl["p"]:
        return None
    l = pl["l"]
    defs = [s_ for bk in B["blocks"] for s_ in bk["stmts"] if s_["k"] == "assign" and s_["lhs"]["l"] == l and not s_["lhs"]["p"]]
    ncall = sum(1 for bk in B["blocks"] if bk["term"]["k"] == "call" and bk["term"]["dest"]["l"] == l and not bk["term"]["dest"]["p"])
    if len(defs) != 1 or ncall:
        return None
    rv = defs[0]["rv"]
    if rv["k"] == "agg" and rv.get("ak") == "closure":
        return rv["closure"], l
    if rv["k"] == "use":
        return _resolve_closure_local(B, rv["op"], depth + 1)
    return None


def _expand_call_once(B, bi, t, by_path, adts=None):
    """`dest = FnOnce::call_once(f, (a, b))` (also Fn::call / FnMut::call_mut) where f is a closure built in this body (typically handed
    to a small generic helper that has just been inlined) becomes the closure's body with its parameters bound: what the closure does is
    then visible in place, in order."""
    if len(t["args"]) != 2 or t.get("t") is None:
        return False
    c0 = None
    op0 = t["args"][0]
    for _ in range(8):
        if not isinstance(op0, dict):
            break
        if "const" in op0:
            c0 = op0["const"]
            break
        pl0 = op0.get("move") or op0.get("copy")
        if pl0 is None or pl0["p"]:
            break
        d0 = _unique_def(B, pl0["l"])
        if d0 is None or d0["rv"]["k"] != "use":
            break
        op0 = d0["rv"]["op"]
    if c0 is not None and "fn" in c0 and adts is not None:
        # a tuple-variant / tuple-struct constructor used as a function value (`rest_as(body, Command::Query)`): the call builds the variant
        pth = c0["fn"].get("path", "")
        cand = []
        if "::" in pth:
            ap, vn = pth.rsplit("::", 1)
            a_ = adts.get(ap)
            if a_ is not None:
                cand = [(ap, v_) for v_ in a_.get("variants", []) if v_["name"] == vn]
        a_ = adts.get(pth)
        if not cand and a_ is not None and a_.get("kind") == "struct" and len(a_.get("variants", [])) == 1:
            cand = [(pth, a_["variants"][0])]
        tp = t["args"][1].get("move") or t["args"][1].get("copy")
        if cand and tp is not None and not tp["p"]:
            defs = [s_ for s_ in B["blocks"][bi]["stmts"] if s_["k"] == "assign" and s_["lhs"]["l"] == tp["l"] and not s_["lhs"]["p"]]
            if len(defs) == 1 and defs[0]["rv"]["k"] == "agg" and defs[0]["rv"].get("ak") == "tuple":
                ap, v_ = cand[0]
                flds = defs[0]["rv"]["fields"]
                if len(flds) == len(v_.get("fields", [])) and all(f_["name"] == str(i_) for i_, f_ in enumerate(v_["fields"])):
                    line = t.get("line", 0)
                    blk = B["blocks"][bi]
                    blk["stmts"].append({"k": "assign", "lhs": t["dest"], "rv": {"k": "agg", "ak": "adt", "adt": ap, "variant": int(v_.get("idx", 0)), "vname": v_["name"],
                                                                                "fnames": [f_["name"] for f_ in v_["fields"]], "active": None, "fields": list(flds)}, "line": line, "exp": None})
                    blk["term"] = {"k": "goto", "t": t["t"], "line": line, "exp": None, "inlined": pth}
                    return True
        return False
    co = _resolve_closure_local(B, t["args"][0])
    if co is None or co[0] not in by_path:
        return False
    C = by_path[co[0]]
    if C is B or any(bk["term"]["k"] == "call" and "indirect" not in bk["term"]["func"] and (bk["term"]["func"].get("rpath") or bk["term"]["func"]["path"]) == co[0] for bk in C["blocks"]):
        return False
    if _has_loop(C) and _in_cycle(B, bi):
        return False
    # the argument tuple, built in the calling block
    tp = t["args"][1].get("move") or t["args"][1].get("copy")
    fields = None
    if tp is not None and not tp["p"]:
        defs = [s_ for s_ in B["blocks"][bi]["stmts"] if s_["k"] == "assign" and s_["lhs"]["l"] == tp["l"] and not s_["lhs"]["p"]]
        if len(defs) == 1 and defs[0]["rv"]["k"] == "agg" and defs[0]["rv"].get("ak") == "tuple":
            fields = defs[0]["rv"]["fields"]
    elif "const" in t["args"][1]:
        fields = []
    if fields is None or C["arg_count"] != 1 + len(fields):
        return False
    line = t.get("line", 0)
    lo = len(B["locals"])
    bo = len(B["blocks"])
    B["locals"] = B["locals"] + [dict(l) for l in C["locals"]]
    _SUB.clear()
    _POWNER[0] = co[0]
    body_blocks = _copy_body(B, C, lo, bo, t["dest"], t["t"], line)
    _POWNER[0] = None
    B["blocks"] = B["blocks"] + body_blocks
    blk = B["blocks"][bi]
    if co[1] is not None:
        if str(C["locals"][1].get("ty", "")).startswith("&"):
            blk["stmts"].append({"k": "assign", "lhs": {"l": lo + 1, "p": []}, "rv": {"k": "ref", "place": {"l": co[1], "p": []}, "mut": str(C["locals"][1]["ty"]).startswith("&mut")}, "line": line, "exp": None})
        else:
            blk["stmts"].append({"k": "assign", "lhs": {"l": lo + 1, "p": []}, "rv": {"k": "use", "op": {"move": {"l": co[1], "p": []}}}, "line": line, "exp": None})
    for i, a in enumerate(fields):
        blk["stmts"].append({"k": "assign", "lhs": {"l": lo + 2 + i, "p": []}, "rv": {"k": "use", "op": a}, "line": line, "exp": None})
    blk["term"] = {"k": "goto", "t": bo, "line": line, "exp": None, "inlined": co[0]}
    return True


def _unique_def(B, l):
    """the single statement that defines local l (no projection) in the whole body, or None (also None when a call defines it)"""
    defs = [s_ for bk in B["blocks"] for s_ in bk["stmts"] if s_["k"] == "assign" and s_["lhs"]["l"] == l and not s_["lhs"]["p"]]
    ncall = sum(1 for bk in B["blocks"] if bk["term"]["k"] == "call" and bk["term"]["dest"]["l"] == l and not bk["term"]["dest"]["p"])
    return defs[0] if len(defs) == 1 and not ncall else None


def _array_behind_iter(B, bi, it_l):
    """When local it_l is `&mut it` with `it = IntoIterator::into_iter(ARR)` (or `<[T]>::iter(&ARR)`) and ARR is, through moves, an array
    aggregate built in this body: the list of its element operands; else None."""
    d = _unique_def(B, it_l)
    for _ in range(4):
        # `&mut *r` with `r = &mut it` (the reborrow a `for` loop's desugaring makes) is `&mut it`
        if d is not None and d["rv"]["k"] == "ref" and d["rv"]["place"]["p"] == ["deref"]:
            d = _unique_def(B, d["rv"]["place"]["l"])
        else:
            break
    if d is None or d["rv"]["k"] != "ref" or d["rv"]["place"]["p"]:
        return None
    itl = d["rv"]["place"]["l"]
    for _ in range(4):
        # `let mut it = into_iter(..)`: the iterator variable is a move of the call's result
        dm = _unique_def(B, itl)
        mp = (dm["rv"]["op"].get("move") if dm is not None and dm["rv"]["k"] == "use" else None)
        if mp is not None and not mp["p"]:
            itl = mp["l"]
        else:
            break
    calls = [bk["term"] for bk in B["blocks"] if bk["term"]["k"] == "call" and bk["term"]["dest"]["l"] == itl and not bk["term"]["dest"]["p"]]
    if len(calls) != 1 or "indirect" in calls[0]["func"] or len(calls[0]["args"]) != 1:
        return None
    if any(s_["k"] == "assign" and s_["lhs"]["l"] == itl and not s_["lhs"]["p"] for bk in B["blocks"] for s_ in bk["stmts"]):
        return None
    pth = calls[0]["func"]["path"]
    if not (pth.endswith("IntoIterator::into_iter") and "; " in ((calls[0].get("arg_tys") or [""])[0])):
        return None
    op = calls[0]["args"][0]
    for _ in range(6):
        pl = op.get("move") or op.get("copy")
        if pl is None or pl["p"]:
            return None
        dd = _unique_def(B, pl["l"])
        if dd is None:
            return None
        if dd["rv"]["k"] == "agg" and dd["rv"].get("ak") == "array":
            return list(dd["rv"]["fields"])
        if dd["rv"]["k"] != "use":
            return None
        op = dd["rv"]["op"]
    return None


def _unroll_try_fold(B, bi, t, C, co, with_acc, elems, line):
    """try_fold / try_for_each over an array literal: the closure body once per element, in order, leaving at the first Err"""
    rty = C["locals"][0]["ty"]
    item_l = 3 if with_acc else 2
    n0 = len(B["locals"])
    B["locals"] = B["locals"] + [{"ty": C["locals"][2].get("ty", "") if with_acc else "()"}]
    ACC = n0
    def A(lhs, rv):
        return {"k": "assign", "lhs": lhs if isinstance(lhs, dict) else {"l": lhs, "p": []}, "rv": rv, "line": line, "exp": None}
    def G(tgt):
        return {"k": "goto", "t": tgt, "line": line, "exp": None}
    nb = len(C["blocks"])
    per = 3 + nb                       # bind, after, cont, body...
    bo = len(B["blocks"])
    DONE = bo + per * len(elems)
    ERRS = DONE + 1                    # one err block per element follows
    UNR = ERRS + len(elems)
    new_blocks = []
    err_blocks = []
    for k, el in enumerate(elems):
        base = bo + per * k
        BIND, AFTER, CONT, BODY = base, base + 1, base + 2, base + 3
        nxt = bo + per * (k + 1) if k + 1 < len(elems) else DONE
        lo = len(B["locals"])
        B["locals"] = B["locals"] + [dict(l) for l in C["locals"]] + [{"ty": rty}, {"ty": "isize"}]
        R, D2 = len(B["locals"]) - 2, len(B["locals"]) - 1
        _SUB.clear()
        _POWNER[0] = co[0]
        body_blocks = _copy_body(B, C, lo, BODY, {"l": R, "p": []}, AFTER, line)
        _POWNER[0] = None
        bind = []
        if co[1] is not None:
            if str(C["locals"][1].get("ty", "")).startswith("&"):
                bind.append(A(lo + 1, {"k": "ref", "place": {"l": co[1], "p": []}, "mut": str(C["locals"][1]["ty"]).startswith("&mut")}))
            else:
                bind.append(A(lo + 1, {"k": "use", "op": {"copy": {"l": co[1], "p": []}}}))
        if with_acc:
            bind.append(A(lo + 2, {"k": "use", "op": {"move": {"l": ACC, "p": []}}}))
        pl = el.get("move") or el.get("copy")
        bind.append(A(lo + item_l, {"k": "use", "op": ({"copy": pl} if pl is not None else el)}))
        new_blocks.append({"cleanup": False, "stmts": bind, "term": G(BODY)})
        new_blocks.append({"cleanup": False, "stmts": [A(D2, {"k": "discr", "place": {"l": R, "p": []}, "of": rty})],
                           "term": {"k": "switch", "discr": {"move": {"l": D2, "p": []}}, "dty": "isize", "vals": ["0", "1"], "tgts": [CONT, ERRS + k], "otherwise": UNR, "line": line, "exp": None}})
        cont_stmts = [A(ACC, {"k": "use", "op": {"move": {"l": R, "p": [{"dc": 0, "n": "Ok"}, {"f": 0, "n": "0", "ty": B["locals"][ACC]["ty"], "of": rty}]}}})] if with_acc else []
        new_blocks.append({"cleanup": False, "stmts": cont_stmts, "term": G(nxt)})
        new_blocks.extend(body_blocks)
        err_blocks.append({"cleanup": False, "stmts": [A(t["dest"], {"k": "use", "op": {"move": {"l": R, "p": []}}})], "term": G(t["t"])})
    ok_field = {"move": {"l": ACC, "p": []}} if with_acc else {"const": {"ty": "()", "dbg": "Val(ZeroSized, ())"}}
    done = {"cleanup": False, "stmts": [A(t["dest"], {"k": "agg", "ak": "adt", "adt": "std::result::Result", "variant": 0, "vname": "Ok", "fnames": ["0"], "active": None, "fields": [ok_field]})],
            "term": G(t["t"])}
    unr = {"cleanup": False, "stmts": [], "term": {"k": "unreachable", "line": line, "exp": None}}
    B["blocks"] = B["blocks"] + new_blocks + [done] + err_blocks + [unr]
    blk = B["blocks"][bi]
    if with_acc:
        blk["stmts"].append(A(ACC, {"k": "use", "op": t["args"][1]}))
    blk["term"] = {"k": "goto", "t": bo, "line": line, "exp": None, "inlined": co[0]}
    return True


def _expand_map_or_else(B, bi, t, by_path, lazy_default):
    """`dest = opt.map_or_else(D, F)` / `opt.map_or(d, F)` with local closures becomes
         switch discriminant(opt) { None => dest = D() | d, Some => dest = F(payload) }"""
    if len(t["args"]) != 3 or t.get("t") is None:
        return False
    r_pl = t["args"][0].get("move") or t["args"][0].get("copy")
    if r_pl is None or r_pl["p"]:
        return False
    cf = _resolve_closure_local(B, t["args"][2])
    if cf is None or cf[0] not in by_path or by_path[cf[0]]["arg_count"] != 2:
        return False
    cd = None
    if lazy_default:
        cd = _resolve_closure_local(B, t["args"][1])
        if cd is None or cd[0] not in by_path or by_path[cd[0]]["arg_count"] != 1:
            return False
    F = by_path[cf[0]]
    D = by_path[cd[0]] if cd else None
    if F is B or D is B:
        return False
    rty = B["locals"][r_pl["l"]].get("ty", "")
    line = t.get("line", 0)
    def A(lhs, rv):
        return {"k": "assign", "lhs": lhs if isinstance(lhs, dict) else {"l": lhs, "p": []}, "rv": rv, "line": line, "exp": None}
    def G(tgt):
        return {"k": "goto", "t": tgt, "line": line, "exp": None}
    def env(C, co, lo):
        if co[1] is None:
            return []
        if str(C["locals"][1].get("ty", "")).startswith("&"):
            return [A(lo + 1, {"k": "ref", "place": {"l": co[1], "p": []}, "mut": str(C["locals"][1]["ty"]).startswith("&mut")})]
        return [A(lo + 1, {"k": "use", "op": {"move": {"l": co[1], "p": []}}})]
    B["locals"] = B["locals"] + [{"ty": "isize"}]
    dl = len(B["locals"]) - 1
    bo = len(B["blocks"])
    NONE, SOME, UNR = bo, bo + 1, bo + 2
    nb_start = bo + 3
    # Some side
    lo_f = len(B["locals"])
    B["locals"] = B["locals"] + [dict(l) for l in F["locals"]]
    _SUB.clear()
    _POWNER[0] = cf[0]
    f_blocks = _copy_body(B, F, lo_f, nb_start, t["dest"], t["t"], line)
    _POWNER[0] = None
    some_stmts = env(F, cf, lo_f) + [A(lo_f + 2, {"k": "use", "op": {"move": {"l": r_pl["l"], "p": [{"dc": 1, "n": "Some"}, {"f": 0, "n": "0", "ty": F["locals"][2].get("ty", ""), "of": rty}]}}})]
    some_blk = {"cleanup": False, "stmts": some_stmts, "term": G(nb_start)}
    d_blocks = []
    if D is not None:
        lo_d = len(B["locals"])
        B["locals"] = B["locals"] + [dict(l) for l in D["locals"]]
        d_start = nb_start + len(f_blocks)
        _POWNER[0] = cd[0]
        d_blocks = _copy_body(B, D, lo_d, d_start, t["dest"], t["t"], line)
        _POWNER[0] = None
        none_blk = {"cleanup": False, "stmts": env(D, cd, lo_d), "term": G(d_start)}
    else:
        none_blk = {"cleanup": False, "stmts": [A(t["dest"], {"k": "use", "op": t["args"][1]})], "term": G(t["t"])}
    unr = {"cleanup": False, "stmts": [], "term": {"k": "unreachable", "line": line, "exp": None}}
    B["blocks"] = B["blocks"] + [none_blk, some_blk, unr] + f_blocks + d_blocks
    blk = B["blocks"][bi]
    blk["stmts"].append(A(dl, {"k": "discr", "place": {"l": r_pl["l"], "p": []}, "of": rty}))
    blk["term"] = {"k": "switch", "discr": {"move": {"l": dl, "p": []}}, "dty": "isize", "vals": ["0", "1"], "tgts": [NONE, SOME], "otherwise": UNR, "line": line, "exp": None, "inlined": cf[0]}
    return True


def _expand_filter(B, bi, t, by_path):
    """`dest = opt.filter(|x| pred)` with a local closure becomes
         switch discriminant(opt) { None => dest = None, Some => if pred(&payload) { dest = Some(payload) } else { dest = None } }
    so that a flag carried as `Some(v).filter(..)` and the `if` it stands for are the same shape."""
    if len(t["args"]) != 2 or t.get("t") is None:
        return False
    r_pl = t["args"][0].get("move") or t["args"][0].get("copy")
    if r_pl is None or r_pl["p"]:
        return False
    cf = _resolve_closure_local(B, t["args"][1])
    if cf is None or cf[0] not in by_path or by_path[cf[0]]["arg_count"] != 2:
        return False
    F = by_path[cf[0]]
    if F is B or _has_loop(F) or str(F["locals"][0].get("ty", "")) != "bool" or not str(F["locals"][2].get("ty", "")).startswith("&"):
        return False
    rty = B["locals"][r_pl["l"]].get("ty", "")
    item_ty = str(F["locals"][2]["ty"])[1:].lstrip()
    line = t.get("line", 0)
    def A(lhs, rv):
        return {"k": "assign", "lhs": lhs if isinstance(lhs, dict) else {"l": lhs, "p": []}, "rv": rv, "line": line, "exp": None}
    def G(tgt):
        return {"k": "goto", "t": tgt, "line": line, "exp": None}
    payload = {"l": r_pl["l"], "p": [{"dc": 1, "n": "Some"}, {"f": 0, "n": "0", "ty": item_ty, "of": rty}]}
    B["locals"] = B["locals"] + [{"ty": "isize"}, {"ty": "bool"}]
    dl, R = len(B["locals"]) - 2, len(B["locals"]) - 1
    lo = len(B["locals"])
    B["locals"] = B["locals"] + [dict(l) for l in F["locals"]]
    bo = len(B["blocks"])
    NONE, SOME, AFTER, KEEP, UNR, BODY = bo, bo + 1, bo + 2, bo + 3, bo + 4, bo + 5
    _SUB.clear()
    _POWNER[0] = cf[0]
    body_blocks = _copy_body(B, F, lo, BODY, {"l": R, "p": []}, AFTER, line)
    _POWNER[0] = None
    none_agg = {"k": "agg", "ak": "adt", "adt": "std::option::Option", "variant": 0, "vname": "None", "fnames": [], "active": None, "fields": []}
    some_agg = {"k": "agg", "ak": "adt", "adt": "std::option::Option", "variant": 1, "vname": "Some", "fnames": ["0"], "active": None, "fields": [{"copy": payload}]}
    env = []
    if cf[1] is not None:
        if str(F["locals"][1].get("ty", "")).startswith("&"):
            env.append(A(lo + 1, {"k": "ref", "place": {"l": cf[1], "p": []}, "mut": str(F["locals"][1]["ty"]).startswith("&mut")}))
        else:
            env.append(A(lo + 1, {"k": "use", "op": {"copy": {"l": cf[1], "p": []}}}))
    none_blk = {"cleanup": False, "stmts": [A(t["dest"], none_agg)], "term": G(t["t"])}
    some_blk = {"cleanup": False, "stmts": env + [A(lo + 2, {"k": "ref", "place": payload, "mut": False})], "term": G(BODY)}
    after = {"cleanup": False, "stmts": [], "term": {"k": "switch", "discr": {"copy": {"l": R, "p": []}}, "dty": "bool", "vals": ["0"], "tgts": [NONE], "otherwise": KEEP, "line": line, "exp": None}}
    keep = {"cleanup": False, "stmts": [A(t["dest"], some_agg)], "term": G(t["t"])}
    unr = {"cleanup": False, "stmts": [], "term": {"k": "unreachable", "line": line, "exp": None}}
    B["blocks"] = B["blocks"] + [none_blk, some_blk, after, keep, unr] + body_blocks
    blk = B["blocks"][bi]
    blk["stmts"].append(A(dl, {"k": "discr", "place": {"l": r_pl["l"], "p": []}, "of": rty}))
    blk["term"] = {"k": "switch", "discr": {"move": {"l": dl, "p": []}}, "dty": "isize", "vals": ["0", "1"], "tgts": [NONE, SOME], "otherwise": UNR, "line": line, "exp": None, "inlined": cf[0]}
    return True


def _unroll_array_for(B, bi, t):
    """`for x in [a, b, c] { body }` (the `next` call of a loop over an array literal built in this body) becomes the body once per
    element, in order: the same straight-line shape as writing the statements out, and as the `try_for_each` form."""
    import copy as _copy
    if len(t["args"]) != 1 or t.get("t") is None or t["dest"]["p"]:
        return False
    pl = t["args"][0].get("move") or t["args"][0].get("copy")
    if pl is None or pl["p"]:
        return False
    elems = _array_behind_iter(B, bi, pl["l"])
    if elems is None or not (0 < len(elems) <= 8):
        return False
    NX, TEST = t["dest"]["l"], t["t"]
    tb = B["blocks"][TEST]
    tt = tb["term"]
    if TEST == bi or tt["k"] != "switch" or list(tt["vals"]) != ["0", "1"]:
        return False
    if not any(s_["k"] == "assign" and s_["rv"]["k"] == "discr" and s_["rv"]["place"]["l"] == NX and not s_["rv"]["place"]["p"] for s_ in tb["stmts"]):
        return False
    EXIT, BODY = tt["tgts"]
    fwd, stack = set(), [BODY]
    while stack:
        n = stack.pop()
        if n in fwd or n == bi:
            continue
        fwd.add(n)
        stack.extend(_succ_raw(B["blocks"][n]))
    loop, grew = set(), True
    while grew:
        grew = False
        for n in fwd:
            if n not in loop and any(x == bi or x in loop for x in _succ_raw(B["blocks"][n])):
                loop.add(n)
                grew = True
    if BODY not in loop or TEST in loop or EXIT in loop or len(loop) * len(elems) > 600:
        return False
    line = t.get("line", 0)
    members = [bi, TEST] + sorted(loop)
    bo = len(B["blocks"])
    maps = [{m: bo + k * len(members) + j for j, m in enumerate(members)} for k in range(len(elems))]
    FINAL = bo + len(elems) * len(members)
    def retarget(term, mk, nxt):
        def r(x):
            if x == bi:
                return nxt
            return mk.get(x, x)
        if term["k"] == "goto":
            term["t"] = r(term["t"])
        elif term["k"] == "switch":
            term["tgts"] = [r(x) for x in term["tgts"]]
            term["otherwise"] = r(term["otherwise"])
        elif term["k"] in ("call", "drop", "assert") and term.get("t") is not None:
            term["t"] = r(term["t"])
    new_blocks = []
    for k, el in enumerate(elems):
        mk = maps[k]
        nxt = maps[k + 1][bi] if k + 1 < len(elems) else FINAL
        epl = el.get("move") or el.get("copy")
        some = {"k": "agg", "ak": "adt", "adt": "std::option::Option", "variant": 1, "vname": "Some", "fnames": ["0"], "active": None,
                "fields": [({"copy": epl} if epl is not None else el)]}
        for m in members:
            nb = _copy.deepcopy(B["blocks"][m])
            if m == bi:
                nb["stmts"].append({"k": "assign", "lhs": {"l": NX, "p": []}, "rv": some, "line": line, "exp": None})
                nb["term"] = {"k": "goto", "t": mk[TEST], "line": line, "exp": None}
            elif m == TEST:
                nb["term"] = {"k": "goto", "t": mk[BODY], "line": line, "exp": None}
            else:
                retarget(nb["term"], mk, nxt)
            new_blocks.append(nb)
    none = {"k": "agg", "ak": "adt", "adt": "std::option::Option", "variant": 0, "vname": "None", "fnames": [], "active": None, "fields": []}
    final = {"cleanup": False, "stmts": [{"k": "assign", "lhs": {"l": NX, "p": []}, "rv": none, "line": line, "exp": None}],
             "term": {"k": "goto", "t": EXIT, "line": line, "exp": None}}
    B["blocks"] = B["blocks"] + new_blocks + [final]
    blk = B["blocks"][bi]
    blk["stmts"] = []
    blk["term"] = {"k": "goto", "t": maps[0][bi], "line": line, "exp": None, "inlined": "for-array"}
    return True


def _expand_mem_replace(B, bi, t):
    """`dest = mem::replace(&mut PLACE, v)` with the reference taken in the calling block becomes `dest = PLACE; PLACE = v`:
    a counter advanced through `mem::replace(&mut self.seq, next)` is the same read and the same store as the two statements."""
    if len(t["args"]) != 2 or t.get("t") is None:
        return False
    src = _ref_source(B, bi, t["args"][0])
    if src is None:
        return False
    line = t.get("line", 0)
    blk = B["blocks"][bi]
    blk["stmts"].append({"k": "assign", "lhs": t["dest"], "rv": {"k": "use", "op": {"copy": {"l": src["l"], "p": list(src["p"])}}}, "line": line, "exp": None})
    blk["stmts"].append({"k": "assign", "lhs": {"l": src["l"], "p": list(src["p"])}, "rv": {"k": "use", "op": t["args"][1]}, "line": line, "exp": None})
    blk["term"] = {"k": "goto", "t": t["t"], "line": line, "exp": None, "inlined": "mem::replace"}
    return True


def _next_rpath(it_ty):
    """the resolved name rustc gives `Iterator::next` on the std slice iterators (what a `for` loop over them shows), else None"""
    m = re.match(r"^(?:&mut )?std::slice::(ChunksExact|Chunks|Iter)<", it_ty or "")
    return "<std::slice::%s<'a, T> as std::iter::Iterator>::next" % m.group(1) if m else None


def _expand_extend_map(B, bi, t, by_path):
    """`v.extend(it.map(|x| body))` with a local closure becomes the loop it stands for,
         loop { match Iterator::next(&mut it) { None => break, Some(x) => Vec::push(&mut *v, body(x)) } }
    so that filling a vector through an iterator pipeline and through a `for` loop with `push` are the same shape."""
    if len(t["args"]) != 2 or t.get("t") is None:
        return False
    v_pl = t["args"][0].get("move") or t["args"][0].get("copy")
    m_pl = t["args"][1].get("move") or t["args"][1].get("copy")
    if v_pl is None or v_pl["p"] or m_pl is None or m_pl["p"]:
        return False
    # the iterator handed to extend is, through moves, the result of one Iterator::map call
    ml = m_pl["l"]
    bm = None
    for _ in range(6):
        cs = [i_ for i_, bk in enumerate(B["blocks"]) if bk["term"]["k"] == "call" and bk["term"]["dest"]["l"] == ml and not bk["term"]["dest"]["p"]]
        if len(cs) == 1:
            bm = cs[0]
            break
        d = _unique_def(B, ml)
        if d is None or d["rv"]["k"] != "use":
            return False
        q = d["rv"]["op"].get("move") or d["rv"]["op"].get("copy")
        if q is None or q["p"]:
            return False
        ml = q["l"]
    if bm is None:
        return False
    tm = B["blocks"][bm]["term"]
    if "indirect" in tm["func"] or not tm["func"]["path"].endswith("iter::Iterator::map") or len(tm["args"]) != 2 or tm.get("t") is None:
        return False
    in_pl = tm["args"][0].get("move") or tm["args"][0].get("copy")
    co = _resolve_closure_local(B, tm["args"][1])
    if in_pl is None or in_pl["p"] or co is None or co[0] not in by_path:
        return False
    C = by_path[co[0]]
    if C is B or C["arg_count"] != 2 or (_has_loop(C) and _in_cycle(B, bi)):
        return False
    line = t.get("line", 0)
    elem_ty = C["locals"][0].get("ty", "")
    item_ty = C["locals"][2].get("ty", "")
    opt_ty = "std::option::Option<%s>" % item_ty
    it_ty = (tm.get("arg_tys") or [B["locals"][in_pl["l"]].get("ty", "")])[0]
    vref_ty = (t.get("arg_tys") or [""])[0]
    ga = (t["func"].get("rgargs") or [elem_ty, "std::alloc::Global"])[:2]
    n0 = len(B["locals"])
    B["locals"] = B["locals"] + [{"ty": "&mut " + it_ty}, {"ty": opt_ty}, {"ty": "isize"}, {"ty": elem_ty}, {"ty": vref_ty}, {"ty": "()"}]
    RR, NX, D1, R, VR, U = n0, n0 + 1, n0 + 2, n0 + 3, n0 + 4, n0 + 5
    lo = len(B["locals"])
    B["locals"] = B["locals"] + [dict(l) for l in C["locals"]]
    bo = len(B["blocks"])
    HEAD, TEST, DONE, BIND, PUSH, UNR, BODY = bo, bo + 1, bo + 2, bo + 3, bo + 4, bo + 5, bo + 6
    _SUB.clear()
    _POWNER[0] = co[0]
    body_blocks = _copy_body(B, C, lo, BODY, {"l": R, "p": []}, PUSH, line)
    _POWNER[0] = None
    def A(lhs, rv):
        return {"k": "assign", "lhs": lhs if isinstance(lhs, dict) else {"l": lhs, "p": []}, "rv": rv, "line": line, "exp": None}
    def G(tgt):
        return {"k": "goto", "t": tgt, "line": line, "exp": None}
    head = {"cleanup": False, "stmts": [A(RR, {"k": "ref", "mut": True, "place": {"l": in_pl["l"], "p": []}})],
            "term": {"k": "call", "func": {"path": "std::iter::Iterator::next", "gargs": [it_ty], "local": False, "trait": "std::iter::Iterator", "name": "next", "rpath": _next_rpath(it_ty)},
                     "args": [{"move": {"l": RR, "p": []}}], "arg_tys": ["&mut " + it_ty], "dest": {"l": NX, "p": []}, "t": TEST, "unwind": t.get("unwind"), "fn_line": line, "line": line,
                     "exp": None, "inlined": "extend"}}
    test = {"cleanup": False, "stmts": [A(D1, {"k": "discr", "place": {"l": NX, "p": []}, "of": opt_ty})],
            "term": {"k": "switch", "discr": {"move": {"l": D1, "p": []}}, "dty": "isize", "vals": ["0", "1"], "tgts": [DONE, BIND], "otherwise": UNR, "line": line, "exp": None}}
    done = {"cleanup": False, "stmts": [A(t["dest"], {"k": "use", "op": {"const": {"ty": "()", "dbg": "Val(ZeroSized, ())"}}})], "term": G(t["t"])}
    bind_stmts = []
    if co[1] is not None:
        if str(C["locals"][1].get("ty", "")).startswith("&"):
            bind_stmts.append(A(lo + 1, {"k": "ref", "place": {"l": co[1], "p": []}, "mut": str(C["locals"][1]["ty"]).startswith("&mut")}))
        else:
            bind_stmts.append(A(lo + 1, {"k": "use", "op": {"copy": {"l": co[1], "p": []}}}))
    bind_stmts.append(A(lo + 2, {"k": "use", "op": {"copy": {"l": NX, "p": [{"dc": 1, "n": "Some"}, {"f": 0, "n": "0", "ty": item_ty, "of": opt_ty}]}}}))
    bind = {"cleanup": False, "stmts": bind_stmts, "term": G(BODY)}
    pushf = {"path": "std::vec::Vec::<T, A>::push", "gargs": list(ga), "local": False, "name": "push", "impl_self": "std::vec::Vec<T, A>",
             "rpath": "std::vec::Vec::<T, A>::push", "rgargs": list(ga), "rlocal": False, "rkind": "Item", "rimpl_self": "std::vec::Vec<T, A>"}
    push = {"cleanup": False, "stmts": [A(VR, {"k": "ref", "mut": True, "place": {"l": v_pl["l"], "p": ["deref"]}})],
            "term": {"k": "call", "func": pushf, "args": [{"move": {"l": VR, "p": []}}, {"move": {"l": R, "p": []}}], "arg_tys": [vref_ty, elem_ty], "dest": {"l": U, "p": []},
                     "t": HEAD, "unwind": t.get("unwind"), "fn_line": line, "line": line, "exp": None, "inlined": "extend"}}
    unr = {"cleanup": False, "stmts": [], "term": {"k": "unreachable", "line": line, "exp": None}}
    B["blocks"] = B["blocks"] + [head, test, done, bind, push, unr] + body_blocks
    B["blocks"][bm]["term"] = {"k": "goto", "t": tm["t"], "line": tm.get("line", line), "exp": None, "inlined": "map"}
    B["blocks"][bi]["term"] = {"k": "goto", "t": HEAD, "line": line, "exp": None, "inlined": co[0]}
    return True


def _expand_unwrap_or(B, bi, t):
    """`dest = opt.unwrap_or(d)` becomes  switch discriminant(opt) { Some => dest = payload, None => dest = d }"""
    if len(t["args"]) != 2 or t.get("t") is None:
        return False
    r_pl = t["args"][0].get("move") or t["args"][0].get("copy")
    if r_pl is None or r_pl["p"]:
        return False
    rty = B["locals"][r_pl["l"]].get("ty", "")
    line = t.get("line", 0)
    B["locals"] = B["locals"] + [{"ty": "isize"}]
    dl = len(B["locals"]) - 1
    bo = len(B["blocks"])
    def A(lhs, rv):
        return {"k": "assign", "lhs": lhs, "rv": rv, "line": line, "exp": None}
    none_blk = {"cleanup": False, "stmts": [A(t["dest"], {"k": "use", "op": t["args"][1]})], "term": {"k": "goto", "t": t["t"], "line": line, "exp": None}}
    some_blk = {"cleanup": False, "stmts": [A(t["dest"], {"k": "use", "op": {"move": {"l": r_pl["l"], "p": [{"dc": 1, "n": "Some"}, {"f": 0, "n": "0", "ty": "", "of": rty}]}}})],
                "term": {"k": "goto", "t": t["t"], "line": line, "exp": None}}
    unr = {"cleanup": False, "stmts": [], "term": {"k": "unreachable", "line": line, "exp": None}}
    B["blocks"] = B["blocks"] + [none_blk, some_blk, unr]
    blk = B["blocks"][bi]
    blk["stmts"].append({"k": "assign", "lhs": {"l": dl, "p": []}, "rv": {"k": "discr", "place": {"l": r_pl["l"], "p": []}, "of": rty}, "line": line, "exp": None})
    blk["term"] = {"k": "switch", "discr": {"move": {"l": dl, "p": []}}, "dty": "isize", "vals": ["0", "1"], "tgts": [bo, bo + 1], "otherwise": bo + 2, "line": line, "exp": None, "inlined": "unwrap_or"}
    return True


def _expand_try_fold(B, bi, t, by_path, with_acc):
    """`dest = iter.try_fold(init, |acc, x| body)` / `dest = iter.try_for_each(|x| body)` with a local closure returning a Result becomes
    the loop it stands for:
         acc = init; loop { match Iterator::next(&mut *iter) { None => { dest = Ok(acc); break }
                                                               Some(x) => match body(acc, x) { Ok(a) => acc = a, r => { dest = r; break } } } }
    so that iterator-combinator loops and `for` loops are the same shape to every engine."""
    nargs = 3 if with_acc else 2
    if len(t["args"]) != nargs or t.get("t") is None:
        return False
    it_pl = t["args"][0].get("move") or t["args"][0].get("copy")
    co = _resolve_closure_local(B, t["args"][-1])
    if it_pl is None or it_pl["p"] or co is None or co[0] not in by_path:
        return False
    C = by_path[co[0]]
    if C is B or C["arg_count"] != (3 if with_acc else 2) or not str(C["locals"][0].get("ty", "")).startswith("std::result::Result<"):
        return False
    if _has_loop(C) and _in_cycle(B, bi):
        return False
    line = t.get("line", 0)
    arr = _array_behind_iter(B, bi, it_pl["l"])
    if arr is not None and 0 < len(arr) <= 24:
        return _unroll_try_fold(B, bi, t, C, co, with_acc, arr, line)
    rty = C["locals"][0]["ty"]
    item_l = 3 if with_acc else 2
    item_ty = C["locals"][item_l].get("ty", "")
    opt_ty = "std::option::Option<%s>" % item_ty
    it_ty = (t.get("arg_tys") or [B["locals"][it_pl["l"]].get("ty", "")])[0]
    n0 = len(B["locals"])
    # new scratch locals: reborrow, next() result, its discriminant, closure result, its discriminant, accumulator
    B["locals"] = B["locals"] + [{"ty": it_ty}, {"ty": opt_ty}, {"ty": "isize"}, {"ty": rty}, {"ty": "isize"}, {"ty": C["locals"][2].get("ty", "") if with_acc else "()"}]
    RR, NX, D1, R, D2, ACC = n0, n0 + 1, n0 + 2, n0 + 3, n0 + 4, n0 + 5
    lo = len(B["locals"])
    B["locals"] = B["locals"] + [dict(l) for l in C["locals"]]
    bo = len(B["blocks"])
    HEAD, TEST, DONE, BIND, AFTER, CONT, ERR, UNR, BODY = bo, bo + 1, bo + 2, bo + 3, bo + 4, bo + 5, bo + 6, bo + 7, bo + 8
    _SUB.clear()
    _POWNER[0] = co[0]
    body_blocks = _copy_body(B, C, lo, BODY, {"l": R, "p": []}, AFTER, line)
    _POWNER[0] = None
    def A(lhs, rv):
        return {"k": "assign", "lhs": lhs if isinstance(lhs, dict) else {"l": lhs, "p": []}, "rv": rv, "line": line, "exp": None}
    def G(tgt):
        return {"k": "goto", "t": tgt, "line": line, "exp": None}
    head = {"cleanup": False, "stmts": [A(RR, {"k": "ref", "mut": True, "place": {"l": it_pl["l"], "p": ["deref"]}})],
            "term": {"k": "call", "func": {"path": "std::iter::Iterator::next", "gargs": [it_ty.replace("&mut ", "", 1)], "local": False, "trait": "std::iter::Iterator", "name": "next", "rpath": _next_rpath(it_ty)},
                     "args": [{"move": {"l": RR, "p": []}}], "arg_tys": [it_ty], "dest": {"l": NX, "p": []}, "t": TEST, "unwind": t.get("unwind"), "fn_line": line, "line": line,
                     "exp": None, "inlined": "try_fold"}}
    test = {"cleanup": False, "stmts": [A(D1, {"k": "discr", "place": {"l": NX, "p": []}, "of": opt_ty})],
            "term": {"k": "switch", "discr": {"move": {"l": D1, "p": []}}, "dty": "isize", "vals": ["0", "1"], "tgts": [DONE, BIND], "otherwise": UNR, "line": line, "exp": None}}
    ok_field = {"move": {"l": ACC, "p": []}} if with_acc else {"const": {"ty": "()", "dbg": "Val(ZeroSized, ())"}}
    done = {"cleanup": False, "stmts": [A(t["dest"], {"k": "agg", "ak": "adt", "adt": "std::result::Result", "variant": 0, "vname": "Ok", "fnames": ["0"], "active": None, "fields": [ok_field]})],
            "term": G(t["t"])}
    bind_stmts = []
    if co[1] is not None:
        if str(C["locals"][1].get("ty", "")).startswith("&"):
            bind_stmts.append(A(lo + 1, {"k": "ref", "place": {"l": co[1], "p": []}, "mut": str(C["locals"][1]["ty"]).startswith("&mut")}))
        else:
            bind_stmts.append(A(lo + 1, {"k": "use", "op": {"copy": {"l": co[1], "p": []}}}))
    if with_acc:
        bind_stmts.append(A(lo + 2, {"k": "use", "op": {"move": {"l": ACC, "p": []}}}))
    bind_stmts.append(A(lo + item_l, {"k": "use", "op": {"copy": {"l": NX, "p": [{"dc": 1, "n": "Some"}, {"f": 0, "n": "0", "ty": item_ty, "of": opt_ty}]}}}))
    bind = {"cleanup": False, "stmts": bind_stmts, "term": G(BODY)}
    after = {"cleanup": False, "stmts": [A(D2, {"k": "discr", "place": {"l": R, "p": []}, "of": rty})],
             "term": {"k": "switch", "discr": {"move": {"l": D2, "p": []}}, "dty": "isize", "vals": ["0", "1"], "tgts": [CONT, ERR], "otherwise": UNR, "line": line, "exp": None}}
    cont_stmts = [A(ACC, {"k": "use", "op": {"move": {"l": R, "p": [{"dc": 0, "n": "Ok"}, {"f": 0, "n": "0", "ty": B["locals"][ACC]["ty"], "of": rty}]}}})] if with_acc else []
    cont = {"cleanup": False, "stmts": cont_stmts, "term": G(HEAD)}
    err = {"cleanup": False, "stmts": [A(t["dest"], {"k": "use", "op": {"move": {"l": R, "p": []}}})], "term": G(t["t"])}
    unr = {"cleanup": False, "stmts": [], "term": {"k": "unreachable", "line": line, "exp": None}}
    B["blocks"] = B["blocks"] + [head, test, done, bind, after, cont, err, unr] + body_blocks
    blk = B["blocks"][bi]
    if with_acc:
        blk["stmts"].append(A(ACC, {"k": "use", "op": t["args"][1]}))
    blk["term"] = {"k": "goto", "t": HEAD, "line": line, "exp": None, "inlined": co[0]}
    return True


_GEN_RX = re.compile(r"<(?:'?[A-Za-z_]\w*)(?:, '?[A-Za-z_]\w*)*>")


def _norm_generics(path):
    """`PacketConn::<W>::f` and `PacketConn::<RW>::f` are the same function"""
    prev = None
    while prev != path:
        prev = path
        path = _GEN_RX.sub("<_>", path)
    return path


def _canonical_generic_names(facts, known_list):
    """A function whose path differs from a known one only in the *names* of generic parameters (a method moved to
    an impl block that calls the parameter `RW` instead of `W`) is given the known path again, everywhere it is
    mentioned, so that rules and tables keyed by path keep applying."""
    have = {b["path"] for b in facts["bodies"]}
    by_norm = {}
    for k in known_list:
        by_norm.setdefault(_norm_generics(k), []).append(k)
    ren = {}
    for b in facts["bodies"]:
        pth = b["path"]
        if b["kind"] != "fn" or pth in known_list:
            continue
        c = by_norm.get(_norm_generics(pth), [])
        if len(c) == 1 and c[0] not in have:
            ren[pth] = c[0]
    if not ren:
        return facts
    facts = _replace_paths(facts, ren)
    facts["renamed_generics"] = ren
    return facts


def _succ_raw(bk):
    t = bk["term"]
    k = t["k"]
    if k == "goto":
        return [t["t"]]
    if k == "switch":
        return list(t["tgts"]) + [t["otherwise"]]
    if k in ("call", "drop", "assert"):
        return [t["t"]] if t.get("t") is not None else []
    return []


def _in_cycle(B, bi):
    """is block bi on a cycle of the (raw) body along normal edges?"""
    seen = set()
    stack = list(_succ_raw(B["blocks"][bi]))
    while stack:
        n = stack.pop()
        if n == bi:
            return True
        if n in seen:
            continue
        seen.add(n)
        stack.extend(_succ_raw(B["blocks"][n]))
    return False


def _replace_paths(facts, ren):
    txt = json.dumps(facts)
    for old_, new_ in sorted(ren.items(), key=lambda kv: -len(kv[0])):
        o = json.dumps(old_)[1:-1]
        n = json.dumps(new_)[1:-1]
        txt = re.sub(re.escape(o) + r'(?=["\\:])', n.replace("\\", "\\\\"), txt)
    return json.loads(txt)


def _canonical_renames(facts, ks):
    """Pure renames are not part of a function's or a field's identity: a known function that disappeared and a new
    function with the same parent and signature (unique on both sides) is given the known path again; likewise a field
    of a known struct whose name disappeared while exactly one new field of the same type appeared."""
    known = ks.get("fns", {})
    have = {b["path"]: b for b in facts["bodies"] if b["kind"] == "fn"}
    have_norm = {_norm_generics(p_) for p_ in have}
    known_norm = {_norm_generics(k): k for k in known}

    def key(parent, sin, sout):
        return (_norm_generics(parent or ""), tuple(_norm_generics(x) for x in (sin or [])), _norm_generics(sout or ""))
    missing = {}
    for k, sg in known.items():
        if _norm_generics(k) not in have_norm:
            missing.setdefault(key(sg.get("parent"), sg.get("sig_in"), sg.get("sig_out")), []).append(k)
    fresh = {}
    for p_, b in have.items():
        if _norm_generics(p_) not in known_norm and "::tests::" not in p_:
            fresh.setdefault(key(b.get("parent"), b.get("sig_in"), b.get("sig_out")), []).append(p_)
    def callees_of(b):
        out = []
        for bk in b["blocks"]:
            t = bk["term"]
            if t["k"] == "call" and "indirect" not in t["func"]:
                out.append(t["func"].get("rpath") or t["func"]["path"])
        return sorted(out)
    ren = {}
    for kx, olds in missing.items():
        news = fresh.get(kx, [])
        if len(olds) == 1 and len(news) == 1:
            ren[news[0]] = olds[0]
        elif olds and len(olds) == len(news):
            # several functions of one shape renamed at once: pair them by what they call (ignoring each other's names)
            gone_names = set(olds) | set(news)
            def fp(cs):
                return tuple(c for c in cs if c not in gone_names)
            by_fp_old, by_fp_new = {}, {}
            for o in olds:
                by_fp_old.setdefault(fp(known[o].get("callees", [])), []).append(o)
            for n_ in news:
                by_fp_new.setdefault(fp(callees_of(have[n_])), []).append(n_)
            for f_, os_ in by_fp_old.items():
                ns_ = by_fp_new.get(f_, [])
                if len(os_) == 1 and len(ns_) == 1:
                    ren[ns_[0]] = os_[0]
    if ren:
        facts = _replace_paths(facts, ren)
        for b in facts["bodies"]:
            if b["path"] in ren.values():
                b["name"] = b["path"].split("::")[-1]
        facts["renamed_fns"] = ren
    # ---- structs moved to another module (same name, same fields) ---------------------------------
    kfields = ks.get("fields", {})
    cur_adts = {a["path"]: a for a in facts["adts"]}
    aren = {}
    for kp_, kf in kfields.items():
        if kp_ in cur_adts:
            continue
        last = kp_.split("::")[-1]
        cands = [a for pth, a in cur_adts.items() if pth.split("::")[-1] == last and pth not in kfields and a.get("kind") == "struct" and a.get("local") and a.get("variants")
                 and sorted(f["name"] for f in a["variants"][0]["fields"]) == sorted(n for n, _ in kf)]
        if len(cands) == 1:
            aren[cands[0]["path"]] = kp_
    if aren:
        txt = json.dumps(facts)
        for old_, new_ in sorted(aren.items(), key=lambda kv: -len(kv[0])):
            o = json.dumps(old_)[1:-1]
            n = json.dumps(new_)[1:-1]
            txt = re.sub(r'(?<![A-Za-z0-9_:])' + re.escape(o) + r'(?![A-Za-z0-9_])', n.replace("\\", "\\\\"), txt)
        facts = json.loads(txt)
        facts["moved_adts"] = aren
    # ---- fields -----------------------------------------------------------------------------
    fren = {}
    for a in facts["adts"]:
        kf = ks.get("fields", {}).get(a["path"])
        if not kf or a.get("kind") != "struct" or not a.get("variants"):
            continue
        cur = [(f["name"], f["ty"]) for f in a["variants"][0]["fields"]]
        cur_names = {n for n, _ in cur}
        known_names = {n for n, _ in kf}
        gone = [(n, t) for n, t in kf if n not in cur_names]
        came = [(n, t) for n, t in cur if n not in known_names]
        for n_old, t_old in gone:
            cands = [n for n, t in came if _norm_generics(t) == _norm_generics(t_old)]
            if len(cands) == 1 and sum(1 for n2, t2 in gone if _norm_generics(t2) == _norm_generics(t_old)) == 1:
                fren[(a["path"], cands[0])] = n_old
    if fren:
        def walk(x):
            if isinstance(x, dict):
                if "f" in x and "n" in x and "of" in x and isinstance(x.get("of"), str):
                    base = x["of"].split("<")[0]
                    r = fren.get((base, x["n"]))
                    if r:
                        x["n"] = r
                if x.get("ak") == "adt" and "fnames" in x and isinstance(x.get("adt"), str):
                    x["fnames"] = [fren.get((x["adt"], n), n) for n in x["fnames"]]
                for v in x.values():
                    walk(v)
            elif isinstance(x, list):
                for v in x:
                    walk(v)
        walk(facts["bodies"])
        for a in facts["adts"]:
            if a.get("variants"):
                for f in a["variants"][0]["fields"]:
                    f["name"] = fren.get((a["path"], f["name"]), f["name"])
        facts["renamed_fields"] = {"%s.%s" % k: v for k, v in fren.items()}
    return facts


def _has_loop(C):
    """does the (raw) body have a cycle along normal edges?"""
    succ = {}
    for i, bk in enumerate(C["blocks"]):
        t = bk["term"]
        k = t["k"]
        if k == "goto":
            succ[i] = [t["t"]]
        elif k == "switch":
            succ[i] = list(t["tgts"]) + [t["otherwise"]]
        elif k in ("call", "drop", "assert"):
            succ[i] = [t["t"]] if t.get("t") is not None else []
        else:
            succ[i] = []
    color = {}
    stack = [(0, iter(succ.get(0, [])))]
    color[0] = 1
    while stack:
        n, it = stack[-1]
        for m in it:
            if color.get(m) == 1:
                return True
            if m not in color:
                color[m] = 1
                stack.append((m, iter(succ.get(m, []))))
                break
        else:
            color[n] = 2
            stack.pop()
    return False


def _expand_unwrap_or_else(B, bi, t, by_path):
    """`dest = r.unwrap_or_else(|e| body)` with a local closure becomes  switch discriminant(r) { Ok => dest = payload, Err => dest = body(e) }
    (the usual way of handing an error to a handler: `r.unwrap_or_else(|e| self.defer_error(e))`)."""
    if len(t["args"]) != 2 or t.get("t") is None:
        return False
    r_pl = t["args"][0].get("move") or t["args"][0].get("copy")
    co = _closure_of_operand(B, bi, t["args"][1])
    if r_pl is None or r_pl["p"] or co is None or co[0] not in by_path:
        return False
    C = by_path[co[0]]
    if C["arg_count"] != 2:
        return False
    if not any(bk["term"]["k"] == "return" and not bk.get("cleanup") for bk in C["blocks"]):
        return False      # a handler that only panics stays a closure (its panic site keeps its identity)
    rty = B["locals"][r_pl["l"]].get("ty", "")
    line = t.get("line", 0)
    lo = len(B["locals"])
    B["locals"] = B["locals"] + [dict(l) for l in C["locals"]] + [{"ty": "isize"}]
    dl = len(B["locals"]) - 1
    bo = len(B["blocks"])
    _SUB.clear()
    _POWNER[0] = co[0]
    body_blocks = _copy_body(B, C, lo, bo + 2, t["dest"], t["t"], line)
    _POWNER[0] = None
    err_stmts = []
    if co[1] is not None:
        if str(C["locals"][1].get("ty", "")).startswith("&"):
            err_stmts.append({"k": "assign", "lhs": {"l": lo + 1, "p": []}, "rv": {"k": "ref", "place": {"l": co[1], "p": []}, "mut": str(C["locals"][1]["ty"]).startswith("&mut")}, "line": line, "exp": None})
        else:
            err_stmts.append({"k": "assign", "lhs": {"l": lo + 1, "p": []}, "rv": {"k": "use", "op": {"move": {"l": co[1], "p": []}}}, "line": line, "exp": None})
    err_stmts.append({"k": "assign", "lhs": {"l": lo + 2, "p": []}, "rv": {"k": "use", "op": {"move": {"l": r_pl["l"], "p": [{"dc": 1, "n": "Err"}, {"f": 0, "n": "0", "ty": "", "of": rty}]}}}, "line": line, "exp": None})
    err_blk = {"cleanup": False, "stmts": err_stmts, "term": {"k": "goto", "t": bo + 2, "line": line, "exp": None}}
    ok_blk = {"cleanup": False, "stmts": [{"k": "assign", "lhs": t["dest"], "rv": {"k": "use", "op": {"move": {"l": r_pl["l"], "p": [{"dc": 0, "n": "Ok"}, {"f": 0, "n": "0", "ty": "", "of": rty}]}}}, "line": line, "exp": None}],
              "term": {"k": "goto", "t": t["t"], "line": line, "exp": None}}
    B["blocks"] = B["blocks"] + [ok_blk, err_blk] + body_blocks
    blk = B["blocks"][bi]
    blk["stmts"].append({"k": "assign", "lhs": {"l": dl, "p": []}, "rv": {"k": "discr", "place": {"l": r_pl["l"], "p": []}, "of": rty}, "line": line, "exp": None})
    blk["term"] = {"k": "switch", "discr": {"move": {"l": dl, "p": []}}, "vals": ["0", "1"], "tgts": [bo, bo + 1], "otherwise": bo + 1, "line": line, "exp": None, "inlined": co[0]}
    return True


def _expand_or_else(B, bi, t, by_path):
    """`dest = opt.or_else(|| body)` with a local closure becomes  switch discriminant(opt) { Some => dest = opt, None => dest = body() }"""
    if len(t["args"]) != 2 or t.get("t") is None:
        return False
    r_pl = t["args"][0].get("move") or t["args"][0].get("copy")
    co = _closure_of_operand(B, bi, t["args"][1])
    if r_pl is None or r_pl["p"] or co is None or co[0] not in by_path:
        return False
    C = by_path[co[0]]
    if C["arg_count"] != 1:
        return False
    rty = B["locals"][r_pl["l"]].get("ty", "")
    line = t.get("line", 0)
    lo = len(B["locals"])
    B["locals"] = B["locals"] + [dict(l) for l in C["locals"]] + [{"ty": "isize"}]
    dl = len(B["locals"]) - 1
    bo = len(B["blocks"])
    _SUB.clear()
    _POWNER[0] = co[0]
    body_blocks = _copy_body(B, C, lo, bo + 2, t["dest"], t["t"], line)
    _POWNER[0] = None
    none_stmts = []
    if co[1] is not None:
        if str(C["locals"][1].get("ty", "")).startswith("&"):
            none_stmts.append({"k": "assign", "lhs": {"l": lo + 1, "p": []}, "rv": {"k": "ref", "place": {"l": co[1], "p": []}, "mut": str(C["locals"][1]["ty"]).startswith("&mut")}, "line": line, "exp": None})
        else:
            none_stmts.append({"k": "assign", "lhs": {"l": lo + 1, "p": []}, "rv": {"k": "use", "op": {"move": {"l": co[1], "p": []}}}, "line": line, "exp": None})
    none_blk = {"cleanup": False, "stmts": none_stmts, "term": {"k": "goto", "t": bo + 2, "line": line, "exp": None}}
    some_blk = {"cleanup": False, "stmts": [{"k": "assign", "lhs": t["dest"], "rv": {"k": "use", "op": {"move": {"l": r_pl["l"], "p": []}}}, "line": line, "exp": None}],
                "term": {"k": "goto", "t": t["t"], "line": line, "exp": None}}
    B["blocks"] = B["blocks"] + [none_blk, some_blk] + body_blocks
    blk = B["blocks"][bi]
    blk["stmts"].append({"k": "assign", "lhs": {"l": dl, "p": []}, "rv": {"k": "discr", "place": {"l": r_pl["l"], "p": []}, "of": rty}, "line": line, "exp": None})
    blk["term"] = {"k": "switch", "discr": {"move": {"l": dl, "p": []}}, "vals": ["0", "1"], "tgts": [bo, bo + 1], "otherwise": bo, "line": line, "exp": None, "inlined": co[0]}
    return True


def _expand_map(B, bi, t, by_path, adts, kind):
    """`dest = r.map(F)` for a Result/Option `r` and F a tuple-variant constructor or a local closure becomes
         switch discriminant(r) { Ok/Some => dest = Ok/Some(F(payload)), Err/None => dest = Err(payload)/None }."""
    if len(t["args"]) != 2 or t.get("t") is None:
        return False
    r_pl = t["args"][0].get("move") or t["args"][0].get("copy")
    if r_pl is None or r_pl["p"]:
        return False
    f = t["args"][1]
    ctor = None
    co = None
    c = f.get("const")
    if c is not None and "fn" in c:
        path = c["fn"]["path"]
        adt, _, vname = path.rpartition("::")
        a = adts.get(adt)
        if a is not None:
            for v in a["variants"]:
                if v["name"] == vname and len(v["fields"]) == 1:
                    ctor = (adt, v["idx"], vname)
    fnitem = None
    if ctor is None and c is not None and "fn" in c:
        fnitem = c["fn"]          # a plain function named as the mapper: `.map(<[u8]>::to_vec)`, `.map(u32::from)`
    if ctor is None and fnitem is None:
        co = _closure_of_operand(B, bi, f)
        if co is None or co[0] not in by_path or by_path[co[0]]["arg_count"] != 2:
            return False
    rty = B["locals"][r_pl["l"]].get("ty", "")
    line = t.get("line", 0)
    ok_name, ok_idx = ("Ok", 0) if kind == "Result" else ("Some", 1)
    er_name, er_idx = ("Err", 1) if kind == "Result" else ("None", 0)
    wrap_adt = "std::result::Result" if kind == "Result" else "std::option::Option"
    bo = len(B["blocks"])
    B["locals"] = B["locals"] + [{"ty": "isize"}, {"ty": "?mapped"}]
    dl, ml = len(B["locals"]) - 2, len(B["locals"]) - 1
    payload = {"move": {"l": r_pl["l"], "p": [{"dc": ok_idx, "n": ok_name}, {"f": 0, "n": "0", "ty": "", "of": rty}]}}
    wrap_blk = {"cleanup": False, "stmts": [
        {"k": "assign", "lhs": t["dest"], "rv": {"k": "agg", "ak": "adt", "adt": wrap_adt, "variant": ok_idx, "vname": ok_name, "fnames": ["0"], "active": None,
                                                 "fields": [{"move": {"l": ml, "p": []}}]}, "line": line, "exp": None}],
        "term": {"k": "goto", "t": t["t"], "line": line, "exp": None}}
    if kind == "Result":
        er_fields = [{"move": {"l": r_pl["l"], "p": [{"dc": 1, "n": "Err"}, {"f": 0, "n": "0", "ty": "", "of": rty}]}}]
    else:
        er_fields = []
    err_blk = {"cleanup": False, "stmts": [
        {"k": "assign", "lhs": t["dest"], "rv": {"k": "agg", "ak": "adt", "adt": wrap_adt, "variant": er_idx, "vname": er_name, "fnames": ["0"] if er_fields else [], "active": None,
                                                 "fields": er_fields}, "line": line, "exp": None}],
        "term": {"k": "goto", "t": t["t"], "line": line, "exp": None}}
    if ctor is not None:
        ok_blk = {"cleanup": False, "stmts": [
            {"k": "assign", "lhs": {"l": ml, "p": []}, "rv": {"k": "agg", "ak": "adt", "adt": ctor[0], "variant": ctor[1], "vname": ctor[2], "fnames": ["0"], "active": None,
                                                             "fields": [payload]}, "line": line, "exp": None}],
            "term": {"k": "goto", "t": bo + 1, "line": line, "exp": None}}
        B["blocks"] = B["blocks"] + [ok_blk, wrap_blk, err_blk]
        ok_t, er_t = bo, bo + 2
    elif fnitem is not None:
        ok_blk = {"cleanup": False, "stmts": [],
                  "term": {"k": "call", "func": fnitem, "args": [payload], "arg_tys": [""], "dest": {"l": ml, "p": []}, "t": bo + 1, "unwind": None, "line": line, "exp": None}}
        B["blocks"] = B["blocks"] + [ok_blk, wrap_blk, err_blk]
        ok_t, er_t = bo, bo + 2
    else:
        C = by_path[co[0]]
        lo = len(B["locals"])
        B["locals"] = B["locals"] + [dict(l) for l in C["locals"]]
        _SUB.clear()
        _POWNER[0] = co[0]
        body_blocks = _copy_body(B, C, lo, bo + 3, {"l": ml, "p": []}, bo + 1, line)
        _POWNER[0] = None
        ok_stmts = []
        if co[1] is not None:
            if str(C["locals"][1].get("ty", "")).startswith("&"):
                ok_stmts.append({"k": "assign", "lhs": {"l": lo + 1, "p": []}, "rv": {"k": "ref", "place": {"l": co[1], "p": []}, "mut": str(C["locals"][1]["ty"]).startswith("&mut")}, "line": line, "exp": None})
            else:
                ok_stmts.append({"k": "assign", "lhs": {"l": lo + 1, "p": []}, "rv": {"k": "use", "op": {"move": {"l": co[1], "p": []}}}, "line": line, "exp": None})
        ok_stmts.append({"k": "assign", "lhs": {"l": lo + 2, "p": []}, "rv": {"k": "use", "op": payload}, "line": line, "exp": None})
        ok_blk = {"cleanup": False, "stmts": ok_stmts, "term": {"k": "goto", "t": bo + 3, "line": line, "exp": None}}
        B["blocks"] = B["blocks"] + [ok_blk, wrap_blk, err_blk] + body_blocks
        ok_t, er_t = bo, bo + 2
    blk = B["blocks"][bi]
    blk["stmts"].append({"k": "assign", "lhs": {"l": dl, "p": []}, "rv": {"k": "discr", "place": {"l": r_pl["l"], "p": []}, "of": rty}, "line": line, "exp": None})
    if kind == "Result":
        vals, tgts, oth = ["0", "1"], [ok_t, er_t], er_t
    else:
        vals, tgts, oth = ["0", "1"], [er_t, ok_t], er_t
    blk["term"] = {"k": "switch", "discr": {"move": {"l": dl, "p": []}}, "vals": vals, "tgts": tgts, "otherwise": oth, "line": line, "exp": None, "inlined": "map"}
    return True


def _inline_simple_consts(facts):
    """`x = const PATH` for a named constant that the exporter left unevaluated (tuples, arrays of tuples, ...) and whose own body is a
    single `_0 = <aggregate / use of literals>`: the statement gets that right-hand side, so that `let (a, b) = ZEROES;` reads as
    `(0, 0)` to the origin engine."""
    simple = {}
    for c in facts["bodies"]:
        if c.get("kind") != "const" or len(c["blocks"]) != 1 or c["blocks"][0]["term"]["k"] != "return":
            continue
        st = [x for x in c["blocks"][0]["stmts"] if x["k"] == "assign"]
        if len(st) != 1 or st[0]["lhs"]["l"] != 0 or st[0]["lhs"]["p"]:
            continue
        rv = st[0]["rv"]
        ops = rv.get("fields", []) if rv["k"] == "agg" else ([rv.get("op")] if rv["k"] == "use" else None)
        if ops is None or any(not (isinstance(o, dict) and "const" in o and "uneval" not in o["const"]) for o in ops):
            continue
        simple[c["path"]] = rv
    n = 0
    if not simple:
        return 0
    for b in facts["bodies"]:
        for bk in b["blocks"]:
            for st in bk["stmts"]:
                if st["k"] == "assign" and st["rv"]["k"] == "use" and isinstance(st["rv"].get("op"), dict) and "const" in st["rv"]["op"]:
                    u = st["rv"]["op"]["const"].get("uneval")
                    if u in simple:
                        st["rv"] = json.loads(json.dumps(simple[u]))
                        n += 1
    return n


def _splice_tuple_consts(facts, is_new):
    """An operand `const PATH` of tuple type that the exporter left unevaluated (an associated `const X: (Kind, &[u8]) = (..)`), used
    inside an aggregate or as a plain value: the (straight-line) statements of the constant's own body are placed in front of the
    using statement and the operand becomes their result, so that `Some(Self::X)` reads as `Some((Kind::V, b".."))`."""
    straight = {}
    for c in facts["bodies"]:
        if c.get("kind") != "const" or len(c["blocks"]) != 1 or c["blocks"][0]["term"]["k"] != "return" or not is_new(c["path"]):
            continue
        st = c["blocks"][0]["stmts"]
        if not (0 < len(st) <= 16) or any(x["k"] != "assign" for x in st) or not str(c["locals"][0].get("ty", "")).startswith("("):
            continue
        if "uneval" in json.dumps(st):
            continue
        straight[c["path"]] = c
    n = 0
    if not straight:
        return 0
    for b in facts["bodies"]:
        if b.get("kind") not in ("fn", "closure"):
            continue
        for bk in b["blocks"]:
            i = 0
            while i < len(bk["stmts"]):
                st = bk["stmts"][i]
                slots = []
                if st["k"] == "assign" and st["rv"]["k"] == "use" and isinstance(st["rv"].get("op"), dict):
                    slots = [(st["rv"], "op")]
                elif st["k"] == "assign" and st["rv"]["k"] == "agg":
                    slots = [(st["rv"]["fields"], j) for j in range(len(st["rv"]["fields"]))]
                for holder, key in slots:
                    o = holder[key]
                    u = o.get("const", {}).get("uneval") if isinstance(o, dict) and isinstance(o.get("const"), dict) else None
                    if u not in straight:
                        continue
                    c = straight[u]
                    lo = len(b["locals"])
                    b["locals"] = b["locals"] + [dict(l) for l in c["locals"]]
                    ins = []
                    for cs in c["blocks"][0]["stmts"]:
                        cs2 = dict(cs)
                        cs2["lhs"] = _remap_place(cs["lhs"], lo)
                        cs2["rv"] = _remap_rv(cs["rv"], lo)
                        cs2["line"] = st.get("line", cs.get("line"))
                        ins.append(cs2)
                    bk["stmts"][i:i] = ins
                    i += len(ins)
                    holder[key] = {"move": {"l": lo, "p": []}}
                    n += 1
                i += 1
    return n


def inline_helpers(facts, is_new, max_rounds=6):
    is_new_ctx = lambda _p: True
    """Inline calls to `new helper` functions (local bodies for which is_new(path) holds) into their callers, on
    the raw exported MIR: the callee's locals and blocks are appended (renumbered), arguments become assignments
    to the callee's parameter locals, `return` becomes an assignment of its `_0` to the call's destination and a
    goto.  Makes helper-extraction refactorings transparent to the rules.  Returns the list of inlined (caller, callee)."""
    by_path = {b["path"]: b for b in facts["bodies"]}
    adts = {a["path"]: a for a in facts.get("adts", [])}
    done = []
    for _round in range(max_rounds):
        changed = False
        for B in facts["bodies"]:
            if B["kind"] not in ("fn", "closure"):
                continue
            nblk = len(B["blocks"])
            for bi in range(nblk):
                t = B["blocks"][bi]["term"]
                if t["k"] != "call" or "indirect" in t["func"]:
                    continue
                cal = t["func"].get("rpath") or t["func"]["path"]
                if cal == "std::result::Result::<T, E>::and_then" and "::tests::" not in B["path"]:
                    if _expand_and_then(B, bi, t, by_path):
                        done.append((B["path"], "and_then"))
                        changed = True
                    continue
                if cal == "std::result::Result::<T, E>::unwrap_or_else" and "::tests::" not in B["path"]:
                    if _expand_unwrap_or_else(B, bi, t, by_path):
                        done.append((B["path"], "unwrap_or_else"))
                        changed = True
                    continue
                if cal == "std::option::Option::<T>::or_else" and "::tests::" not in B["path"]:
                    if _expand_or_else(B, bi, t, by_path):
                        done.append((B["path"], "or_else"))
                        changed = True
                    continue
                if cal in ("std::result::Result::<T, E>::map", "std::option::Option::<T>::map") and "::tests::" not in B["path"]:
                    if _expand_map(B, bi, t, by_path, adts, "Result" if "Result" in cal else "Option"):
                        done.append((B["path"], "map"))
                        changed = True
                    continue
                if cal == "std::option::Option::<T>::unwrap_or" and "::tests::" not in B["path"] and is_new_ctx(B["path"]):
                    if _expand_unwrap_or(B, bi, t):
                        done.append((B["path"], "unwrap_or"))
                        changed = True
                    continue
                if cal == "<std::vec::Vec<T, A> as std::iter::Extend<T>>::extend" and "::tests::" not in B["path"]:
                    if _expand_extend_map(B, bi, t, by_path):
                        done.append((B["path"], "extend"))
                        changed = True
                    continue
                if cal in ("std::option::Option::<T>::map_or_else", "std::option::Option::<T>::map_or") and "::tests::" not in B["path"]:
                    if _expand_map_or_else(B, bi, t, by_path, cal.endswith("map_or_else")):
                        done.append((B["path"], "map_or_else"))
                        changed = True
                    continue
                if re.search(r"(^std::iter::Iterator|Iterator>)::next$", cal) and "::tests::" not in B["path"]:
                    if _unroll_array_for(B, bi, t):
                        done.append((B["path"], "for-array"))
                        changed = True
                    continue
                if cal == "std::mem::replace" and "::tests::" not in B["path"]:
                    if _expand_mem_replace(B, bi, t):
                        done.append((B["path"], "mem::replace"))
                        changed = True
                    continue
                if cal == "std::option::Option::<T>::filter" and "::tests::" not in B["path"]:
                    if _expand_filter(B, bi, t, by_path):
                        done.append((B["path"], "filter"))
                        changed = True
                    continue
                if re.search(r"iter::Iterator::(try_fold|try_for_each)$", t["func"]["path"]) and "::tests::" not in B["path"]:
                    if _expand_try_fold(B, bi, t, by_path, t["func"]["path"].endswith("try_fold")):
                        done.append((B["path"], "try_fold"))
                        changed = True
                    continue
                if re.search(r"ops::(FnOnce::call_once|FnMut::call_mut|Fn::call)$", t["func"]["path"]) and "::tests::" not in B["path"]:
                    if _expand_call_once(B, bi, t, by_path, adts):
                        done.append((B["path"], "call_once"))
                        changed = True
                    continue
                if cal == B["path"] or cal not in by_path or not is_new(cal):
                    continue
                C = by_path[cal]
                if C["kind"] != "fn" or len(t["args"]) != C["arg_count"]:
                    continue
                if any(bk["term"]["k"] == "call" and "indirect" not in bk["term"]["func"] and (bk["term"]["func"].get("rpath") or bk["term"]["func"]["path"]) == cal for bk in C["blocks"]):
                    continue   # recursive helper
                if _has_loop(C) and _in_cycle(B, bi):
                    continue   # a helper with a loop of its own, called from inside a loop, stays a call: nesting multiplies the paths
                lo = len(B["locals"])
                bo = len(B["blocks"])
                _SUB.clear()
                _POWNER[0] = cal
                for ai, a in enumerate(t["args"]):
                    if not str(C["locals"][1 + ai].get("ty", "")).startswith("&"):
                        continue
                    # the callee must not re-assign the parameter itself
                    if any(s_["k"] == "assign" and s_["lhs"]["l"] == 1 + ai and not s_["lhs"]["p"] for cb_ in C["blocks"] for s_ in cb_["stmts"]):
                        continue
                    src = _ref_source(B, bi, a)
                    if src is not None:
                        _SUB[1 + ai] = src
                B["locals"] = B["locals"] + [dict(l) for l in C["locals"]]
                for dv in C.get("debug", []):
                    v = dv["v"]
                    if "place" in v:
                        B["debug"].append({"name": dv["name"], "v": {"place": _remap_place(v["place"], lo)}, "arg": None})
                line = t.get("line", 0)
                new_blocks = _copy_body(B, C, lo, bo, t["dest"], t.get("t"), line)
                B["blocks"] = B["blocks"] + new_blocks
                blk = B["blocks"][bi]
                for i, a in enumerate(t["args"]):
                    blk["stmts"].append({"k": "assign", "lhs": {"l": lo + 1 + i, "p": []}, "rv": {"k": "use", "op": a}, "line": line, "exp": None})
                blk["term"] = {"k": "goto", "t": bo, "line": line, "exp": None, "inlined": cal}
                _SUB.clear()
                _POWNER[0] = None
                done.append((B["path"], cal))
                changed = True
        if not changed:
            break
    return done


class Program:
    def __init__(self, facts):
        if isinstance(facts, str):
            facts = json.load(open(facts))
        self.inlined = []
        self.absorbed_new_closures = set()
        self.absorbed_dead_closures = set()
        try:
            import os
            kp = os.path.join(os.path.dirname(os.path.dirname(os.path.abspath(__file__))), "spec", "known_fns.json")
            known_list = json.load(open(kp))["fns"]
            facts = _canonical_generic_names(facts, known_list)
            try:
                ks = json.load(open(os.path.join(os.path.dirname(kp), "known_sigs.json")))
                facts = _canonical_renames(facts, ks)
            except (OSError, ValueError, KeyError):
                pass
            known = {_norm_generics(x) for x in known_list}
            def is_new(path):
                # generic parameter names are not part of a function's identity (moving a method between impl blocks renames them)
                return _norm_generics(path) not in known and "::tests::" not in path and "{closure" not in path
            _inline_simple_consts(facts)
            _splice_tuple_consts(facts, is_new)
            _ABSORBED.clear()
            self.inlined = inline_helpers(facts, is_new)
            # closures that did not exist on the pinned tree and whose body now sits, expanded, in the function that builds them: their
            # code is analysed there; the stand-alone copy would only report the same sites a second time under another name
            self.absorbed_new_closures = {c_ for c_ in _ABSORBED if _norm_generics(c_) not in known}
            # ... and closures (whatever their name) that are no longer handed to any call after the expansions: nothing can run the
            # stand-alone body any more
            still = set()
            for b_ in facts["bodies"]:
                for bk_ in b_["blocks"]:
                    t_ = bk_["term"]
                    if t_["k"] == "call":
                        for a_ in t_["args"]:
                            r_ = _resolve_closure_local(b_, a_) if isinstance(a_, dict) else None
                            if r_ is not None:
                                still.add(r_[0])
            self.absorbed_dead_closures = {c_ for c_ in _ABSORBED if c_ not in still}
            if self.inlined:
                # closures of an inlined helper that has one caller are that caller's closures now (so that a site inside
                # them keeps the identity it had before the helper was extracted)
                callers = {}
                for f_, c_ in self.inlined:
                    if c_ not in ("map", "and_then", "or_else", "unwrap_or_else", "call_once", "try_fold", "map_or_else", "extend", "unwrap_or"):
                        callers.setdefault(c_, set()).add(f_)
                have_paths = {b["path"] for b in facts["bodies"]}
                cren = {}
                for b in facts["bodies"]:
                    if b["kind"] != "closure" or "::{closure#" not in b["path"]:
                        continue
                    owner, _, suffix = b["path"].partition("::{closure#")
                    cs = callers.get(owner)
                    if cs and len(cs) == 1:
                        top = list(cs)[0]
                        for _hop in range(6):        # a helper of a helper: follow the chain of single callers to where the code ended up
                            c2 = callers.get(top)
                            if c2 and len(c2) == 1 and list(c2)[0] != top:
                                top = list(c2)[0]
                            else:
                                break
                        np_ = top + "::{closure#" + suffix
                        if np_ not in have_paths and np_ not in cren.values():
                            cren[b["path"]] = np_
                if cren:
                    facts = _replace_paths(facts, cren)
            if self.inlined:
                gone = {c for _, c in self.inlined}
                # the helper bodies stay available (their closures may be referenced) but are no longer analysed as functions of their own
                for b in facts["bodies"]:
                    if b["path"] in gone:
                        b["kind"] = "inlined-helper"
        except (OSError, ValueError, KeyError):
            pass
        self.facts = facts
        self.config = facts.get("config")
        self.ptr_bits = facts.get("pointer_bits", 64)
        self.bodies = {}
        self.order = []
        for rb in facts["bodies"]:
            b = Body(self, rb)
            self.bodies[b.path] = b
            self.order.append(b.path)
        self.adts = {a["path"]: a for a in facts["adts"]}
        for a in facts["adts"]:
            if a.get("kind") == "enum":
                for v in a["variants"]:
                    try:
                        ADT_DISCR[(a["path"], v["name"])] = int(v["discr"])
                    except (TypeError, ValueError):
                        pass
        self.impls = facts["impls"]
        self.traits = {t["path"]: t for t in facts["traits"]}
        self._cg = None

    def body(self, path):
        return self.bodies.get(path)

    def find(self, pat, kinds=("fn", "closure")):
        rx = re.compile(pat)
        return [self.bodies[p] for p in self.order if self.bodies[p].kind in kinds and rx.search(p)]

    def one(self, pat, kinds=("fn", "closure")):
        xs = self.find(pat, kinds)
        if len(xs) != 1:
            raise AnchorMissing("expected exactly one body matching %r, found %d: %s" % (pat, len(xs), [x.path for x in xs][:6]))
        return xs[0]

    def fns(self):
        return [self.bodies[p] for p in self.order if self.bodies[p].kind in ("fn", "closure")]

    def non_test_fns(self):
        return [b for b in self.fns() if "::tests::" not in b.path]

    def promoted_bytes(self, owner_path, idx):
        """Bytes of a promoted constant `&[u8; N]`, read from the promoted body's MIR."""
        pb = self.bodies.get("%s::promoted[%d]" % (owner_path, idx))
        if pb is None:
            return None
        return pb

    # ---- call graph ---------------------------------------------------------------------
    @property
    def callgraph(self):
        """caller path -> set(callee local body paths), including closures constructed or
        named as constants in the caller (they may be invoked by the callee they are passed to)."""
        if self._cg is None:
            cg = defaultdict(set)
            for b in self.fns():
                for bb in range(b.n):
                    t = b.term(bb)
                    if t["k"] == "call":
                        f = t["func"]
                        if "indirect" not in f:
                            r = cname(f)
                            if r in self.bodies:
                                cg[b.path].add(r)
                            for g in f.get("rgargs") or f.get("gargs") or []:
                                pass
                        for a in t["args"]:
                            c = op_const(a)
                            if c:
                                if "fn" in c and cname(c["fn"]) in self.bodies:
                                    cg[b.path].add(cname(c["fn"]))
                                if "closure" in c and c["closure"] in self.bodies:
                                    cg[b.path].add(c["closure"])
                    for s in b.blocks[bb]["stmts"]:
                        if s["k"] == "assign":
                            rv = s["rv"]
                            if rv["k"] == "agg" and rv["ak"] == "closure" and rv["closure"] in self.bodies:
                                cg[b.path].add(rv["closure"])
                            if rv["k"] == "use":
                                c = op_const(rv["op"])
                                if c and "fn" in c and cname(c["fn"]) in self.bodies:
                                    cg[b.path].add(cname(c["fn"]))
                                if c and "closure" in c and c["closure"] in self.bodies:
                                    cg[b.path].add(c["closure"])
            self._cg = cg
        return self._cg

    def reachable_fns(self, roots, stop=lambda caller, callee: False):
        seen = set()
        stack = list(roots)
        while stack:
            p = stack.pop()
            if p in seen:
                continue
            seen.add(p)
            for c in self.callgraph.get(p, ()):
                if c not in seen and not stop(p, c):
                    stack.append(c)
        return seen

    # ---- which fields of a `&mut` parameter may a local function write? -------------------------
    def writes_fields(self, fn_path, param, _stack=()):
        """Set of first-level field names of parameter `param` (a reference) that `fn_path` may
        write, directly or through callees; None = unknown (treat as everything)."""
        key = (fn_path, param)
        if not hasattr(self, "_wf"):
            self._wf = {}
        if key in self._wf:
            return self._wf[key]
        if key in _stack:
            return set()
        b = self.bodies.get(fn_path)
        if b is None:
            return None
        out = set()
        unknown = False
        # locals that hold (re)borrows of param or of its fields: local -> (field or None for whole)
        alias = {param: None}
        changed = True
        n = 0
        while changed and n < 20:
            changed = False
            n += 1
            for bb, i, s in b.stmts(cleanup=False):
                if s["k"] != "assign" or s["lhs"]["p"]:
                    continue
                rv = s["rv"]
                src = None
                if rv["k"] in ("ref", "rawptr"):
                    src = rv["place"]
                elif rv["k"] == "use":
                    src = op_place(rv["op"])
                elif rv["k"] == "cast":
                    src = op_place(rv["op"])
                if src is None or src["l"] not in alias:
                    continue
                fl = place_fields(src)
                base_f = alias[src["l"]]
                f = base_f if base_f is not None else (str(fl[0]) if fl else None)
                if rv["k"] == "use" and fl and base_f is None:
                    # a copy of a value stored in a field (e.g. a reference held by the struct): not an alias of the struct itself
                    continue
                if s["lhs"]["l"] not in alias:
                    alias[s["lhs"]["l"]] = f
                    changed = True
        for bb, i, s in b.stmts(cleanup=False):
            if s["k"] in ("assign", "setdiscr"):
                lhs = s["lhs"] if s["k"] == "assign" else s["place"]
                if lhs["p"] and lhs["l"] in alias:
                    base_f = alias[lhs["l"]]
                    fl = place_fields(lhs)
                    if base_f is not None:
                        out.add(base_f)
                    elif fl:
                        out.add(str(fl[0]))
                    else:
                        unknown = True
        for bb, t in b.calls(cleanup=False):
            f = t["func"]
            for ai, a in enumerate(t["args"]):
                pl = op_place(a)
                if pl is None or pl["l"] not in alias:
                    continue
                aty = (t.get("arg_tys") or [""] * (ai + 1))[ai]
                if not aty.startswith("&mut") and "&mut" not in aty.split("<")[0] and not aty.startswith("*mut"):
                    if aty.startswith("&"):
                        continue  # shared borrow
                base_f = alias[pl["l"]]
                if base_f is not None:
                    out.add(base_f)
                    continue
                callee = cname(f) if "indirect" not in f else None
                if callee in self.bodies and not (f.get("trait") and not f.get("rpath")):
                    sub = self.writes_fields(callee, ai + 1, _stack + (key,))
                    if sub is None:
                        unknown = True
                    else:
                        out |= sub
                else:
                    unknown = True
        res = None if unknown else out
        self._wf[key] = res
        return res

    def callers_of(self, pat):
        rx = re.compile(pat)
        out = []
        for b in self.fns():
            for bb, t in b.calls(cleanup=True):
                f = t["func"]
                if "indirect" in f:
                    continue
                if rx.search(cname(f)) or rx.search(f["path"]):
                    out.append((b, bb, t))
        return out


class AnchorMissing(Exception):
    pass
