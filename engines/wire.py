"""E3 (writer side): emission sequences of functions that write to a `Write`.

For each enumerated Ok-path of a function the sequence of emissions is extracted from the
resolved callees (byteorder / std::io::Write / mysql_common lenenc writers / local packet ends),
each with the origin term of the value emitted.  Local callees that themselves emit are
expanded through their own sequences (bounded depth) or kept as ('call', name) when they have
more than one distinct sequence.
"""
import re

from .paths import enumerate_paths, classify_return, _cint
from .prog import cname

FIXED = {
    "write_u8": (1, False), "write_i8": (1, True),
    "write_u16": (2, False), "write_i16": (2, True),
    "write_u24": (3, False), "write_i24": (3, True),
    "write_u32": (4, False), "write_i32": (4, True),
    "write_u64": (8, False), "write_i64": (8, True),
    "write_f32": (4, None), "write_f64": (8, None),
}

RX_BYTEORDER = re.compile(r"^byteorder::(io::)?WriteBytesExt::(write_[a-z0-9]+)$")
RX_WRITE_ALL = re.compile(r"^std::io::Write::write_all$|<.* as std::io::Write>::write_all$")
RX_LENENC_INT = re.compile(r"(mysql_common|myc)::io::WriteMysqlExt::write_lenenc_int$")
RX_LENENC_STR = re.compile(r"(mysql_common|myc)::io::WriteMysqlExt::write_lenenc_str$")
RX_END_PACKET = re.compile(r"packet::PacketConn::<.*>::(end_packet|maybe_end_packet)$")
RX_FLUSH = re.compile(r"<packet::PacketConn<.*> as std::io::Write>::flush$|^std::io::Write::flush$")
RX_VALUE = re.compile(r"value::encode::ToMysqlValue::(to_mysql_text|to_mysql_bin)$|as value::encode::ToMysqlValue>::(to_mysql_text|to_mysql_bin)$")


class Em:
    __slots__ = ("kind", "width", "signed", "value", "bb", "line", "callee", "extra")

    def __init__(self, kind, width=None, signed=None, value=None, bb=None, line=None, callee=None, extra=None):
        self.kind = kind      # fixed | raw | lenenc_int | lenenc_str | end_packet | flush | value | call
        self.width = width
        self.signed = signed
        self.value = value
        self.bb = bb
        self.line = line
        self.callee = callee
        self.extra = extra

    def const_bytes(self):
        """Concrete bytes if this emission is a compile-time constant, else None."""
        if self.kind == "fixed":
            v = _cint(self.value)
            if v is None or self.signed is None:
                return None
            return (v % (1 << (8 * self.width))).to_bytes(self.width, "little")
        if self.kind == "raw":
            v = self.value
            if isinstance(v, tuple) and v[0] == "const" and v[1][0] == "bytes":
                return v[1][1]
            return None
        if self.kind == "lenenc_int":
            v = _cint(self.value)
            if v is not None and 0 <= v < 251:
                return bytes([v])
            return None
        if self.kind == "lenenc_str":
            v = self.value
            if isinstance(v, tuple) and v[0] == "const" and v[1][0] == "bytes" and len(v[1][1]) < 251:
                return bytes([len(v[1][1])]) + v[1][1]
            return None
        return None

    def short(self):
        from .prog import term_str
        cb = self.const_bytes()
        if cb is not None and self.kind != "fixed":
            return "%s=%s" % (self.kind, cb.hex())
        if self.kind == "fixed":
            return "u%d<-%s" % (self.width * 8, term_str(self.value))
        if self.kind in ("raw", "lenenc_int", "lenenc_str", "value"):
            return "%s<-%s" % (self.kind, term_str(self.value))
        if self.kind == "call":
            return "call(%s)" % self.callee
        return self.kind


def classify_call(path, pos, t):
    """Emission for one call terminator on a path, or None."""
    f = t["func"]
    if "indirect" in f:
        return None
    name = cname(f)
    decl = f["path"]
    bb = path.blocks[pos]
    line = t["line"]
    m = RX_BYTEORDER.match(decl) or RX_BYTEORDER.match(name)
    if m and m.group(2) in FIXED:
        w, s = FIXED[m.group(2)]
        return Em("fixed", w, s, path.arg(pos, 1), bb, line, m.group(2))
    if RX_WRITE_ALL.search(decl) or RX_WRITE_ALL.search(name):
        return Em("raw", None, None, path.arg(pos, 1), bb, line, "write_all")
    if RX_LENENC_INT.search(decl) or RX_LENENC_INT.search(name):
        return Em("lenenc_int", None, None, path.arg(pos, 1), bb, line, "write_lenenc_int")
    if RX_LENENC_STR.search(decl) or RX_LENENC_STR.search(name):
        return Em("lenenc_str", None, None, path.arg(pos, 1), bb, line, "write_lenenc_str")
    if RX_END_PACKET.search(name):
        return Em("end_packet", bb=bb, line=line, callee=name)
    if RX_FLUSH.search(name) or RX_FLUSH.search(decl):
        return Em("flush", bb=bb, line=line, callee=name)
    if RX_VALUE.search(decl) or RX_VALUE.search(name):
        mm = RX_VALUE.search(decl) or RX_VALUE.search(name)
        which = mm.group(1) or mm.group(2)
        return Em("value", None, None, path.arg(pos, 0), bb, line, which, extra=name)
    return None


def path_emissions(prog, path, expand=None, depth=0):
    """Emission list of a path.  Local callees are kept as Em('call') when they (transitively)
    emit; `expand(callee_name)` may return a list of Em to inline instead."""
    out = []
    for pos, b, t in path.calls():
        e = classify_call(path, pos, t)
        if e is not None:
            out.append(e)
            continue
        f = t["func"]
        if "indirect" in f:
            continue
        name = cname(f)
        if name in prog.bodies and emits(prog, name):
            args = tuple(path.arg(pos, i) for i in range(len(t["args"])))
            out.append(Em("call", value=args, bb=b, line=t["line"], callee=name))
    return out


_EMITS = {}


def emits(prog, name, _stack=()):
    """May function `name` (local) emit bytes / end a packet, directly or through local callees?"""
    key = (id(prog), name)
    if key in _EMITS:
        return _EMITS[key]
    if name in _stack:
        return False
    body = prog.bodies.get(name)
    r = False
    if body is not None:
        for bb, t in body.calls():
            f = t["func"]
            if "indirect" in f:
                continue
            n, d = cname(f), f["path"]
            if (RX_BYTEORDER.match(d) or RX_BYTEORDER.match(n) or RX_WRITE_ALL.search(d) or RX_WRITE_ALL.search(n)
                    or RX_LENENC_INT.search(d) or RX_LENENC_STR.search(d) or RX_END_PACKET.search(n)
                    or RX_VALUE.search(d) or RX_VALUE.search(n) or RX_FLUSH.search(n)):
                r = True
                break
            if n in prog.bodies and emits(prog, n, _stack + (name,)):
                r = True
                break
    _EMITS[key] = r
    return r


def ok_sequences(prog, body, max_visits=2, limit=20000):
    """[(path, classification, [Em])] for all paths of body that can return Ok (classification
    'ok' or tail call); error paths are dropped."""
    out = []
    for p in enumerate_paths(body, max_visits=max_visits, limit=limit):
        if p.end != "return":
            continue
        c = classify_return(p)
        if c == "err":
            continue
        out.append((p, c, path_emissions(prog, p)))
    return out


# --------------------------------------------------------------------------------------
# symbolic byte stream: a spelling-independent normal form of an emission sequence
# --------------------------------------------------------------------------------------

def _strip_refs(t):
    from . import terms as T
    return T.peel(t, payloads=False)


def sym_bytes(ems):
    """Normal form of an emission list as a list of items
         ("c", byte)                 a constant byte
         ("le", term, i, width)      byte i of the little-endian encoding of integer `term` in `width` bytes
         ("byte", term)              one byte with a non-constant value
         ("blob", term)              all bytes of a slice-valued term (length not known statically)
         ("lenenc_int", term) / ("lenenc_str", term) / ("value", which, term) / ("call", callee)
         ("end",) / ("flush",)
    so that `write_u8(0xff); write_u16::<LE>(x); write_u8(b'#')` and `write_all(&[0xff, x.to_le_bytes()[0], x.to_le_bytes()[1], b'#'])`
    (and constants hoisted into named items, split or merged writes) compare equal."""
    import re as _re2
    from . import terms as T
    from .prog import _cint as ci
    out = []

    def int_bytes(term, w):
        v = ci(term)
        if v is not None:
            return [("c", b) for b in (v % (1 << (8 * w))).to_bytes(w, "little")]
        return [("le", term, i, w) for i in range(w)]

    def elem(e):
        v = ci(e)
        if v is not None:
            return ("c", v & 0xFF)
        if isinstance(e, tuple) and e[0] == "index":
            src = _strip_refs(e[1])
            k = ci(e[2])
            if T.is_call(src, r"core::num::<impl [ui](8|16|32|64|128|size)>::to_le_bytes$") and k is not None:
                m = _re2.search(r"<impl [ui](8|16|32|64|128|size)>::to_le_bytes$", src[1])
                w = 8 if m.group(1) == "size" else int(m.group(1)) // 8
                return ("le", src[2][0], k, w)
        return ("byte", e)

    for e in ems:
        if e.kind == "fixed":
            out += int_bytes(e.value, e.width)
        elif e.kind == "raw":
            cb = e.const_bytes()
            if cb is not None:
                out += [("c", b) for b in cb]
                continue
            v = _strip_refs(e.value)
            # whole-array views: &arr, &arr[..], arr.as_slice()
            while isinstance(v, tuple) and v[0] == "call" and _re2.search(r"(Index<.*>>::index|Index::index|as_slice|Deref>::deref)$", v[1]) and (
                    len(v[2]) == 1 or (isinstance(v[2][1], tuple) and v[2][1][0] == "agg" and (v[2][1][2] or "").endswith("RangeFull"))):
                v = _strip_refs(v[2][0])
            if isinstance(v, tuple) and v[0] == "agg" and v[1] == "array":
                out += [elem(x) for x in v[4]]
            elif T.is_call(v, r"core::num::<impl [ui](8|16|32|64|128|size)>::to_le_bytes$"):
                m = _re2.search(r"<impl [ui](8|16|32|64|128|size)>::to_le_bytes$", v[1])
                w = 8 if m.group(1) == "size" else int(m.group(1)) // 8
                out += int_bytes(v[2][0], w)
            elif isinstance(v, tuple) and v[0] == "repeat" and ci(v[1]) is not None and str(v[2]).isdigit():
                out += [("c", ci(v[1]) & 0xFF)] * int(v[2])
            else:
                out.append(("blob", e.value))
        elif e.kind in ("lenenc_int", "lenenc_str"):
            out.append((e.kind, e.value))
        elif e.kind == "value":
            out.append(("value", e.callee, e.value))
        elif e.kind == "call":
            out.append(("call", e.callee))
        elif e.kind == "end_packet":
            out.append(("end",))
        elif e.kind == "flush":
            out.append(("flush",))
    return out


def sym_str(items):
    from .prog import term_str
    o = []
    for it in items:
        if it[0] == "c":
            o.append("%02x" % it[1])
        elif it[0] == "le":
            o.append("le%d[%d](%s)" % (it[3] * 8, it[2], term_str(it[1])[:40]))
        elif it[0] in ("byte", "blob", "lenenc_int", "lenenc_str"):
            o.append("%s(%s)" % (it[0], term_str(it[1])[:40]))
        elif it[0] == "value":
            o.append("value:%s" % it[1])
        elif it[0] == "call":
            o.append("call(%s)" % it[1].split("::")[-1])
        else:
            o.append(it[0])
    return " ".join(o)
