// D17 (C08): a negative TIME parameter (sign byte 1 — legal on the wire, e.g. TIME '-01:02:03') cannot be converted:
// From<Value> for Duration hits `unimplemented!()` on the sign byte.
mod harness;
use harness::*;
use msql_srv::*;
use std::io;
use std::time::Duration;
thread_local! { static SEEN: std::cell::RefCell<Vec<String>> = Default::default(); }
struct Shim;
impl MysqlShim<Pipe> for Shim {
    type Error = io::Error;
    fn on_prepare(&mut self, _: &str, i: StatementMetaWriter<'_, Pipe>) -> io::Result<()> {
        let p = [Column { table: String::new(), column: "p".into(), coltype: ColumnType::MYSQL_TYPE_TIME, colflags: ColumnFlags::empty() }];
        i.reply(1, &p, &[])
    }
    fn on_execute(&mut self, _: u32, p: ParamParser<'_>, r: QueryResultWriter<'_, Pipe>) -> io::Result<()> {
        for v in p {
            let s = std::panic::catch_unwind(std::panic::AssertUnwindSafe(|| format!("{:?}", Duration::from(v.value)))).unwrap_or_else(|_| "PANIC".to_string());
            SEEN.with(|x| x.borrow_mut().push(s));
        }
        r.completed(0, 0)
    }
    fn on_close(&mut self, _: u32) {}
    fn on_query(&mut self, _: &str, r: QueryResultWriter<'_, Pipe>) -> io::Result<()> { r.completed(0, 0) }
}
#[test]
fn negative_time_converts_without_panicking() {
    let mut b = handshake();
    b.extend(packet(0, b"\x16SELECT ?"));
    // TIME (type 11), 8-byte form: sign 1, days 0, 01:02:03
    b.extend(packet(0, &[0x17, 1, 0, 0, 0, 0, 1, 0, 0, 0, 0x00, 0x01, 11, 0, 8, 1, 0, 0, 0, 0, 1, 2, 3]));
    b.extend(packet(0, &[0x01]));
    let (r, _) = run(Shim, b);
    r.unwrap();
    let seen = SEEN.with(|x| x.borrow().clone());
    assert!(!seen.iter().any(|s| s == "PANIC"), "conversions: {:?}", seen);
}
