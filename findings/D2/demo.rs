// D2 (C20): an unknown / unsupported command byte must end the connection with an error, not a panic.
mod harness;
use harness::*;
use msql_srv::*;
use std::io;
struct Shim;
impl MysqlShim<Pipe> for Shim {
    type Error = io::Error;
    fn on_prepare(&mut self, _: &str, i: StatementMetaWriter<'_, Pipe>) -> io::Result<()> { i.reply(1, &[], &[]) }
    fn on_execute(&mut self, _: u32, _: ParamParser<'_>, r: QueryResultWriter<'_, Pipe>) -> io::Result<()> { r.completed(0, 0) }
    fn on_close(&mut self, _: u32) {}
    fn on_query(&mut self, _: &str, r: QueryResultWriter<'_, Pipe>) -> io::Result<()> { r.completed(0, 0) }
}
#[test]
fn unknown_command_is_an_error_not_a_panic() {
    for payload in [&[0x1au8, 1, 0, 0, 0][..], &[0x1f][..], &[0x19, 1][..] /* truncated close */, &[0x17, 1, 0][..] /* truncated execute */] {
        let mut bytes = handshake();
        bytes.extend(packet(0, payload));
        let r = std::panic::catch_unwind(|| run(Shim, bytes));
        let (res, _out) = r.unwrap_or_else(|_| panic!("run_on panicked on command payload {:?}", payload));
        assert!(res.is_err(), "payload {:?} must end the connection with an error", payload);
    }
}
