"""C14 — completion counts arrive exactly, including for zero-column resultsets."""
import re

from engines import wire
from engines.paths import enumerate_paths, classify_return, emptiness_of
from engines.prog import cname, term_str
from engines import terms as T
from spec import coldef as SPEC

CONFIGS = ["tls"]
LEVEL = "other"
EXPLANATION = (
    "Wire-layout and def-use rules. OK layout: on every Ok-path the OK writer emits 00 | lenenc(rows) | lenenc(last_insert_id) | "
    "u16 status | u16 warnings | one packet end, where both counts are the function's u64 parameters handed unmodified (no cast, "
    "no arithmetic) to the library's length-encoded-integer writer. Argument flow: complete_one(rows,id) stores "
    "Finalizer::Ok{rows,last_insert_id} from its parameters in that order; finalize() passes the taken finaliser's rows and "
    "last_insert_id to the OK writer's 2nd and 3rd parameter; completed() forwards its parameters in order. Zero-column count: "
    "with an empty column list end_row adds exactly 1 to the counter on every path and returns; write_col returns before touching "
    "it; write_row reaches end_row exactly once; the counter starts at 0; completion stores rows = counter widened to u64 and "
    "last_insert_id = 0, reading the counter on a path on which nothing may have modified it since the last end_row.")
ASSUMPTIONS = ["mysql_common::write_lenenc_int encodes every u64 size class correctly (trusted library)"]


def ok_layout(ctx, prog, RID):
    """Layout of the OK packet as written by writers::write_ok_packet (shared with C03, whose more-results chain depends on
    where the status word sits)."""
    wok = prog.one(r"^writers::write_ok_packet$")
    ctx.fn(wok)
    sig = wok.raw["sig_in"]
    u64s = [i + 1 for i, t in enumerate(sig) if t == "u64"]
    ctx.ob(RID, len(u64s) == 2, "the OK writer must take the two counts as u64 (signature %s)" % sig, fn=wok.path, construct="signature", nontrivial=False)
    seqs = wire.ok_sequences(prog, wok)
    ctx.floor(RID, "Ok paths of the OK writer", len(seqs), 1)
    for p, cls, ems in seqs:
        sb = wire.sym_bytes(ems)
        desc = wire.sym_str(sb)
        # 00 | lenenc(rows) | lenenc(last_insert_id) | status bits (u16 LE) | warnings 0000 | one packet end — in whatever grouping of writes
        ok = len(sb) == 8 and len(u64s) == 2
        why = "byte stream %s" % desc
        if ok:
            def is_status(t):
                return T.is_call(t, r"StatusFlags>::bits$|::bits$") and T.contains(t, lambda x: T.is_param(x))
            checks = [
                (sb[0] == ("c", 0), "header byte must be 00"),
                (sb[1][0] == "lenenc_int" and T.is_param(sb[1][1], u64s[0]), "affected rows must be the first u64 parameter through the lenenc writer, unmodified (got %s)" % desc),
                (sb[2][0] == "lenenc_int" and T.is_param(sb[2][1], u64s[1]), "last-insert-id must be the second u64 parameter through the lenenc writer, unmodified (got %s)" % desc),
                (sb[3][0] == "le" and sb[4][0] == "le" and sb[3][2:] == (0, 2) and sb[4][2:] == (1, 2) and is_status(sb[3][1]) and sb[3][1] == sb[4][1],
                 "status must be the status parameter's bits as u16"),
                (sb[5] == ("c", 0) and sb[6] == ("c", 0), "warnings must be 0000"),
                (sb[7] == ("end",), "exactly one packet end after the OK body"),
            ]
            for c, w in checks:
                if not c:
                    ok = False
                    why = w
                    break
        ctx.ob(RID, ok, "OK packet: " + why, fn=wok.path, construct="layout", where=wok.where(p.blocks[-1]), sample={"rule": "ok-layout", "sequence": desc})
    # every byte of the OK packet goes through the recognised writers: no other call with the connection as receiver
    other = [cname(t["func"]) for bb, t in wok.calls() if (t.get("arg_tys") or [""])[0].find("packet::PacketConn<") >= 0
             and wire.classify_call(_P(wok, bb), 0, t) is None]
    ctx.ob(RID, not other, "the OK writer emits through unrecognised calls: %s" % other, fn=wok.path, construct="recognised-writers", nontrivial=False)



def eof_layout(ctx, prog, RID):
    """EOF packet: FE, warnings 0000, status word = the status parameter's bits, exactly one packet end."""
    weof = prog.one(r"^writers::write_eof_packet$")
    ctx.fn(weof)
    seqs = wire.ok_sequences(prog, weof)
    ctx.floor(RID, "Ok paths of the EOF writer", len(seqs), 1)
    for p, cls, ems in seqs:
        sb = wire.sym_bytes(ems)
        desc = wire.sym_str(sb)
        ok = len(sb) == 6 and sb[0] == ("c", 0xFE) and sb[1] == ("c", 0) and sb[2] == ("c", 0) and sb[3][0] == "le" and sb[4][0] == "le" and \
            sb[3][2:] == (0, 2) and sb[4][2:] == (1, 2) and sb[3][1] == sb[4][1] and \
            T.is_call(sb[3][1], r"StatusFlags>::bits$|::bits$") and T.contains(sb[3][1], lambda x: T.is_param(x)) and sb[5] == ("end",)
        ctx.ob(RID, ok, "EOF packet: sequence %s (need fe, warnings 0000, the status parameter's bits as u16, one packet end)" % desc, fn=weof.path, construct="eof-layout",
               where=weof.where(p.blocks[-1]), sample={"rule": "eof-layout", "sequence": desc})


def run(ctx):
    prog = ctx.prog("tls")
    ctx.rule("C14.ok-layout", "OK packet slots and their sources; counts reach the lenenc writer unmodified")
    ctx.rule("C14.arg-flow", "complete_one -> Finalizer::Ok -> write_ok_packet keeps (rows, last_insert_id) in order")
    ctx.rule("C14.zero-column-count", "row counter for zero-column resultsets: +1 per end_row, read unmodified at completion")

    ok_layout(ctx, prog, "C14.ok-layout")
    wok = prog.one(r"^writers::write_ok_packet$")

    # ---- arg-flow ---------------------------------------------------------------------------
    co = prog.one(r"^resultset::QueryResultWriter::<'a, W>::complete_one$")
    fin = prog.one(r"^resultset::QueryResultWriter::<'a, W>::finalize$")
    cpl = prog.one(r"^resultset::QueryResultWriter::<'a, W>::completed$")
    for b in (co, fin, cpl):
        ctx.fn(b)
    n = 0
    for bb, i, s in co.stmts():
        if s["k"] == "assign" and s["rv"]["k"] == "agg" and s["rv"].get("ak") == "adt" and s["rv"]["adt"].endswith("Finalizer"):
            n += 1
            o = co.origin_rvalue(s["rv"], bb, i, 0)
            d = dict(zip(o[5], o[4]))
            ok = o[3] == "Ok" and T.is_param(d.get("rows"), 2) and T.is_param(d.get("last_insert_id"), 3)
            ctx.ob("C14.arg-flow", ok, "complete_one stores %s (need Ok{rows: rows, last_insert_id: last_insert_id})" % term_str(o)[:120], fn=co.path,
                   construct="finalizer", where=co.where(bb), sample={"rule": "arg-flow", "stored": term_str(o)[:120]})
    ctx.floor("C14.arg-flow", "Finalizer constructions in complete_one", n, 1)
    # the finaliser is stored into self.last_end on every Ok path, after flushing the pending one
    n = 0
    for p in enumerate_paths(co):
        if p.end == "return" and classify_return(p) == "ok":
            n += 1
            stored = any(s["k"] == "assign" and s["lhs"]["p"] and s["lhs"]["p"][-1] != "deref" and isinstance(s["lhs"]["p"][-1], dict) and s["lhs"]["p"][-1].get("n") == "last_end"
                         for b in p.blocks for s in co.blocks[b]["stmts"])
            ctx.ob("C14.arg-flow", stored, "complete_one returns Ok without recording the completion", fn=co.path, construct="stored", where=co.where(p.blocks[-1]))
    ctx.floor("C14.arg-flow", "Ok paths of complete_one", n, 1)
    n = 0
    for bb, t in fin.calls():
        if cname(t["func"]) == wok.path:
            n += 1
            r, l = fin.arg_origin(bb, 1), fin.arg_origin(bb, 2)
            def fin_field(x, name):
                vf = T.variant_field(x)
                return vf is not None and vf[0] == "Ok" and vf[1] == name and T.contains(vf[2], lambda y: T.is_call(y, r"Option::<T>::take$") and T.contains(y, lambda z: T.is_field(z, "last_end")))
            ok = fin_field(r, "rows") and fin_field(l, "last_insert_id")
            ctx.ob("C14.arg-flow", ok, "finalize passes (%s, %s) to the OK writer (need the taken finaliser's rows, last_insert_id)" % (term_str(r)[-60:], term_str(l)[-60:]),
                   fn=fin.path, construct="ok-call", where=fin.where(bb), sample={"rule": "arg-flow", "rows": term_str(r)[-80:]})
    ctx.floor("C14.arg-flow", "OK-writer calls in finalize", n, 1)
    for bb, t in cpl.calls():
        if cname(t["func"]) == co.path:
            ok = T.is_param(cpl.arg_origin(bb, 1), 2) and T.is_param(cpl.arg_origin(bb, 2), 3)
            ctx.ob("C14.arg-flow", ok, "completed() does not forward (rows, last_insert_id) in order", fn=cpl.path, construct="forward", where=cpl.where(bb))
    # all callers of the OK writer outside finalize pass constants (library replies)
    for b, bb, t in prog.callers_of("^" + re.escape(wok.path) + "$"):
        if b.path == fin.path or "::tests::" in b.path:
            continue
        if b.path in getattr(prog, "absorbed_new_closures", ()) or b.path in getattr(prog, "absorbed_dead_closures", ()):
            continue     # a closure whose body sits, expanded, in the function that builds it (finalize's `map_or(.., |end| ..)`): analysed there
        a1, a2 = b.arg_origin(bb, 1), b.arg_origin(bb, 2)
        ctx.ob("C14.arg-flow", T.is_const_int(a1, 0) and T.is_const_int(a2, 0), "%s sends an OK with counts (%s, %s)" % (b.path, term_str(a1), term_str(a2)),
               fn=b.path, construct="library-ok", where=b.where(bb), nontrivial=False)

    # ---- zero-column-count -------------------------------------------------------------------
    # "counts arrive exactly" for every count a shim can produce: the field that counts the rows of a zero-column resultset is as wide as
    # the count the OK packet carries (u64) or the platform's usize; a narrower counter panics (debug) or wraps (release) at its maximum
    rwa = [a for p_, a in prog.adts.items() if p_.endswith("resultset::RowWriter") and a.get("local")]
    if ctx.floor("C14.zero-column-count", "the RowWriter type", len(rwa), 1):
        colf = [f_ for v_ in rwa[0].get("variants", []) for f_ in v_.get("fields", []) if f_["name"] == "col"]
        if colf:
            ctx.ob("C14.zero-column-count", colf[0]["ty"] in ("usize", "u64"), "the row counter of zero-column resultsets (`RowWriter.col`) is a %s: counts above its maximum cannot be reported" % colf[0]["ty"],
                   fn="resultset::RowWriter", construct="counter-width", nontrivial=False)
    er = prog.one(r"^resultset::RowWriter::<'a, W>::end_row$")
    wc = prog.one(r"^resultset::RowWriter::<'a, W>::write_col$")
    wr = prog.one(r"^resultset::RowWriter::<'a, W>::write_row$")
    fi = prog.one(r"^resultset::RowWriter::<'a, W>::finish_inner$")
    nw = prog.one(r"^resultset::RowWriter::<'a, W>::new$")
    for b in (er, wc, wr, fi, nw):
        ctx.fn(b)

    def empty_cols_truth(b, p):
        """True/False if the path tested whether `columns` is empty (first such test, any spelling), else None."""
        return emptiness_of(p, lambda x: T.is_field(x, "columns"))

    def col_writes(b, p):
        out = []
        for pos, blk in enumerate(p.blocks):
            for i, s in enumerate(b.blocks[blk]["stmts"]):
                if s["k"] == "assign" and s["lhs"]["p"] and isinstance(s["lhs"]["p"][-1], dict) and s["lhs"]["p"][-1].get("n") == "col":
                    out.append((pos, i, s))
        return out

    from engines.terms import Aff
    n = 0
    for p in enumerate_paths(er):
        if p.end != "return" or empty_cols_truth(er, p) is not True:
            continue
        n += 1
        ws = col_writes(er, p)
        ok = len(ws) == 1 and classify_return(p) == "ok"
        if ok:
            pos, i, s = ws[0]
            val = p.origin_rvalue(s["rv"], pos, i, 0)
            ok = T.affine(val) == Aff(1, {("path", "self", "col"): 1})
        ctx.ob("C14.zero-column-count", ok, "end_row on a zero-column resultset must add exactly 1 to the row counter and succeed", fn=er.path,
               construct="increment", where=er.where(p.blocks[-1]), sample={"rule": "zero-column-count", "fn": "end_row", "writes": len(ws)})
        emits = [1 for pos, blk, t in p.calls() if wire.classify_call(p, pos, t) is not None]
        ctx.ob("C14.zero-column-count", not emits, "end_row on a zero-column resultset emits bytes", fn=er.path, construct="no-emission", nontrivial=False)
    ctx.floor("C14.zero-column-count", "zero-column paths of end_row", n, 1)
    n = 0
    for p in enumerate_paths(wc):
        if p.end != "return" or empty_cols_truth(wc, p) is not True:
            continue
        n += 1
        ctx.ob("C14.zero-column-count", not col_writes(wc, p) and classify_return(p) == "ok", "write_col on a zero-column resultset touches the row counter",
               fn=wc.path, construct="untouched", where=wc.where(p.blocks[-1]))
    ctx.floor("C14.zero-column-count", "zero-column paths of write_col", n, 1)
    n = 0
    for p in enumerate_paths(wr):
        if p.end != "return" or classify_return(p) == "err":
            continue
        n += 1
        ends = [1 for pos, blk, t in p.calls() if cname(t["func"]) == er.path]
        ctx.ob("C14.zero-column-count", len(ends) == 1, "write_row reaches end_row %d times on an Ok path" % len(ends), fn=wr.path, construct="one-end-row",
               where=wr.where(p.blocks[-1]))
    ctx.floor("C14.zero-column-count", "Ok paths of write_row", n, 1)
    # counter starts at 0
    rb = nw.return_blocks()[0]
    aggs = [s["rv"] for _, _, s in nw.stmts() if s["k"] == "assign" and s["rv"]["k"] == "agg" and s["rv"].get("ak") == "adt" and s["rv"]["adt"].endswith("RowWriter")]
    ok = False
    if len(aggs) == 1:
        d = dict(zip(aggs[0]["fnames"], aggs[0]["fields"]))
        c = d.get("col", {}).get("const")
        ok = c is not None and c.get("int") == "0"
    ctx.ob("C14.zero-column-count", ok, "the row counter does not start at 0", fn=nw.path, construct="initial", nontrivial=False)
    # completion: rows = col (unmodified since the last end_row), last_insert_id = 0
    n = 0
    for p in enumerate_paths(fi):
        if p.end != "return":
            continue
        for pos, blk in enumerate(p.blocks):
            for i, s in enumerate(fi.blocks[blk]["stmts"]):
                if s["k"] == "assign" and s["rv"]["k"] == "agg" and s["rv"].get("ak") == "adt" and s["rv"]["adt"].endswith("Finalizer") and s["rv"]["vname"] == "Ok":
                    n += 1
                    o = p.origin_rvalue(s["rv"], pos, i, 0)
                    d = dict(zip(o[5], o[4]))
                    rows = d.get("rows")
                    ok = T.affine(rows) == Aff(0, {("path", "self", "col"): 1}) and T.is_const_int(d.get("last_insert_id"), 0) and empty_cols_truth(fi, p) is True
                    ctx.ob("C14.zero-column-count", ok,
                           "completion of a zero-column resultset reports rows = %s (need the row counter as left by the last end_row), last_insert_id = %s" % (term_str(rows)[:80], term_str(d.get("last_insert_id"))),
                           fn=fi.path, construct="completion-rows", where=fi.where(blk), sample={"rule": "zero-column-count", "rows": term_str(rows)[:80]})
    ctx.floor("C14.zero-column-count", "completion paths storing Finalizer::Ok", n, 1)

    # every outbound clause of this property presupposes a faithful framing layer (one transport write site that sends the
    # whole pending packet, in order, with a correct header): C04's framing rules are evaluated here as well


class _P:
    """minimal path-like wrapper for classify_call on a Body (single block)"""
    def __init__(self, body, bb):
        self.body = body
        self.blocks = [bb]

    def arg(self, pos, i):
        return self.body.arg_origin(self.blocks[0], i)
