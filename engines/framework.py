"""Check framework: context handed to rule files, obligations, violations, known findings,
evidence and replay files."""
import json
import os
import sys
import time
import traceback

from . import extract as X
from .prog import Program, AnchorMissing
from .paths import TooManyPaths
from . import cursor

VERIF = X.VERIF


class Violation:
    def __init__(self, prop, rule, key, what, where, detail=None, config=None):
        self.prop = prop
        self.rule = rule
        self.key = key          # dict without line numbers
        self.what = what
        self.where = where      # file:line (report only)
        self.detail = detail or {}
        self.config = config

    def key_tuple(self):
        return (self.prop, self.rule) + tuple(sorted((k, str(v)) for k, v in self.key.items()))

    def to_json(self):
        return {"property": self.prop, "rule": self.rule, "key": self.key, "what": self.what,
                "where": self.where, "detail": self.detail, "config": self.config}


class Ctx:
    def __init__(self, prop, tier, progs, infos):
        self.prop = prop
        self.tier = tier
        self.progs = progs          # config -> Program
        self.infos = infos
        self.cur_config = None
        self.violations = []
        self.obligations = 0
        self.discharged = 0
        self.nontrivial = set()
        self.samples = []
        self.rules = {}             # rule id -> {"instances": n, "explanation": str}
        self.assumptions = []
        self.functions = set()
        self.call_sites = 0
        self.unmodelled = set()
        self.notes = []
        self._ord = {}
        self.rule_filter = None     # rule id -> bool: which rules of the rule file being evaluated count (rules/_deps.py)

    # ---- bookkeeping ----------------------------------------------------------------------
    def prog(self, config="tls"):
        self.cur_config = config
        return self.progs[config]

    def rule(self, rid, explanation):
        if self.rule_filter is not None and not self.rule_filter(rid):
            return
        self.rules.setdefault(rid, {"instances": 0, "explanation": explanation, "violations": 0})

    def fn(self, body):
        self.functions.add(body.path)

    def assume(self, text):
        if text not in self.assumptions:
            self.assumptions.append(text)

    def sample(self, obj, maxn=12):
        if len(self.samples) < maxn:
            self.samples.append(obj)

    def ordinal(self, *parts):
        k = tuple(parts)
        n = self._ord.get(k, 0)
        self._ord[k] = n + 1
        return n

    def ob(self, rule, ok, what, fn=None, construct=None, callee=None, where=None, detail=None,
           nontrivial=True, key_extra=None, sample=None):
        """Record one obligation (rule instance).  ok=False -> violation."""
        if self.rule_filter is not None and not self.rule_filter(rule):
            return bool(ok)
        self.obligations += 1
        r = self.rules.setdefault(rule, {"instances": 0, "explanation": "", "violations": 0})
        r["instances"] += 1
        if nontrivial:
            self.nontrivial.add((rule, fn, construct, callee, json.dumps(key_extra, sort_keys=True, default=str), what if key_extra is None and construct is None else None))
        if ok:
            self.discharged += 1
            if sample is not None:
                self.sample(sample)
            return True
        key = {"fn": fn, "construct": construct, "callee": callee}
        if key_extra:
            key.update(key_extra)
        key = {k: v for k, v in key.items() if v is not None}
        # the ordinal distinguishes identical constructs inside one function and one config
        o = self.ordinal(self.cur_config, rule, json.dumps(key, sort_keys=True, default=str))
        key["ordinal"] = o
        v = Violation(self.prop, rule, key, what, where, detail, self.cur_config)
        r["violations"] += 1
        # the same violation seen in both configurations is reported once
        for old in self.violations:
            if old.key_tuple() == v.key_tuple():
                return False
        self.violations.append(v)
        return False

    def floor(self, rule, name, count, minimum, where=None):
        """Fail closed when an anchor/instance count drops below what was confirmed by reading."""
        ok = count >= minimum
        self.ob(rule, ok, "anchor-missing: %s: found %d, confirmed floor %d" % (name, count, minimum),
                fn=None, construct="floor", callee=name, where=where, nontrivial=False,
                key_extra={"anchor": name})
        return ok

    def note(self, text):
        self.notes.append(text)


def load_known():
    p = os.path.join(VERIF, "known_findings.json")
    if not os.path.exists(p):
        return {"findings": [], "fixed": []}
    with open(p) as fh:
        return json.load(fh)


def match_known(v, known):
    for f in known.get("findings", []):
        if f.get("property") != v.prop or f.get("rule") != v.rule:
            continue
        fk = f.get("key", {})
        if all(str(v.key.get(k)) == str(val) for k, val in fk.items()) and set(fk.keys()) == set(v.key.keys()):
            return f
    return None


def run_property(prop, tier, rule_mod, configs, replay=None, selftest=None):
    t0 = time.time()
    seed = int(os.environ.get("VERIF_SEED", "0") or 0)
    progs, infos = {}, {}
    try:
        for c in configs:
            path, info = X.extract(c)
            infos[c] = info
            progs[c] = Program(path)
            cursor.register_local_parsers(progs[c])
    except X.BuildFailed as e:
        print("check: /repo does not build with the analysis driver (config %s):\n%s" % (c, e))
        return 2
    ctx = Ctx(prop, tier, progs, infos)
    # wall-clock watchdog for the analysis itself (the build/export above is not counted): a rule that does not come back on some
    # unforeseen code shape must fail closed like the step budget of the path engine does, not hang the check
    import signal
    budget = int(os.environ.get("MSQLX_ANALYSIS_BUDGET_S", "300") or 300)

    def _on_alarm(signum, frame):
        import traceback as _tb
        where = "".join(_tb.format_stack(frame, limit=6))
        sys.stderr.write("analysis watchdog: %d s exceeded at\n%s\n" % (budget, where))
        f = frame
        site = "?"
        while f is not None:
            if "/rules/" in f.f_code.co_filename or "/engines/" in f.f_code.co_filename:
                site = "%s:%s" % (os.path.basename(f.f_code.co_filename), f.f_code.co_name)
                break
            f = f.f_back
        raise TooManyPaths("wall-clock: the analysis did not finish within %d s (in %s)" % (budget, site))
    try:
        signal.signal(signal.SIGALRM, _on_alarm)
        signal.alarm(budget)
    except (ValueError, AttributeError):
        pass
    try:
        own = prop + "."
        ctx.rule_filter = lambda r: r.startswith(own) or r in ("anchor-missing", "analysis-budget")
        rule_mod.run(ctx)
        from rules import _deps
        _deps.run_includes(ctx, prop)
        ctx.rule_filter = None
    except TooManyPaths as e:
        # fail closed: the function grew beyond what the path engine enumerates (a new loop nest, a state machine)
        ctx.cur_config = ctx.cur_config or configs[0]
        ctx.rule_filter = None
        ctx.ob("analysis-budget", False, "analysis-budget: %s" % e, construct="budget", callee=str(e).split(":")[0][:120])
    except AnchorMissing as e:
        ctx.cur_config = ctx.cur_config or configs[0]
        ctx.rule_filter = None
        ctx.ob("anchor-missing", False, "anchor-missing: %s" % e, construct="anchor", callee=str(e)[:120])
    except Exception as e:
        # fail closed: a construct the rule file cannot analyse (never the case on the pinned tree, where every check completes)
        # is reported as a violation of the anchor it was looking at, not as a crash of the checker
        traceback.print_exc()
        tb = traceback.extract_tb(e.__traceback__)
        site = next((f for f in reversed(tb) if "/rules/" in f.filename), tb[-1])
        ctx.cur_config = ctx.cur_config or configs[0]
        ctx.rule_filter = None
        ctx.ob("analysis-internal", False, "analysis-internal: %s in %s:%s (%s): the code has a shape this rule cannot read" % (type(e).__name__, os.path.basename(site.filename), site.name, str(e)[:80]),
               construct="internal", callee="%s:%s" % (os.path.basename(site.filename), site.name))
    try:
        signal.alarm(0)
    except (ValueError, AttributeError):
        pass
    known = load_known()
    new, matched = [], []
    for v in ctx.violations:
        f = match_known(v, known)
        if f is not None:
            matched.append((v, f))
        else:
            new.append(v)
    wall = time.time() - t0
    # ---- evidence -----------------------------------------------------------------------
    level = getattr(rule_mod, "LEVEL", "other")
    cov = {
        "explanation": getattr(rule_mod, "EXPLANATION", ""),
        "evaluations": ctx.obligations,
        "distinct_nontrivial": len(ctx.nontrivial),
        "rule": "an evaluation is one rule instance (obligation) found in the exported MIR of /repo's current tree; "
                "distinct_nontrivial counts distinct (rule, function, construct, callee, key) instances that needed a "
                "path search, dataflow, interval or layout comparison (anchor floors are excluded)",
        "obligations": ctx.obligations,
        "discharged": ctx.discharged,
        "samples": ctx.samples or [{"note": "no sample recorded"}],
        "configs": {c: infos[c] for c in configs},
        "functions_analysed": len(ctx.functions),
        "functions": sorted(ctx.functions)[:60],
        "rules": ctx.rules,
        "known_findings_matched": [{"rule": v.rule, "key": v.key, "what": v.what} for v, _ in matched],
        "unmodelled_callees": sorted(ctx.unmodelled)[:80],
        "notes": ctx.notes[:40],
        "exhaustive": bool(getattr(rule_mod, "EXHAUSTIVE", False)),
    }
    if selftest is not None:
        cov["selftest"] = selftest
    if level == "proof":
        cov["checker_cmd"] = "./check %s --tier %s" % (prop, tier)
        cov["trusted_base"] = list(getattr(rule_mod, "TRUSTED", []))
        if ctx.discharged != ctx.obligations:
            level = "other"
    ev = {
        "property_id": prop, "tier": tier, "seed": seed, "level": level, "coverage": cov,
        "assumptions": ctx.assumptions + list(getattr(rule_mod, "ASSUMPTIONS", [])),
        "wall_s": round(wall, 3), "violations": len(new),
    }
    evdir = os.environ.get("MSQLX_EVIDENCE_DIR") or os.path.join(VERIF, "evidence")
    os.makedirs(evdir, exist_ok=True)
    evp = os.path.join(evdir, "%s.json" % prop)
    tmp = evp + ".tmp.%d" % os.getpid()
    with open(tmp, "w") as fh:
        json.dump(ev, fh, indent=1, default=str)
        fh.write("\n")
    os.replace(tmp, evp)
    # ---- report -------------------------------------------------------------------------
    print("%s [%s] configs=%s functions=%d obligations=%d discharged=%d known=%d new=%d  (%.2fs)" % (
        prop, tier, ",".join(configs), len(ctx.functions), ctx.obligations, ctx.discharged, len(matched), len(new), wall))
    for rid, r in sorted(ctx.rules.items()):
        print("  rule %-32s instances=%-4d violations=%d" % (rid, r["instances"], r["violations"]))
    for v, f in matched:
        print("KNOWN-FINDING: property=%s rule=%s %s [%s] (%s)" % (prop, v.rule, f.get("what_fails", v.what), v.where, v.what))
    if replay is not None:
        new = [v for v in new if v.key_tuple() == replay]
    if new:
        rd = os.path.join(X.CACHE, "replay")
        os.makedirs(rd, exist_ok=True)
        for i, v in enumerate(new):
            rp = os.path.join(rd, "%s-%d.json" % (prop, i))
            with open(rp, "w") as fh:
                json.dump(v.to_json(), fh, indent=1, default=str)
            print("  violation rule=%s at %s: %s\n    key=%s" % (v.rule, v.where, v.what, json.dumps(v.key, default=str)))
            print("VIOLATION property=%s replay=%s" % (prop, rp))
        return 1
    return 0
