#!/bin/sh
# Compile-fail witnesses for the writer-API typestate (C03/C10). rustc is the checker; nothing runs
# (every doctest is compile_fail or no_run). Needs nightly so that the error code is honoured.
set -e
cd "$(dirname "$0")"
REPO="${MSQLX_REPO:-/repo}"
sed -i "s|^msql-srv = .*|msql-srv = { path = \"$REPO\" }|" Cargo.toml
cp "$REPO/Cargo.lock" Cargo.lock
export CARGO_NET_OFFLINE=true
export CARGO_TARGET_DIR="$(cd .. && pwd)/.cache/target-witness"
OUT=$(cargo +nightly test --doc --offline 2>&1) || { echo "$OUT" | tail -40; sed -i "s|^msql-srv = .*|msql-srv = { path = \"/repo\" }|" Cargo.toml; exit 1; }
sed -i "s|^msql-srv = .*|msql-srv = { path = \"/repo\" }|" Cargo.toml
echo "$OUT" | grep -E "^test |test result" 
N=$(echo "$OUT" | grep -c -- "- compile fail ... ok" || true)
T=$(echo "$OUT" | grep -c -- "- compile ... ok" || true)
echo "witnesses: $N compile_fail ok, $T twins compile"
[ "$N" -ge 9 ] && [ "$T" -ge 9 ]
