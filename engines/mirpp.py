#!/usr/bin/env python3
"""Pretty-print exported MIR bodies (development aid and report helper)."""
import json
import sys


def place_s(p):
    s = "_%d" % p["l"]
    for e in p["p"]:
        if e == "deref":
            s = "(*%s)" % s
        elif e == "other":
            s = "%s.<other>" % s
        elif "f" in e:
            s = "%s.%s" % (s, e["n"] if e.get("n") is not None else e["f"])
        elif "idx" in e:
            s = "%s[_%d]" % (s, e["idx"])
        elif "cidx" in e:
            s = "%s[%s%d]" % (s, "-" if e["from_end"] else "", e["cidx"])
        elif "sub" in e:
            s = "%s[%d..%s%d]" % (s, e["sub"][0], "-" if e["from_end"] else "", e["sub"][1])
        elif "dc" in e:
            s = "(%s as %s)" % (s, e.get("n") or e["dc"])
    return s


def const_s(c):
    if "int" in c:
        return "%s_%s" % (c["int"], c["ty"])
    if "bytes" in c:
        b = bytes(c["bytes"])
        return "b%r" % b
    if "fn" in c:
        return "fn(%s)" % fn_s(c["fn"])
    if "closure" in c:
        return "closure(%s)" % c["closure"]
    if "promoted" in c:
        return "promoted[%d]:%s" % (c["promoted"], c["ty"])
    if "float" in c:
        return c["float"]
    return "const<%s %s>" % (c["ty"], c.get("dbg", ""))


def op_s(o):
    if "copy" in o:
        return place_s(o["copy"])
    if "move" in o:
        return "move " + place_s(o["move"])
    if "const" in o:
        return const_s(o["const"])
    return "?%r" % (o,)


def fn_s(f):
    if "indirect" in f:
        return "indirect(%s)" % op_s(f["indirect"])
    r = f.get("rpath")
    s = f["path"]
    if f.get("gargs"):
        s += "<" + ", ".join(f["gargs"]) + ">"
    if r and r != f["path"]:
        s += " => " + r
    return s


def rv_s(r):
    k = r["k"]
    if k == "use":
        return op_s(r["op"])
    if k == "ref":
        return "&%s%s" % ("mut " if r["mut"] else "", place_s(r["place"]))
    if k == "rawptr":
        return "&raw %s" % place_s(r["place"])
    if k == "cast":
        return "%s as %s (%s)" % (op_s(r["op"]), r["ty"], r["ck"])
    if k == "bin":
        return "%s(%s, %s)" % (r["op"], op_s(r["a"]), op_s(r["b"]))
    if k == "un":
        return "%s(%s)" % (r["op"], op_s(r["a"]))
    if k == "discr":
        return "discriminant(%s)" % place_s(r["place"])
    if k == "agg":
        fs = ", ".join(op_s(f) for f in r["fields"])
        if r["ak"] == "adt":
            return "%s::%s{%s}" % (r["adt"], r["vname"], fs)
        if r["ak"] == "closure":
            return "closure %s{%s}" % (r["closure"], fs)
        return "%s(%s)" % (r["ak"], fs)
    if k == "repeat":
        return "[%s; %s]" % (op_s(r["op"]), r["n"])
    return "other<%s>" % r.get("dbg")


def term_s(t):
    k = t["k"]
    if k == "goto":
        return "goto bb%d" % t["t"]
    if k == "switch":
        arms = ", ".join("%s: bb%s" % (v, g) for v, g in zip(t["vals"], t["tgts"]))
        return "switchInt(%s) [%s, otherwise: bb%d]" % (op_s(t["discr"]), arms, t["otherwise"])
    if k == "call":
        return "%s = %s(%s) -> bb%s unwind %s" % (
            place_s(t["dest"]), fn_s(t["func"]), ", ".join(op_s(a) for a in t["args"]), t["t"], t["unwind"])
    if k == "assert":
        return "assert(%s == %s, %s(%s)) -> bb%d" % (
            op_s(t["cond"]), t["expected"], t["msg"], ", ".join(op_s(o) for o in t["ops"]), t["t"])
    if k == "drop":
        return "drop(%s : %s) -> bb%d unwind %s" % (place_s(t["place"]), t["ty"], t["t"], t["unwind"])
    return k


def body_s(b, types=False):
    out = []
    out.append("fn %s  [%s %s:%d-%d] args=%d" % (b["path"], b["kind"], b["file"], b["line_lo"], b["line_hi"], b["arg_count"]))
    for k in ("impl_self", "impl_trait", "sig_in", "sig_out", "vis"):
        if k in b:
            out.append("  %s: %s" % (k, b[k]))
    for dv in b["debug"]:
        v = dv["v"]
        out.append("  debug %s => %s" % (dv["name"], place_s(v["place"]) if "place" in v else const_s(v["const"])))
    if types:
        for i, l in enumerate(b["locals"]):
            out.append("  let _%d: %s" % (i, l["ty"]))
    for i, blk in enumerate(b["blocks"]):
        out.append("  bb%d%s:" % (i, " (cleanup)" if blk["cleanup"] else ""))
        for s in blk["stmts"]:
            if s["k"] == "assign":
                out.append("    %s = %s   // L%d" % (place_s(s["lhs"]), rv_s(s["rv"]), s["line"]))
            elif s["k"] == "setdiscr":
                out.append("    discriminant(%s) = %d" % (place_s(s["place"]), s["variant"]))
            else:
                out.append("    %s" % s.get("dbg"))
        t = blk["term"]
        e = t.get("exp")
        out.append("    %s   // L%d%s" % (term_s(t), t["line"], (" exp=" + e["descr"]) if e else ""))
    return "\n".join(out)


if __name__ == "__main__":
    facts = sys.argv[1]
    if facts in ("tls", "notls"):
        import os
        sys.path.insert(0, os.path.dirname(os.path.dirname(os.path.abspath(__file__))))
        from engines import extract
        facts, _ = extract.extract(facts)
    pat = sys.argv[2]
    exact = "-x" in sys.argv[3:]
    types = "-t" in sys.argv[3:]
    nocleanup = "-c" in sys.argv[3:]
    d = json.load(open(facts))
    for b in d["bodies"]:
        if (b["path"] == pat) if exact else (pat in b["path"]):
            if nocleanup:
                b = dict(b)
            print(body_s(b, types))
            print()
