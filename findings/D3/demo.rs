// D3 (C16/C08): an execution with new-params-bound = 0 must decode its values with the types of
// the previous execution; the flag byte itself must not be read as value data.
mod harness;
use harness::*;
use msql_srv::*;
use std::io;

struct Shim(Vec<i64>);
impl MysqlShim<Pipe> for Shim {
    type Error = io::Error;
    fn on_prepare(&mut self, _: &str, info: StatementMetaWriter<'_, Pipe>) -> io::Result<()> {
        let p = [Column { table: String::new(), column: "p".into(), coltype: ColumnType::MYSQL_TYPE_SHORT, colflags: ColumnFlags::empty() }];
        info.reply(1, &p, &[])
    }
    fn on_execute(&mut self, _: u32, params: ParamParser<'_>, results: QueryResultWriter<'_, Pipe>) -> io::Result<()> {
        for p in params {
            let v: i16 = p.value.into();
            self.0.push(v as i64);
        }
        results.completed(0, 0)
    }
    fn on_close(&mut self, _: u32) {}
    fn on_query(&mut self, _: &str, r: QueryResultWriter<'_, Pipe>) -> io::Result<()> { r.completed(0, 0) }
}

#[test]
fn reuse_branch_consumes_flag_byte() {
    let mut bytes = handshake();
    bytes.extend(packet(0, b"\x16SELECT ?"));
    // execute #1: stmt 1, flags 0, iterations 1, nullmap 00, new-params-bound 1, type SHORT(2) signed, value 7
    bytes.extend(packet(0, &[0x17, 1, 0, 0, 0, 0, 1, 0, 0, 0, 0x00, 0x01, 0x02, 0x00, 0x07, 0x00]));
    // execute #2: same statement, new-params-bound 0, value 9
    bytes.extend(packet(0, &[0x17, 1, 0, 0, 0, 0, 1, 0, 0, 0, 0x00, 0x00, 0x09, 0x00]));
    bytes.extend(packet(0, &[0x01]));
    let mut seen = Vec::new();
    {
        let shim = Shim(Vec::new());
        // keep a handle on what the shim saw
        struct W<'a>(Shim, &'a mut Vec<i64>);
        impl<'a> MysqlShim<Pipe> for W<'a> {
            type Error = io::Error;
            fn on_prepare(&mut self, q: &str, i: StatementMetaWriter<'_, Pipe>) -> io::Result<()> { self.0.on_prepare(q, i) }
            fn on_execute(&mut self, id: u32, p: ParamParser<'_>, r: QueryResultWriter<'_, Pipe>) -> io::Result<()> {
                let x = self.0.on_execute(id, p, r);
                *self.1 = (self.0).0.clone();
                x
            }
            fn on_close(&mut self, _: u32) {}
            fn on_query(&mut self, q: &str, r: QueryResultWriter<'_, Pipe>) -> io::Result<()> { self.0.on_query(q, r) }
        }
        let (r, _out) = run(W(shim, &mut seen), bytes);
        r.unwrap();
    }
    assert_eq!(seen, vec![7, 9]);
}
