"""C10 — statement ids are executable exactly between PREPARE reply and CLOSE."""
import re

from engines import effects, arms
from engines.paths import enumerate_paths
from engines.prog import cname, term_str
from engines import terms as T

CONFIGS = ["tls"]
LEVEL = "other"
EXPLANATION = (
    "Registry life-cycle rules over MIR. Ownership: the statement map (HashMap<u32, StatementData>) is created once per "
    "command-loop invocation, outside the loop; `insert` occurs only in StatementMetaWriter::reply, `remove` only in the "
    "COM_STMT_CLOSE arm, and StatementMetaWriter::error performs no map operation. Lookup-or-error: on every enumerated "
    "path through one loop iteration, the on_execute call and the long-data append are preceded by get_mut on that map "
    "with the statement id read from the same command, their state argument is the looked-up entry (def-use), and on the "
    "path where the lookup fails no shim callback and no connection write follows before the error return. Close: on_close "
    "exactly once with the command's id, remove with the same id, no write. Fresh state: the inserted StatementData takes "
    "`params` from the reply's parameter iterator length and every other field from Default::default().")
ASSUMPTIONS = ["std HashMap semantics (get_mut/insert/remove/clear)", "the shim replies to PREPARE with the id it means (shim behaviour)"]

MAP_RX = r"std::collections::HashMap::<K, V, S, A>::(\w+)$"


def stmt_map_ops(prog):
    """All call sites of HashMap methods whose value type is StatementData."""
    out = []
    for b in prog.non_test_fns():
        for bb, t in b.calls():
            f = t["func"]
            if "indirect" in f:
                continue
            m = re.search(r"std::collections::HashMap::<K, V(, S(, A)?)?>::(\w+)$", cname(f))
            ga = f.get("rgargs") or f.get("gargs") or []
            if not m:
                # `HashMap::default()` creates the map just as `HashMap::new()` does (a `#[derive(Default)]` wrapper around the table)
                if re.search(r"<std::collections::HashMap<K, V, S> as std::default::Default>::default$", cname(f)) and any("StatementData" in str(g) for g in ga):
                    out.append(("new", b, bb, t))
                continue
            if any(g == "StatementData" for g in ga):
                out.append((m.group(3), b, bb, t))
    return out


def run(ctx):
    prog = ctx.prog("tls")
    roles, eff = effects.build(prog)
    lm = arms.LoopModel(prog, roles, eff)
    fr = roles.f_run
    ctx.fn(fr)
    ctx.rule("C10.registry-ownership", "who creates / inserts into / removes from the statement map")
    ctx.rule("C10.lookup-dominates", "on_execute and long-data append only after a successful lookup of the same id; failed lookup -> error, nothing else")
    ctx.rule("C10.close", "COM_STMT_CLOSE: on_close once, remove same id, no reply bytes")
    ctx.rule("C10.fresh-on-prepare", "reply() inserts params=len(params iterator), all other fields Default")

    ops = stmt_map_ops(prog)
    by = {}
    for name, b, bb, t in ops:
        by.setdefault(name, []).append((b, bb, t))
    # creation
    news = by.get("new", [])
    ctx.ob("C10.registry-ownership", len(news) == 1 and news[0][0].path == fr.path,
           "the statement map must be created exactly once, in the command loop function (found %s)" % [(b.path) for b, _, _ in news],
           fn=fr.path, construct="map-new")
    if news and news[0][0].path == fr.path:
        nb = news[0][1]
        loops = fr.loops()
        in_loop = any(nb in blks for blks in loops.values())
        ctx.ob("C10.registry-ownership", not in_loop and fr.dominates(nb, lm.read_bb),
               "the statement map is (re)created inside the command loop: ids would not survive to the next command",
               fn=fr.path, construct="map-new-outside-loop", where=fr.where(nb))
    ins = by.get("insert", [])
    ok = len(ins) == 1 and ins[0][0].path.endswith("StatementMetaWriter::<'a, W>::reply")
    ctx.ob("C10.registry-ownership", ok, "insert into the statement map must occur only in StatementMetaWriter::reply (found in %s)" % [b.path for b, _, _ in ins],
           fn=(ins[0][0].path if ins else None), construct="map-insert")
    rem = by.get("remove", [])
    ok = len(rem) == 1 and rem[0][0].path == fr.path
    ctx.ob("C10.registry-ownership", ok, "remove from the statement map must occur only in the close arm of the command loop (found in %s)" % [b.path for b, _, _ in rem],
           fn=fr.path, construct="map-remove")
    allowed = {"new", "insert", "remove", "get_mut"}
    other = sorted({n for n in by if n not in allowed})
    ctx.ob("C10.registry-ownership", not other, "unexpected operations on the statement map: %s" % other, fn=fr.path, construct="map-ops",
           key_extra={"ops": ",".join(other)})
    for b, bb, t in by.get("get_mut", []):
        ctx.ob("C10.registry-ownership", b.path == fr.path, "statement lookup outside the command loop: %s" % b.path, fn=b.path, construct="map-get_mut", where=b.where(bb))
    # the error reply to PREPARE registers nothing
    err = prog.one(r"^resultset::StatementMetaWriter::<'a, W>::error$")
    ctx.fn(err)
    bad = [cname(t["func"]) for _, t in err.calls() if re.search(r"HashMap", cname(t["func"]))]
    ctx.ob("C10.registry-ownership", not bad, "StatementMetaWriter::error touches the statement map: %s" % bad, fn=err.path, construct="no-map-op")
    # the map is lent only to the prepare writer
    lent = []
    for b in prog.non_test_fns():
        for bb, i, s in b.stmts():
            if s["k"] == "assign" and s["rv"]["k"] == "agg" and s["rv"].get("ak") == "adt" and s["rv"]["adt"].endswith("StatementMetaWriter"):
                lent.append((b, bb))
    ctx.ob("C10.registry-ownership", len(lent) == 1 and lent[0][0].path == fr.path and lm.arm_entry.get("Prepare") in fr.dom.get(lent[0][1], set()) | {lent[0][1]},
           "StatementMetaWriter must be constructed exactly once, in the PREPARE arm (found %s)" % [(b.path, b.where(bb)) for b, bb in lent],
           fn=fr.path, construct="prepare-writer")

    # ---- per-path rules --------------------------------------------------------------------
    n_exec = n_ld = n_close = n_failed = 0
    for arm, outcome, p in lm.iteration_paths():
        if outcome == "unreachable" or arm is None:
            continue
        ev = lm.events(p)
        kinds = [e[0] for e in ev]
        if arm == "Execute":
            execs = [e for e in ev if e[0] == "shim:on_execute"]
            if outcome == "stop":
                ctx.ob("C10.lookup-dominates", len(execs) == 1, "an Execute iteration that completes calls on_execute %d times" % len(execs),
                       fn=fr.path, construct="on_execute-count", where=fr.where(p.blocks[-1]))
            for e in execs:
                n_exec += 1
                _, pos, bb, t = e
                idt = p.arg(pos, 1)
                part = p.arg(pos, 2)
                lookups = [x for x in ev if x[0] == "map:get_mut" and x[1] < pos]
                ok = False
                why = "no statement lookup precedes on_execute"
                if lookups:
                    lk = lookups[-1]
                    key = T.peel(p.arg(lk[1], 1))
                    vf = T.variant_field(key)
                    idv = T.variant_field(T.peel(idt))
                    st = None
                    if T.is_call(part, r"ParamParser::<'a>::new$") and len(part[2]) == 2:
                        st = part[2][1]
                        pbytes = T.variant_field(T.peel(part[2][0]))
                    else:
                        pbytes = None
                    cond = [
                        (vf is not None and vf[0] == "Execute", "lookup key is not the Execute command's statement id: %s" % term_str(key)),
                        (idv is not None and vf is not None and idv == vf, "on_execute is given id %s but the lookup used %s" % (term_str(idt), term_str(key))),
                        (st is not None and T.contains(st, lambda x: x[0] == "call" and x[1].endswith("::get_mut") and x[3] == ("site", lk[2])) if st is not None else False,
                         "the parameter parser's statement state is not the looked-up entry: %s" % term_str(part)),
                        (st is not None and st[0] in ("okpayload", "somepayload"), "the looked-up entry is used without taking the success arm of the lookup"),
                        (pbytes is not None and pbytes[0] == "Execute" and pbytes[2] == (vf[2] if vf else None), "parameter bytes are not the Execute command's payload"),
                    ]
                    ok = all(c for c, _ in cond)
                    why = "; ".join(w for c, w in cond if not c)
                ctx.ob("C10.lookup-dominates", ok, "on_execute without a dominating lookup of the same statement: " + why,
                       fn=fr.path, construct="call", callee="MysqlShim::on_execute", where=fr.where(bb),
                       sample={"rule": "lookup-dominates", "site": fr.where(bb), "id": term_str(idt)[-60:], "outcome": outcome})
        if arm == "SendLongData":
            ents = [e for e in ev if e[0] == "map:entry"]
            # (entry on the long-data map is a HashMap<u16, Vec<u8>> op; handled by C17) — here: lookup precedes any use
            lookups = [x for x in ev if x[0] == "map:get_mut"]
            if outcome == "stop":
                n_ld += 1
                ok = len(lookups) == 1 and T.variant_field(T.peel(p.arg(lookups[0][1], 1))) is not None and \
                    T.variant_field(T.peel(p.arg(lookups[0][1], 1)))[0:2] == ("SendLongData", "stmt")
                ctx.ob("C10.lookup-dominates", ok, "long data is accepted without looking up the addressed statement id",
                       fn=fr.path, construct="long-data-lookup", where=fr.where(p.blocks[-1]))
        if arm in ("Execute", "SendLongData") and outcome == "return-err":
            rv = p.return_value()
            # the error being returned is the residual of `?` applied directly to the (adapted) lookup result
            failed_lookup = T.find(rv, lambda x: x[0] == "errresidual" and T.is_call(
                T.peel(x[1], extra_rx=r"::(ok_or_else|ok_or|map_err)$", payloads=False), r"::get_mut$"))
            if failed_lookup is None:
                # the explicit form: `match stmts.get_mut(&id) { Some(s) => s, None => return Err(..) }`
                for i, blk in enumerate(p.blocks[:-1]):
                    tt = fr.term(blk)
                    if tt["k"] != "switch":
                        continue
                    dv = p.origin_op(tt["discr"], i)
                    if isinstance(dv, tuple) and dv[0] == "discr" and T.is_call(dv[1], r"::get_mut$"):
                        taken = [x for x, g in zip(tt["vals"], tt["tgts"]) if g == p.blocks[i + 1]]
                        if taken == ["0"] or (not taken and "0" not in tt["vals"]):
                            failed_lookup = dv
            if failed_lookup is not None:
                n_failed += 1
                lk = [x for x in ev if x[0] == "map:get_mut"]
                after = [e[0] for e in ev if lk and e[1] > lk[-1][1] and (e[0].startswith("shim:") or e[0] == "write")]
                ctx.ob("C10.lookup-dominates", not after, "after a failed statement lookup the server still performs %s" % after,
                       fn=fr.path, construct="failed-lookup-exit", callee=arm, where=fr.where(p.blocks[-1]),
                       sample={"rule": "lookup-dominates/failed", "arm": arm, "events_after": after})
        if arm == "Close" and outcome == "stop":
            n_close += 1
            closes = [e for e in ev if e[0] == "shim:on_close"]
            rems = [e for e in ev if e[0] == "map:remove"]
            writes = [e for e in ev if e[0] == "write"]
            ok = len(closes) == 1 and len(rems) == 1 and not writes
            why = "on_close x%d, remove x%d, writes x%d" % (len(closes), len(rems), len(writes))
            if ok:
                cid = T.variant_field(T.peel(p.arg(closes[0][1], 1)))
                rid = T.variant_field(T.peel(p.arg(rems[0][1], 1)))
                ok = cid is not None and cid == rid and cid[0] == "Close"
                why = "on_close id %s vs removed id %s" % (term_str(p.arg(closes[0][1], 1))[-50:], term_str(p.arg(rems[0][1], 1))[-50:])
            ctx.ob("C10.close", ok, "COM_STMT_CLOSE handling: " + why, fn=fr.path, construct="close-arm", where=fr.where(p.blocks[-1]),
                   sample={"rule": "close", "events": kinds})
        if arm not in ("Close",) and outcome in ("stop", "return-ok"):
            rems = [e for e in ev if e[0] == "map:remove"]
            ctx.ob("C10.close", not rems, "arm %s removes a statement" % arm, fn=fr.path, construct="remove-outside-close", callee=arm, nontrivial=False)
    ctx.floor("C10.lookup-dominates", "on_execute sites on enumerated paths", n_exec, 1)
    ctx.floor("C10.lookup-dominates", "completed long-data iterations", n_ld, 1)
    ctx.floor("C10.close", "completed close iterations", n_close, 1)
    ctx.floor("C10.lookup-dominates", "failed-lookup error exits (execute + long data)", n_failed, 2)

    # ---- fresh-on-prepare ------------------------------------------------------------------
    if ins:
        b, bb, t = ins[0]
        ctx.fn(b)
        val = b.arg_origin(bb, 2)
        key = b.arg_origin(bb, 1)
        ok = val[0] == "agg" and val[2].endswith("StatementData")
        why = "inserted value is not a fresh StatementData aggregate: %s" % term_str(val)
        if ok:
            fn_ = dict(zip(val[5], val[4]))
            pv = fn_.get("params")
            others = [(n, v) for n, v in fn_.items() if n != "params"]
            c1 = pv is not None and T.contains(pv, lambda x: T.is_call(x, r"ExactSizeIterator::len$") and T.contains(x, lambda y: T.is_param(y, 3)))
            def fresh(n, v):
                # `..Default::default()`, or the empty value spelled out
                return (T.is_field(v, n) and T.is_call(v[1], r"Default>::default$|Default::default$")) or \
                    T.is_call(v, r"(HashMap::<K, V>|HashMap::<K, V, S>|Vec::<T>|String)::new$|Default>::default$|Default::default$|::with_capacity$")
            c2 = all(fresh(n, v) for n, v in others) and len(others) >= 2
            ok = c1 and c2
            why = ("params <- %s; " % term_str(pv)) + ", ".join("%s <- %s" % (n, term_str(v)) for n, v in others)
        ctx.ob("C10.fresh-on-prepare", ok, "re-prepare must start from a fresh state: " + why, fn=b.path, construct="insert-value", where=b.where(bb),
               sample={"rule": "fresh-on-prepare", "value": term_str(val)[:200]})
        ctx.ob("C10.fresh-on-prepare", T.is_param(key, 2), "the id registered is %s, not the id given to reply()" % term_str(key), fn=b.path,
               construct="insert-key", where=b.where(bb))
        # the id written to the client is the id registered
        wp = list(b.calls_to(r"^writers::write_prepare_ok$"))
        ok = len(wp) == 1 and T.is_param(b.arg_origin(wp[0][0], 0), 2)
        ctx.ob("C10.fresh-on-prepare", ok, "the statement id sent in PREPARE_OK is not the id registered", fn=b.path, construct="reply-id")
        # ... and every id announced is registered: no path reaches the PREPARE_OK writer without the insert (a statement the client
        # was told about but the registry does not know can be neither executed nor closed)
        if len(wp) == 1:
            from engines.paths import enumerate_paths as _ep
            nskip = npaths_ = 0
            for p_ in _ep(b):
                if wp[0][0] in p_.blocks:
                    npaths_ += 1
                    if bb not in p_.blocks[:p_.blocks.index(wp[0][0])]:
                        nskip += 1
            ctx.ob("C10.fresh-on-prepare", npaths_ >= 1 and nskip == 0, "reply() announces a statement on %d of %d paths without registering it first" % (nskip, npaths_), fn=b.path,
                   construct="insert-before-announce", where=b.where(wp[0][0]))
