"""C07 — binary-protocol rows arrive unchanged, with an exact NULL bitmap (layout clauses)."""
import re

from engines import wire, coltype
from engines.paths import enumerate_paths, classify_return
from engines.prog import cname, term_str, place_fields
from engines import terms as T
from engines.terms import Aff

CONFIGS = ["tls"]
LEVEL = "other"
EXPLANATION = (
    "Bitmap arithmetic as affine normal forms for all column counts: bitmap length = (n+7+2)/8, NULL bit of column c = byte "
    "(c+2)/8, bit (c+2)%8 — offset 2 in all three places. Row prefix: the 0x00 row header is written once at column 0 before the "
    "bitmap; at column 0 the row buffer is resized to the bitmap length with zero fill, and it is empty at that point because "
    "the constructor starts it empty and end_row clears it (clear(), not a partial truncate) after writing it whole followed by "
    "exactly one packet end. NOT NULL: the bit is set only on the branch where the NOT_NULL flag test failed, the other branch "
    "returns Err; NULL values never reach the binary encoder (is_null() false dominates it). Layouts: for every non-integer "
    "to_mysql_bin impl and column-type arm, the emission sequence equals the protocol's binary value layout (FLOAT 4, DOUBLE 8 "
    "with f32 widened, byte strings one lenenc string for exactly the 14 string-like types, DATE [4][u16][u8][u8], "
    "DATETIME/TIMESTAMP [7|11]…, TIME [0] | [8|12][neg][days u32][h][m][s]([µs])), the constant length byte equals the number of "
    "bytes emitted after it on that path, each slot is fed from the correspondingly named accessor (year/month/day/hour/minute/"
    "second, micros), the TIME slots follow days = secs/86400, h = secs%86400/3600, m = secs%3600/60, s = secs%60, the zero-length "
    "TIME form is emitted only when total seconds and microseconds are both zero, and other column types are refused with Err.")
ASSUMPTIONS = ["chrono accessors return the named calendar field", "year() as u16 is exact for years 0..=65535", "lenenc string writer of mysql_common"]

STRINGLIKE = {"MYSQL_TYPE_STRING", "MYSQL_TYPE_VAR_STRING", "MYSQL_TYPE_BLOB", "MYSQL_TYPE_TINY_BLOB", "MYSQL_TYPE_MEDIUM_BLOB", "MYSQL_TYPE_LONG_BLOB",
              "MYSQL_TYPE_SET", "MYSQL_TYPE_ENUM", "MYSQL_TYPE_DECIMAL", "MYSQL_TYPE_VARCHAR", "MYSQL_TYPE_BIT", "MYSQL_TYPE_NEWDECIMAL", "MYSQL_TYPE_GEOMETRY", "MYSQL_TYPE_JSON"}


def zero_tests(b, p):
    """[(tested term, is_zero)] for every `x == 0` / `x != 0` / `!(..)` decision taken on the path"""
    out = []
    for i, blk in enumerate(p.blocks[:-1]):
        t = b.term(blk)
        if t["k"] != "switch" or "0" not in t["vals"]:
            continue
        v = p.origin_op(t["discr"], i)
        truth = p.blocks[i + 1] != t["tgts"][t["vals"].index("0")]
        while isinstance(v, tuple) and v[0] == "un" and v[1] == "Not":
            v = v[2]
            truth = not truth
        if isinstance(v, tuple) and v[0] == "bin" and v[1] in ("Ne", "Eq") and T.is_const_int(v[3], 0):
            out.append((v[2], truth if v[1] == "Eq" else not truth))
        elif isinstance(v, tuple) and v[0] not in ("discr", "bin", "un", "const") and str(t.get("dty", "")) not in ("bool", "isize"):
            # `match x { 0 => .., _ => .. }` on the integer itself is the same test as `x == 0`
            out.append((v, not truth))
    return out


def accessor(t):
    """name of the chrono/Duration accessor a slot is fed from (through casts / arithmetic)"""
    c = T.find(t, lambda x: T.is_call(x, r"(Datelike>?::(year|month|day)|Timelike>?::(hour|minute|second|nanosecond)|Duration::(as_secs|subsec_micros|subsec_nanos))$"))
    return c[1].split("::")[-1] if c is not None else None


def run(ctx):
    prog = ctx.prog("tls")
    ctx.rule("C07.bitmap-arith", "bitmap length (n+9)/8; NULL bit byte (c+2)/8, bit (c+2)%8")
    ctx.rule("C07.row-prefix", "00 header once at column 0; bitmap buffer zeroed per row; row written whole then one packet end, then cleared")
    ctx.rule("C07.not-null", "NULL for NOT NULL column -> Err; NULL never reaches the encoder")
    ctx.rule("C07.layouts", "per (impl, column-type arm): emission layout, length-byte consistency, slot sources, refusals")
    nw = prog.one(r"^resultset::RowWriter::<'a, W>::new$")
    wc = prog.one(r"^resultset::RowWriter::<'a, W>::write_col$")
    er = prog.one(r"^resultset::RowWriter::<'a, W>::end_row$")
    for b in (nw, wc, er):
        ctx.fn(b)
    ncols = Aff(0, {("len", ("path", "columns")): 1})
    col = Aff(0, {("path", "self", "col"): 1})

    # ---- bitmap arithmetic --------------------------------------------------------------------
    aggs = [(bb, i, s) for bb, i, s in nw.stmts() if s["k"] == "assign" and s["rv"]["k"] == "agg" and s["rv"].get("ak") == "adt" and s["rv"]["adt"].endswith("RowWriter")]
    ok = len(aggs) == 1
    bl = None
    if ok:
        bb, i, s = aggs[0]
        o = nw.origin_rvalue(s["rv"], bb, i, 0)
        d = dict(zip(o[5], o[4]))
        bl = T.affine(d.get("bitmap_len"))
        want = Aff(0, {("div", Aff(9, {("len", ("path", "columns")): 1}), 8): 1})
        ok = bl == want
        data0 = d.get("data")
        ctx.ob("C07.row-prefix", T.is_call(data0, r"Vec::<T>::new$"), "the row buffer does not start empty (%s)" % term_str(data0)[:60], fn=nw.path, construct="data-initial", nontrivial=False)
    ctx.ob("C07.bitmap-arith", ok, "binary row NULL-bitmap length is %r (need (columns + 7 + 2) / 8)" % (bl,), fn=nw.path, construct="bitmap-len",
           sample={"rule": "bitmap-arith", "bitmap_len": repr(bl)})
    nbit = 0
    for bb, i, s in wc.stmts():
        if s["k"] == "assign" and s["rv"]["k"] == "bin" and s["rv"]["op"] == "BitOr" and s["lhs"]["p"]:
            nbit += 1
            tgt = wc.origin_local(s["lhs"]["l"], bb, i)
            mask = wc.origin_op(s["rv"]["b"], bb, i)
            okb = T.is_call(tgt, r"IndexMut<I>>::index_mut$|IndexMut::index_mut$") and T.is_field(T.peel(tgt[2][0]), "data") and \
                T.affine(tgt[2][1]) == Aff(0, {("div", col.add(Aff(2)), 8): 1})
            oks = isinstance(mask, tuple) and mask[0] == "bin" and mask[1] == "Shl" and T.is_const_int(mask[2], 1) and T.affine(mask[3]) == Aff(0, {("rem", col.add(Aff(2)), 8): 1})
            ctx.ob("C07.bitmap-arith", okb and oks, "NULL bit is set at %s with mask %s (need data[(col+2)/8] |= 1 << ((col+2)%%8))" % (term_str(tgt)[-70:], term_str(mask)[:60]),
                   fn=wc.path, construct="null-bit", where=wc.where(bb), sample={"rule": "bitmap-arith", "mask": term_str(mask)[:60]})
    ctx.floor("C07.bitmap-arith", "NULL-bit updates", nbit, 1)

    # ---- row prefix / not-null on write_col paths ----------------------------------------------
    n_bin = 0
    hdr_in_wc = set()
    for p in enumerate_paths(wc, max_visits=1):
        if p.end != "return":
            continue
        conds = {}
        for i, blk in enumerate(p.blocks[:-1]):
            t = wc.term(blk)
            if t["k"] != "switch" or "0" not in t["vals"]:
                continue
            v = p.origin_op(t["discr"], i)
            truth = p.blocks[i + 1] != t["tgts"][t["vals"].index("0")]
            if T.is_field(T.peel(v), "is_bin"):
                conds["bin"] = truth
            elif isinstance(v, tuple) and v[0] == "bin" and v[1] == "Eq" and T.affine(v[2]) == col and T.is_const_int(v[3], 0):
                conds["col0"] = truth
            elif T.is_call(v, r"ToMysqlValue::is_null$|ToMysqlValue>::is_null$"):
                conds["null"] = truth
            elif T.is_call(v, r"ColumnFlags>::contains$") and v[2][1][0] == "const" and v[2][1][1][0] == "bits" and v[2][1][1][1] == 1:
                conds["notnull"] = truth
        if not conds.get("bin"):
            continue
        n_bin += 1
        # bytes put into the packet itself while a cell is offered (the row's own bytes are staged in self.data)
        hdr = [(pos, t) for pos, blk, t in p.calls() if "packet::PacketConn<" in (t.get("arg_tys") or [""])[0] and wire.classify_call(p, pos, t) is not None]
        hdr_bytes = wire.sym_bytes([wire.classify_call(p, pos, t) for pos, t in hdr])
        rs = [(pos, t) for pos, blk, t in p.calls() if cname(t["func"]).endswith("Vec::<T, A>::resize") and T.is_field(T.peel(p.arg(pos, 0)), "data")]
        enc = [(pos, t) for pos, blk, t in p.calls() if cname(t["func"]).endswith("ToMysqlValue::to_mysql_bin")]
        bits = [1 for blk in p.blocks for s in wc.blocks[blk]["stmts"] if s["k"] == "assign" and s["rv"]["k"] == "bin" and s["rv"]["op"] == "BitOr" and s["lhs"]["p"]]
        cls = classify_return(p)
        if conds.get("col0"):
            # the 00 row header is written exactly once per row: either here, before the bitmap is laid out, or in
            # end_row in front of the staged bytes (decided below from the two functions together)
            ok_hdr = hdr_bytes == [] or (hdr_bytes == [("c", 0)] and (not rs or hdr[0][0] < rs[0][0]))
            ok = ok_hdr and len(rs) == 1 and T.is_field(T.peel(p.arg(rs[0][0], 1)), "bitmap_len") and T.is_const_int(p.arg(rs[0][0], 2), 0)
            if cls == "err" and not rs and ok_hdr:
                ok = True   # failed while writing the header
            if cls != "err" or rs:
                hdr_in_wc.add(len(hdr_bytes))
            ctx.ob("C07.row-prefix", ok, "at column 0 the row must start with a zero-filled bitmap of bitmap_len bytes, preceded by at most the 00 header byte (packet bytes %s, resizes %d)" % (wire.sym_str(hdr_bytes), len(rs)),
                   fn=wc.path, construct="row-start", where=wc.where(p.blocks[-1]), sample={"rule": "row-prefix", "conds": conds})
        elif conds.get("col0") is False:
            ctx.ob("C07.row-prefix", not hdr and not rs, "the row header / bitmap is (re)written at a column other than 0", fn=wc.path, construct="row-start-only-at-0", nontrivial=False)
        # while cells are offered the staged row only grows: nothing removes bytes of the cells already encoded (a roll-back of a
        # refused value may cut the buffer back to the length it had before that value, taken on this path, and to nothing else)
        for pos, blk, t in p.calls():
            m_ = re.search(r"Vec::<T, A>::(truncate|clear|drain|pop|split_off|set_len|retain|swap_remove|remove|dedup)$", cname(t["func"]))
            if not m_ or not T.is_field(T.peel(p.arg(pos, 0)), "data"):
                continue
            to_ = T.peel(p.arg(pos, 1), payloads=False) if m_.group(1) == "truncate" and len(t["args"]) > 1 else None
            ok_cut = to_ is not None and T.is_call(to_, r"Vec::<T, A>::len$") and len(to_[2]) == 1 and T.is_field(T.peel(to_[2][0]), "data")
            ctx.ob("C07.row-prefix", ok_cut, "write_col removes staged bytes of the row (%s of self.data): the cells already encoded for this row would be lost or shifted" % m_.group(1),
                   fn=wc.path, construct="staged-row-only-grows", callee=m_.group(1), where=wc.where(blk), nontrivial=False)
        if conds.get("null") is True:
            if conds.get("notnull") is True:
                ctx.ob("C07.not-null", cls == "err" and not bits and not enc, "NULL offered for a NOT NULL column is not refused", fn=wc.path, construct="not-null-refused", where=wc.where(p.blocks[-1]))
            elif conds.get("notnull") is False:
                ctx.ob("C07.not-null", len(bits) == 1 and not enc, "a NULL cell sets %d bitmap bits and calls the encoder %d times (need exactly the bit, no encoding)" % (len(bits), len(enc)),
                       fn=wc.path, construct="null-cell", where=wc.where(p.blocks[-1]), sample={"rule": "not-null", "conds": conds})
            else:
                ctx.ob("C07.not-null", cls == "err" or not bits, "a NULL cell is handled without testing NOT_NULL_FLAG", fn=wc.path, construct="not-null-tested", where=wc.where(p.blocks[-1]))
        elif conds.get("null") is False:
            ctx.ob("C07.not-null", not bits and (len(enc) == 1 or cls == "err"), "a non-NULL cell sets a NULL bit or is encoded %d times" % len(enc), fn=wc.path, construct="value-cell",
                   where=wc.where(p.blocks[-1]), nontrivial=False)
        elif enc:
            ctx.ob("C07.not-null", False, "the binary encoder is reached without testing is_null()", fn=wc.path, construct="null-tested", where=wc.where(p.blocks[-1]))
    ctx.floor("C07.row-prefix", "binary-mode paths of write_col", n_bin, 6)
    # end_row: binary path writes the whole buffer, one packet end, then clear()
    n = 0
    hdr_in_er = set()
    for p in enumerate_paths(er):
        if p.end != "return" or classify_return(p) != "ok":
            continue
        isbin = None
        for i, blk in enumerate(p.blocks[:-1]):
            t = er.term(blk)
            if t["k"] == "switch" and "0" in t["vals"] and T.is_field(T.peel(p.origin_op(t["discr"], i)), "is_bin"):
                isbin = p.blocks[i + 1] != t["tgts"][t["vals"].index("0")]
        if not isbin:
            continue
        n += 1
        ems = [(pos, wire.classify_call(p, pos, t)) for pos, blk, t in p.calls() if "packet::PacketConn<" in (t.get("arg_tys") or [""])[0]]
        ems = [(pos, e) for pos, e in ems if e is not None]
        sb = wire.sym_bytes([e for _, e in ems])
        clr = [(pos, cname(t["func"]).split("::")[-1]) for pos, blk, t in p.calls() if re.search(r"Vec::<T, A>::(clear|truncate|drain|resize)$", cname(t["func"])) and T.is_field(T.peel(p.arg(pos, 0)), "data")]
        blobs = [x for x in sb if x[0] == "blob"]
        lead = sb[:sb.index(blobs[0])] if blobs else None
        ok = len(blobs) == 1 and sb[-1:] == [("end",)] and sb.index(blobs[0]) == len(sb) - 2 and lead in ([], [("c", 0)]) and len(clr) == 1 and clr[0][1] == "clear"
        if ok:
            wpos = [pos for pos, e in ems if e.kind == "raw" and e.const_bytes() is None][-1]
            ok = clr[0][0] > wpos
            a = blobs[0][1]
            # the whole buffer: `&self.data[..]`, `&self.data` (deref coercion), `self.data.as_slice()`; no partial range
            partial = T.find(a, lambda x: isinstance(x, tuple) and x[0] == "agg" and re.search(r"ops::Range(From|To|Inclusive|ToInclusive)?$", x[2] or "") is not None)
            ok = ok and T.is_field(T.peel(a), "data") and partial is None
            hdr_in_er.add(len(lead))
        ctx.ob("C07.row-prefix", ok, "end_row (binary): packet bytes %s, buffer resets %s (need [00] data[..] then one packet end, then data.clear())" % (wire.sym_str(sb), [c[1] for c in clr]),
               fn=er.path, construct="row-end", where=er.where(p.blocks[-1]), sample={"rule": "row-prefix/end", "bytes": wire.sym_str(sb), "resets": [c[1] for c in clr]})
    ctx.floor("C07.row-prefix", "binary Ok paths of end_row", n, 1)
    # one 00 header per row packet, wherever it is written: at column 0 of write_col or in end_row in front of the row
    ok = len(hdr_in_wc) == 1 and len(hdr_in_er) == 1 and sum(hdr_in_wc) + sum(hdr_in_er) == 1
    ctx.ob("C07.row-prefix", ok, "a binary row packet must carry exactly one 00 header byte in front of the bitmap: write_col (column 0) writes %s, end_row writes %s" % (sorted(hdr_in_wc), sorted(hdr_in_er)),
           fn=er.path, construct="row-header-once", where=er.where(0))

    # ---- NULL forwarding by wrapper impls ---------------------------------------------------------------
    # write_col decides "bitmap bit or encoder" from v.is_null().  An impl whose binary encoder hands the work to an inner value
    # that may itself be NULL (a generic parameter, or a type whose impl overrides is_null) must answer is_null() with the inner
    # value's answer: otherwise the NULL reaches the inner encoder (which cannot encode it: `unreachable!()` / a panic) and its
    # bit is not set.  Decided per impl from the impl table: (a) nullable delegations of to_mysql_bin, (b) every return path of
    # is_null is `true`, the inner is_null(), or `false` only under a discriminant of self on which (a) has no delegation.
    ctx.rule("C07.null-forwarding", "an impl whose to_mysql_bin delegates to a possibly-NULL inner value returns the inner is_null() (or true) from is_null()")
    impls = [i for i in prog.impls if (i.get("trait_path") or "").endswith("value::encode::ToMysqlValue")]
    ctx.floor("C07.null-forwarding", "impls of ToMysqlValue", len(impls), 20)
    overrides = {i["self_ty"] for i in impls if any(m.endswith("::is_null") for m in i["methods"])}

    def self_discr_on(p):
        ds = set()
        for _, _, v, truth in p.decisions():
            pass
        for i_, blk in enumerate(p.blocks[:-1]):
            t_ = p.body.term(blk)
            if t_["k"] != "switch":
                continue
            v = p.origin_op(t_["discr"], i_)
            if isinstance(v, tuple) and v[0] == "discr" and T.find(v[1], lambda x: T.is_param(x, 1)) is not None:
                nxt = p.blocks[i_ + 1]
                vals = [int(x) for x, tg in zip(t_["vals"], t_["tgts"]) if tg == nxt and x != "otherwise"]
                ds.add(tuple(vals) if vals else ("otherwise", tuple(sorted(int(x) for x in t_["vals"] if x != "otherwise"))))
        return ds

    n_wrap = 0
    for imp in impls:
        mb = [m for m in imp["methods"] if m.endswith("::to_mysql_bin")]
        if not mb or mb[0] not in prog.bodies:
            continue
        b = prog.bodies[mb[0]]
        dele_paths = []
        has_dele = False
        for p in enumerate_paths(b, max_visits=1):
            for pos, blk, t in p.calls():
                f = t["func"]
                if f.get("name") == "to_mysql_bin" and (f.get("trait") or "").endswith("ToMysqlValue") and (f.get("rpath") is None or f.get("rimpl_self") in overrides):
                    has_dele = True
                    dele_paths.append(self_discr_on(p))
        if not has_dele:
            continue
        n_wrap += 1
        ctx.fn(b)
        mn = [m for m in imp["methods"] if m.endswith("::is_null")]
        if not mn or mn[0] not in prog.bodies:
            ctx.ob("C07.null-forwarding", False, "impl ToMysqlValue for %s hands to_mysql_bin to an inner value that may be NULL but keeps the default is_null() == false: "
                   "a NULL offered through it is encoded instead of marked in the bitmap" % imp["self_ty"], fn=b.path, construct="is_null-missing", where=b.where(0))
            continue
        nb = prog.bodies[mn[0]]
        ctx.fn(nb)

        def verdict(body, rv):
            rv0 = T.peel(rv) if rv is not None else None
            if T.is_const_int(rv, 1) or (isinstance(rv, tuple) and rv[0] == "const" and rv[1] == ("bool", True)):
                return "true"
            if T.is_const_int(rv, 0) or (isinstance(rv, tuple) and rv[0] == "const" and rv[1] == ("bool", False)):
                return "false"
            if T.is_call(rv, r"ToMysqlValue::is_null$|ToMysqlValue>::is_null$"):
                return "inner"
            if T.is_call(rv, r"Option::<T>::(map_or|is_none_or|is_some_and)$"):
                clo = [a for a in rv[2] if isinstance(a, tuple) and a[0] == "agg" and a[1] == "closure"]
                dflt = [a for a in rv[2] if verdict(body, a) == "true"]
                # the trait method itself handed over as a function item: map_or(true, T::is_null)
                fni = [a for a in rv[2] if isinstance(a, tuple) and a[0] == "const" and isinstance(a[1], tuple) and a[1][0] == "fn" and re.search(r"ToMysqlValue(>)?::is_null$", str(a[1][1]))]
                if fni and (dflt or rv[1].endswith("is_none_or")):
                    return "inner"
                if clo and (dflt or rv[1].endswith("is_none_or")):
                    cb = prog.bodies.get(clo[0][2])
                    if cb is not None and all(verdict(cb, q.return_value()) in ("true", "inner") for q in enumerate_paths(cb) if q.end == "return"):
                        return "inner"
            return "other"
        for q in enumerate_paths(nb):
            if q.end != "return":
                continue
            vd = verdict(nb, q.return_value())
            ok = vd in ("true", "inner")
            if vd == "false":
                mine = self_discr_on(q)
                ok = bool(mine) and all(not (mine & d) and d for d in dele_paths)
            ctx.ob("C07.null-forwarding", ok, "impl ToMysqlValue for %s: is_null() returns %s on a path on which to_mysql_bin may hand a NULL inner value to its encoder "
                   "(need the inner value's is_null(), or true)" % (imp["self_ty"], term_str(q.return_value())[:80]),
                   fn=nb.path, construct="is_null-forwards", where=nb.where(q.blocks[-1]), sample={"rule": "null-forwarding", "impl": imp["self_ty"], "verdict": vd})
    ctx.floor("C07.null-forwarding", "wrapper impls (to_mysql_bin delegating to a possibly-NULL inner value)", n_wrap, 2)

    # ---- layouts ------------------------------------------------------------------------------------
    ct = [a for k_, a in prog.adts.items() if k_.endswith("constants::ColumnType")][0]
    ct_names = {int(v["discr"]): v["name"] for v in ct["variants"]}
    SPEC = {
        "f32": {("MYSQL_TYPE_FLOAT",): [("fixed", 4)], ("MYSQL_TYPE_DOUBLE",): [("fixed", 8)]},
        "f64": {("MYSQL_TYPE_DOUBLE",): [("fixed", 8)]},
        "[u8]": {tuple(sorted(STRINGLIKE)): [("lenenc_str", None)]},
    }
    for ty, table in SPEC.items():
        b = prog.one(r"^<%s as value::encode::ToMysqlValue>::to_mysql_bin$" % re.escape(ty))
        ctx.fn(b)
        seen = set()
        covered = {}
        for p in enumerate_paths(b):
            if p.end != "return":
                continue
            arm = coltype.arm_of(b, p, ct_names, prog)
            ems = wire.path_emissions(prog, p)
            cls = classify_return(p)
            # a path may run under a subset of a specified arm (`a == X || a == Y` splits what a match arm joins)
            sub = arm
            if arm and arm != ("other",):
                for k_ in table:
                    if set(arm) <= set(k_):
                        covered.setdefault(k_, set()).update(arm)
                        arm = k_
                        break
            if arm in table:
                if covered.get(arm, set(arm)) == set(arm):
                    seen.add(arm)
                got = [(e.kind, e.width) for e in ems]
                ok = got == table[arm]
                if ok and ty == "f32" and arm == ("MYSQL_TYPE_DOUBLE",):
                    ok = T.is_call(ems[0].value, r"From<f32> for f64>::from$|::from$")
                if ok and ty == "[u8]":
                    ok = T.is_param(T.peel(ems[0].value), 1)
                ctx.ob("C07.layouts", ok, "%s into %s emits %s (need %s)" % (ty, list(arm)[:3], got, table[arm]), fn=b.path, construct="layout", callee=",".join(arm)[:60], where=b.where(p.blocks[-1]),
                       sample={"rule": "layouts", "impl": ty, "arm": list(arm)[:3], "emits": got})
            else:
                ctx.ob("C07.layouts", not ems and cls == "err", "%s accepts column type(s) %s (emits %s)" % (ty, list(arm or ())[:4], [(e.kind, e.width) for e in ems]), fn=b.path,
                       construct="refusal", callee=",".join(arm or ())[:60], where=b.where(p.blocks[-1]), nontrivial=False)
        for arm in table:
            ctx.ob("C07.layouts", arm in seen, "%s no longer has an arm for exactly %s" % (ty, list(arm)[:4]), fn=b.path, construct="arm-present", callee=",".join(arm)[:60], nontrivial=False)

    def temporal(ty, arms, check):
        b = prog.one(r"^<%s as value::encode::ToMysqlValue>::to_mysql_bin$" % re.escape(ty))
        ctx.fn(b)
        n_ = 0
        covered = set()
        for p in enumerate_paths(b):
            if p.end != "return":
                continue
            arm = coltype.arm_of(b, p, ct_names, prog)
            ems = wire.path_emissions(prog, p)
            cls = classify_return(p)
            if arm and arm != ("other",) and set(arm) <= set(arms):
                if cls == "err":
                    continue
                covered.update(arm)
                arm = arms
                n_ += 1
                ok, why = check(b, p, ems)
                # length-prefix self-consistency
                if ok:
                    first = ems[0].const_bytes()
                    after = sum(e.width for e in ems[1:])
                    ok = first is not None and len(first) == 1 and first[0] == after
                    why = "length byte %s but %d bytes follow" % (first[0] if first else None, after)
                ctx.ob("C07.layouts", ok, "%s into %s: %s" % (ty.split("::")[-1], list(arm), why), fn=b.path, construct="layout", callee=",".join(arm), where=b.where(p.blocks[-1]),
                       sample={"rule": "layouts", "impl": ty.split("::")[-1], "emits": [e.short()[:40] for e in ems][:8]})
            else:
                ctx.ob("C07.layouts", not ems and cls == "err", "%s accepts column type(s) %s" % (ty, list(arm or ())[:4]), fn=b.path, construct="refusal", callee=",".join(arm or ())[:60],
                       where=b.where(p.blocks[-1]), nontrivial=False)
        ctx.floor("C07.layouts", "writing paths of %s" % ty, n_, 1)
        ctx.ob("C07.layouts", covered == set(arms), "%s is encoded for column types %s (need exactly %s)" % (ty, sorted(covered), list(arms)), fn=b.path, construct="arm-present",
               callee=",".join(arms), nontrivial=False)

    def chk_date(b, p, ems):
        want = ["year", "month", "day"]
        ok = len(ems) == 4 and [e.width for e in ems] == [1, 2, 1, 1] and [accessor(e.value) for e in ems[1:]] == want
        return ok, "slots %s (need [len=4][u16 year][u8 month][u8 day])" % [(e.width, accessor(e.value)) for e in ems]

    def chk_datetime(b, p, ems):
        acc = [accessor(e.value) for e in ems[1:]]
        ws = [e.width for e in ems]
        ok = (ws == [1, 2, 1, 1, 1, 1, 1] and acc == ["year", "month", "day", "hour", "minute", "second"]) or \
             (ws == [1, 2, 1, 1, 1, 1, 1, 4] and acc == ["year", "month", "day", "hour", "minute", "second", "nanosecond"])
        if ok and len(ems) == 8:
            us = T.affine(ems[7].value)
            ok = len(us.m) == 1 and list(us.m.keys())[0][0] == "div" and list(us.m.keys())[0][2] == 1000
        # the short form only when the fraction is zero
        if ok:
            frac_zero = None
            for x, z in zero_tests(b, p):
                if accessor(x) == "nanosecond":
                    frac_zero = z if frac_zero is None else frac_zero
            ok = frac_zero is not None and ((len(ems) == 7) == frac_zero)
            if not ok:
                return False, "the 7-byte form must be chosen exactly when the microsecond part is zero (form %d, fraction zero=%s)" % (len(ems), frac_zero)
        return ok, "slots %s" % [(e.width, a) for e, a in zip(ems[1:], acc)]

    def chk_time(b, p, ems):
        secs = ("opaque",)
        S = None
        if len(ems) == 1:
            # zero form: both total seconds and micros are tested zero on this path
            tests = set()
            for x, z in zero_tests(b, p):
                if z and T.is_call(x, r"Duration::as_secs$"):
                    tests.add("secs")
                if z and T.is_call(x, r"Duration::subsec_micros$"):
                    tests.add("micros")
            ok = ems[0].const_bytes() == b"\x00" and tests == {"secs", "micros"}
            return ok, "the zero-length TIME form is emitted on a path that established %s (need total seconds == 0 and microseconds == 0)" % sorted(tests)
        ws = [e.width for e in ems]
        ok = ws in ([1, 1, 4, 1, 1, 1], [1, 1, 4, 1, 1, 1, 4]) and ems[1].const_bytes() == b"\x00"
        why = "widths %s" % ws
        if ok:
            def atom(a):
                return list(a.m.keys())[0] if len(a.m) == 1 and a.c == 0 and list(a.m.values()) == [1] else None
            def uncast(t):
                # the slots are narrowed with `as` after the division/remainder bounded them (d <= 34 is asserted; h < 24, m, s < 60)
                return t[1] if isinstance(t, tuple) and t[0] == "cast" and t[3] == "IntToInt" else t
            d, h, m, s = [atom(T.affine(uncast(e.value))) for e in ems[2:6]]
            def is_secs(x):
                return isinstance(x, Aff) and len(x.m) == 1 and list(x.m.keys())[0][0] == "opaque" and "as_secs" in list(x.m.keys())[0][1] and x.c == 0
            def field_of(x):
                """(M, D) when x is floor((secs mod M) / D) (M None: no reduction), however the divisions and remainders are nested:
                (s / a) / b = s / (a*b);  (s / a) % b = (s % (a*b)) / a;  (s % M) / c;  s % c = (s % c) / 1"""
                if x is None or x[0] not in ("div", "rem") or not isinstance(x[2], int) or x[2] <= 0:
                    return None
                inner = x[1]
                ia = atom(inner) if isinstance(inner, Aff) else None
                if x[0] == "div":
                    if is_secs(inner):
                        return (None, x[2])
                    if ia is not None and ia[0] == "div" and isinstance(ia[2], int) and is_secs(ia[1]):
                        return (None, x[2] * ia[2])
                    if ia is not None and ia[0] == "rem" and isinstance(ia[2], int) and is_secs(ia[1]):
                        return (ia[2], x[2])
                    return None
                if is_secs(inner):
                    return (x[2], 1)
                if ia is not None and ia[0] == "div" and isinstance(ia[2], int) and is_secs(ia[1]):
                    return (x[2] * ia[2], ia[2])
                return None
            okd = field_of(d) == (None, 86400)
            okh = field_of(h) == (86400, 3600)
            okm = field_of(m) == (3600, 60)
            oks = field_of(s) == (60, 1)
            ok = okd and okh and okm and oks
            why = "days/h/m/s slots: %s %s %s %s (need secs/86400, secs%%86400/3600, secs%%3600/60, secs%%60)" % (okd, okh, okm, oks)
            if ok and len(ems) == 7:
                ok = T.is_call(ems[6].value, r"Duration::subsec_micros$")
                why = "microsecond slot fed from %s" % term_str(ems[6].value)[:60]
        return ok, why

    temporal("chrono::NaiveDate", ("MYSQL_TYPE_DATE",), chk_date)
    temporal("chrono::NaiveDateTime", ("MYSQL_TYPE_DATETIME", "MYSQL_TYPE_TIMESTAMP"), chk_datetime)
    temporal("std::time::Duration", ("MYSQL_TYPE_TIME",), chk_time)
    # delegating impls forward to the checked ones
    for ty, target in (("std::string::String", "[u8]"), ("str", "[u8]"), ("std::vec::Vec<u8>", "[u8]")):
        b = prog.one(r"^<%s as value::encode::ToMysqlValue>::to_mysql_bin$" % re.escape(ty))
        calls = [cname(t["func"]) for _, t in b.calls() if cname(t["func"]).endswith("to_mysql_bin")]
        ctx.ob("C07.layouts", calls == ["<%s as value::encode::ToMysqlValue>::to_mysql_bin" % target], "%s::to_mysql_bin delegates to %s" % (ty, calls), fn=b.path, construct="delegation", nontrivial=False)

    # cells and rows of 16 MiB and more are split by the framer: the framing clauses (C04's rules) are part of
    # `arrives unchanged` for the size classes this property quantifies over
