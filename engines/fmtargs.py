"""Decoder for the compiled `format_args!` template (core::fmt::Arguments, see the layout comment in
library/core/src/fmt/mod.rs of this toolchain) and extraction of a format call's shape from origin terms."""
from . import terms as T

ZERO_PAD = 1 << 24


def decode(template):
    """[('lit', bytes) | ('arg', index, {'zero': bool, 'width': int|None, 'precision': int|None})] or None if malformed."""
    out, i, nxt = [], 0, 0
    b = template
    while i < len(b):
        n = b[i]
        i += 1
        if n == 0:
            return out if i == len(b) else None
        if n < 0x80:
            out.append(("lit", bytes(b[i:i + n])))
            i += n
        elif n == 0x80:
            ln = b[i] | (b[i + 1] << 8)
            i += 2
            out.append(("lit", bytes(b[i:i + ln])))
            i += ln
        elif n >= 0xC0:
            flags, width, prec, idx = 0, None, None, None
            if n & 1:
                flags = int.from_bytes(b[i:i + 4], "little")
                i += 4
            if n & 2:
                width = int.from_bytes(b[i:i + 2], "little")
                i += 2
            if n & 4:
                prec = int.from_bytes(b[i:i + 2], "little")
                i += 2
            if n & 8:
                idx = int.from_bytes(b[i:i + 2], "little")
                i += 2
            if n & 0x30:
                return None  # dynamic width/precision: not modelled
            if idx is None:
                idx = nxt
            nxt = idx + 1
            out.append(("arg", idx, {"zero": bool(flags & ZERO_PAD), "width": width, "precision": prec}))
        else:
            return None
    return None


def format_shape(t):
    """For a term containing `fmt::format(Arguments::new(template, &[Argument::new_*(&v)...]))` return
    (pieces, [(kind, value_term)]) or None."""
    fm = T.find(t, lambda x: T.is_call(x, r"^std::fmt::format$|^alloc::fmt::format$"))
    if fm is None:
        # `x.to_string()` is `format!("{}", x)` (the blanket `impl<T: Display> ToString for T`)
        ts = T.find(t, lambda x: T.is_call(x, r"^<T as std::string::ToString>::to_string$|^std::string::ToString::to_string$") and len(x[2]) == 1)
        if ts is not None:
            return [("arg", 0, {"zero": False, "width": None, "precision": None})], [("display", ts[2][0])]
        return None
    an = T.find(fm, lambda x: T.is_call(x, r"fmt::Arguments::<'a>::new$"))
    if an is None:
        return None
    tb = T.const_bytes(T.peel(an[2][0]))
    arr = T.find(an[2][1], lambda x: isinstance(x, tuple) and x[0] == "agg" and x[1] == "array")
    if tb is None or arr is None:
        return None
    pieces = decode(tb)
    if pieces is None:
        return None
    args = []
    for a in arr[4]:
        c = T.find(a, lambda x: T.is_call(x, r"fmt::rt::Argument::<'_>::new_(\w+)$"))
        if c is None:
            return None
        args.append((c[1].split("new_")[-1], c[2][0]))
    return pieces, args
