"""C19 — connection end and transport faults are reported, never masked."""
import re

from engines import effects, arms, typestate
from engines.paths import enumerate_paths, classify_return, emptiness_of
from engines.prog import cname, term_str, op_place, place_fields
from engines import terms as T

CONFIGS = ["tls", "notls"]
LEVEL = "other"
EXPLANATION = (
    "Error-discipline rules over MIR. Result discipline: every call in non-test code whose destination has a Result type with "
    "an io::Error / shim-error / nom error is followed by def-use to one of the enumerated idioms — `?` (Try::branch), tail "
    "return, an adaptor (map/map_err/ok_or_else/and_then/…) whose result is itself disciplined, or an explicit discriminant "
    "test whose Err arm reaches an Err return; a dropped result, `.ok()`, `is_ok()`-only or an Err arm reaching an Ok return is "
    "a violation; unwrap/expect are panic sites handed to the no-panic rule. Boundary: the transport reader builds Ok(None) "
    "only on the path with read == 0 and an empty buffer, the sibling path (read == 0, bytes left) returns Err; the command "
    "loop returns Ok only from the reader's None arm or the Quit arm; in the handshake every reader result goes through "
    "ok_or_else + `?`. Shim errors: `?` on a shim result converts with identical error types and the explicit return in the "
    "handshake returns the matched payload. After any error-building block no shim callback is reachable. Panic-on-fault: "
    "unwrap/expect on Result<_, io::Error> in non-test code are listed (the two Drop impls are documented known findings).")
ASSUMPTIONS = ["errors swallowed inside dependencies are out of scope", "panics inside the shim are the shim's"]

ADAPTORS = re.compile(r"Result::<T, E>::(map|map_err|and_then|or_else|inspect_err|inspect)$|Option::<T>::(ok_or_else|ok_or)$")
MASKING = re.compile(r"Result::<T, E>::(ok|is_ok|is_err|unwrap_or|unwrap_or_default|unwrap_or_else|err|is_ok_and|is_err_and)$")
PANICKING = re.compile(r"Result::<T, E>::(unwrap|expect)$")
ERR_TYPES = ("std::io::Error", "MysqlShim<", "nom::Err<")

# consumers that hand the error of a fallible callable back to their caller
PROPAGATING_CONSUMERS = re.compile(r"::(try_for_each|try_fold|try_find)$|Result::<T, E>::(and_then|or_else)$|Option::<T>::(map_or_else|map_or)$")
LAZY_CONSUMERS = re.compile(r"Iterator::map$|Option::<T>::map$|Iterator>::map$")
COLLECTING = re.compile(r"::(collect|sum|product|try_for_each|try_fold|transpose)$")


def _io_fallible_ret(ty):
    return ty.startswith("std::result::Result<") and ("std::io::Error" in ty or "MysqlShim<" in ty)


def fallible_callables(prog, body):
    """(bb, call terminator, arg index, description) for every closure / fn item whose result is an io (or shim) Result and that is
    handed to a call as a value"""
    out = []
    clos = {}
    for b in range(body.n):
        for st in body.blocks[b]["stmts"]:
            if st["k"] == "assign" and st["rv"]["k"] == "agg" and st["rv"].get("ak") == "closure" and not st["lhs"]["p"]:
                cb = prog.bodies.get(st["rv"]["closure"])
                if cb is not None and _io_fallible_ret(cb.local_ty(0)):
                    clos[st["lhs"]["l"]] = st["rv"]["closure"]
    for bb, t in body.calls():
        for ai, a in enumerate(t["args"]):
            pl = op_place(a)
            if pl is not None and not pl["p"] and pl["l"] in clos:
                out.append((bb, t, ai, clos[pl["l"]]))
            elif isinstance(a, dict) and "const" in a and isinstance(a["const"], dict) and "fn" in a["const"]:
                ty = a["const"].get("ty", "")
                m = re.search(r"\) -> (std::result::Result<.*) \{", ty)
                if m and _io_fallible_ret(m.group(1)):
                    out.append((bb, t, ai, a["const"]["fn"].get("path", "?")))
    return out


def callable_consumed(body, bb, t):
    """is the error of a fallible callable handed to this call propagated?  ('ok'|'bad', why)"""
    n = cname(t["func"]) if "indirect" not in t["func"] else "<indirect>"
    if PROPAGATING_CONSUMERS.search(n):
        dl = t["dest"]
        if not dl["p"] and is_result_local(body, dl["l"]):
            return disciplined(body, dl["l"])
        return "ok", n.split("::")[-1]
    if LAZY_CONSUMERS.search(n) and not t["dest"]["p"]:
        # map(f): the results are only produced; whoever drains the adaptor must collect them into a Result
        for kind, b2, i2, x in uses_of(body, t["dest"]["l"]):
            if kind == "arg" and i2 == 0:
                n2 = cname(x["func"]) if "indirect" not in x["func"] else ""
                if COLLECTING.search(n2) and not x["dest"]["p"] and is_result_local(body, x["dest"]["l"]):
                    return disciplined(body, x["dest"]["l"])
        return "bad", "the results produced through %s are not collected into a Result" % n.split("::")[-1]
    return "bad", "%s does not hand the callable's error back" % n.split("<")[0].split("::")[-1] if n.split("<")[0].split("::")[-1] else n


def _result_err_ty(ty):
    """the error type argument of `..Result<T, E>` (split at the top-level comma: T may itself have generic arguments)"""
    i = ty.find("Result<")
    if i < 0 or not ty.endswith(">"):
        return None
    inner = ty[i + len("Result<"):-1]
    depth = 0
    for k, ch in enumerate(inner):
        if ch in "<([":
            depth += 1
        elif ch in ">)]":
            depth -= 1
        elif ch == "," and depth == 0:
            return inner[k + 1:].strip()
    return None


def is_result_local(body, l):
    ty = body.local_ty(l)
    return ty.startswith("std::result::Result<") and any(e in ty for e in ERR_TYPES)


def uses_of(body, local):
    """(kind, bb, idx|None, detail) for every read of `local` (whole or projected) in non-cleanup blocks."""
    out = []
    for b in range(body.n):
        if body.is_cleanup(b):
            continue
        for i, s in enumerate(body.blocks[b]["stmts"]):
            if s["k"] != "assign":
                continue
            rv = s["rv"]
            ops = []
            if rv["k"] in ("use", "cast", "un", "repeat"):
                ops = [rv.get("op") or rv.get("a")]
            elif rv["k"] == "bin":
                ops = [rv["a"], rv["b"]]
            elif rv["k"] == "agg":
                ops = rv["fields"]
            for o in ops:
                pl = op_place(o) if o else None
                if pl is not None and pl["l"] == local:
                    out.append(("move" if not pl["p"] else "proj", b, i, s))
            if rv["k"] in ("ref", "rawptr", "discr") and rv["place"]["l"] == local:
                if rv["k"] == "discr" and rv["place"]["p"]:
                    out.append(("proj", b, i, s))      # the discriminant of something inside (e.g. of the Ok payload)
                else:
                    out.append(("discr" if rv["k"] == "discr" else "ref", b, i, s))
        t = body.term(b)
        if t["k"] == "call":
            for ai, a in enumerate(t["args"]):
                pl = op_place(a)
                if pl is not None and pl["l"] == local:
                    out.append(("arg", b, ai, t))
        if t["k"] == "drop" and t["place"]["l"] == local and not t["place"]["p"]:
            out.append(("drop", b, None, t))
        if t["k"] == "switch":
            pl = op_place(t["discr"])
            if pl is not None and pl["l"] == local:
                out.append(("switch", b, None, t))
    return out


def disciplined(body, local, depth=0, seen=None):
    """('ok'|'panic'|'bad', why) for a local holding a Result."""
    seen = seen or set()
    if local in seen or depth > 12:
        return "ok", "cycle"
    seen.add(local)
    if local == 0:
        return "ok", "returned"
    us = uses_of(body, local)
    if not us:
        return "bad", "result is never used (dropped)"
    verdicts = []
    for kind, b, i, x in us:
        if kind == "arg":
            n = cname(x["func"]) if "indirect" not in x["func"] else ""
            d = x["func"].get("path", "")
            if d.endswith("Try::branch") or n.endswith("::branch"):
                verdicts.append(("ok", "?"))
            elif ADAPTORS.search(n):
                dl = x["dest"]["l"]
                verdicts.append(disciplined(body, dl, depth + 1, seen))
            elif PANICKING.search(n):
                verdicts.append(("panic", n.split("::")[-1]))
            elif n.endswith("Result::<T, E>::err") and not x["dest"]["p"] and any(k_ in ("discr", "switch") for k_, _, _, _ in uses_of(body, x["dest"]["l"])):
                # `if let Some(e) = r.err() { .. }`: the error is taken out and examined, not dropped
                verdicts.append(("ok", "match"))
            elif MASKING.search(n):
                verdicts.append(("bad", "error masked by .%s()" % n.split("::")[-1]))
            elif n.endswith("FromResidual::from_residual") or "from_residual" in n:
                verdicts.append(("ok", "residual"))
            else:
                verdicts.append(("ok", "passed to %s" % n.split("::")[-1]))
        elif kind == "move":
            lhs = x["lhs"]
            if not lhs["p"]:
                verdicts.append(disciplined(body, lhs["l"], depth + 1, seen))
            else:
                verdicts.append(("ok", "stored"))
        elif kind in ("discr", "switch", "proj", "ref"):
            if kind == "ref":
                # a borrow handed to a call (e.g. is_ok(&r)); look at the borrower
                vb = disciplined(body, x["lhs"]["l"], depth + 1, seen) if not x["lhs"]["p"] else ("ok", "borrowed")
                if vb[0] == "bad" and re.search(r"masked by \.(is_ok|is_err)\(\)$", vb[1]):
                    vb = ("inspect", vb[1])     # `if r.is_ok() {..}` only looks; whether the error is propagated is decided by the other uses of r
                verdicts.append(vb)
            elif kind == "discr":
                verdicts.append(check_match(body, local, b))
            else:
                verdicts.append(("ok", kind))
        elif kind == "drop":
            verdicts.append(("bad", "result dropped without being examined"))
    if any(v[0] == "inspect" for v in verdicts):
        propagated = any(v[0] == "ok" and v[1] in ("?", "match", "residual", "returned") for v in verdicts)
        verdicts = [v for v in verdicts if v[0] != "inspect"] if propagated else [("bad", v[1]) if v[0] == "inspect" else v for v in verdicts]
    order = {"bad": 0, "panic": 1, "ok": 2}
    # a value examined by an explicit match is fine even though it is dropped afterwards
    if any(v[0] == "ok" and v[1] in ("?", "match", "residual", "returned") for v in verdicts):
        verdicts = [v for v in verdicts if not (v[0] == "bad" and "dropped" in v[1])]
    verdicts.sort(key=lambda v: order[v[0]])
    return verdicts[0]


CONVERTING = re.compile(r"Result::<T, E>::(map_err|or_else|unwrap_or_else|or)$")


def converting_use(body, local, depth=0, seen=None):
    """name of an adaptor that replaces the error of the Result held in `local` (followed through moves and
    error-preserving adaptors), or None"""
    seen = seen if seen is not None else set()
    if local in seen or depth > 12 or local == 0:
        return None
    seen.add(local)
    for kind, b, i, x in uses_of(body, local):
        if kind == "arg" and i == 0:
            n = cname(x["func"]) if "indirect" not in x["func"] else ""
            if CONVERTING.search(n):
                return n.split("::")[-1]
            if ADAPTORS.search(n) and not x["dest"]["p"]:
                r = converting_use(body, x["dest"]["l"], depth + 1, seen)
                if r:
                    return r
        elif kind == "move" and not x["lhs"]["p"]:
            r = converting_use(body, x["lhs"]["l"], depth + 1, seen)
            if r:
                return r
    return None


def err_arm(body, local, bb):
    """Target block of the (feasible) Err arm of the switch that ends block bb and tests the Result in `local`, or None."""
    t = body.term(bb)
    if t["k"] != "switch":
        return None
    err_t = None
    for v, g in zip(t["vals"], t["tgts"]):
        if int(v) == 1:
            err_t = g
    if err_t is None:
        # `if let Err` lowered as [0: ok_target, otherwise: err]
        if "0" in t["vals"]:
            err_t = t["otherwise"]
        else:
            return None
    # a second read of the discriminant further down (drop elaboration re-tests the value on an arm that already knows it
    # is Ok): the `Err` edge there is infeasible when every path from the definition to this block pins the other variant
    defblk = None
    for b_ in range(body.n):
        t_ = body.term(b_)
        if t_["k"] == "call" and not t_["dest"]["p"] and t_["dest"]["l"] == local:
            defblk = b_
    if defblk is not None and defblk != bb:
        try:
            feasible = any(p.end == "stop" and len(p.blocks) >= 2 and p.blocks[-2] == bb for p in enumerate_paths(body, start=defblk, stop_at={err_t}, max_visits=1, limit=3000))
        except Exception:
            feasible = True
        if not feasible:
            return None
    return err_t


def _def_call_block(body, local, depth=0):
    """block of the call whose result `local` holds, following whole-value moves of uniquely assigned locals"""
    if depth > 6:
        return None
    for b_ in range(body.n):
        t_ = body.term(b_)
        if t_["k"] == "call" and not t_["dest"]["p"] and t_["dest"]["l"] == local:
            return b_
    defs = [s_ for _, _, s_ in body.stmts() if s_["k"] == "assign" and s_["lhs"]["l"] == local and not s_["lhs"]["p"]]
    if len(defs) == 1 and defs[0]["rv"]["k"] == "use":
        q = op_place(defs[0]["rv"]["op"])
        if q is not None and not q["p"]:
            return _def_call_block(body, q["l"], depth + 1)
    return None


def check_match(body, local, bb):
    """Explicit match on a Result: the Err arm must reach a return on every path without passing an Ok assignment to _0."""
    t = body.term(bb)
    if t["k"] != "switch":
        return "ok", "discr-read"
    if "nom::Err<" in body.local_ty(local) and "std::io::Error" not in body.local_ty(local):
        # parser results: Incomplete/Error arms legitimately retry after reading more (C01.short-is-not-error
        # decides that shape); only io/shim errors are transport faults that must not be swallowed
        return "ok", "match"
    err_t = err_arm(body, local, bb)
    if err_t is None:
        return "ok", "match"
    # path-sensitive first: start at the call, so that later re-tests of the same result (`r?` after `if let Err(..) = &r`, or the `?` on
    # the value a combinator loop hands back) follow the Err outcome instead of forking again
    defblk = _def_call_block(body, local)
    if defblk is not None:
        from engines.paths import TooManyPaths
        try:
            for p in enumerate_paths(body, start=defblk, max_visits=1, limit=3000):
                via = any(p.blocks[i] == bb and p.blocks[i + 1] == err_t for i in range(len(p.blocks) - 1))
                if via and p.end == "return" and classify_return(p) == "ok":
                    return "bad", "the Err arm of an explicit match reaches an Ok return"
            return "ok", "match"
        except TooManyPaths:
            pass
    for p in enumerate_paths(body, start=err_t, max_visits=1, limit=2000):
        if p.end != "return":
            continue
        if classify_return(p) == "ok":
            return "bad", "the Err arm of an explicit match reaches an Ok return"
    return "ok", "match"


def run(ctx, configs=None):
    for cfg in (configs or CONFIGS):
        prog = ctx.prog(cfg)
        roles, eff = effects.build(prog)
        ctx.rule("C19.result-discipline", "every Result with an io/shim/nom error is propagated, returned or explicitly handled")
        ctx.rule("C19.ok-exactly-at-boundary", "Ok only at a command boundary (reader None arm under read==0 && empty buffer, or Quit)")
        ctx.rule("C19.shim-error-unchanged", "shim errors are returned through identity conversions")
        ctx.rule("C19.no-callback-after-failure", "no shim callback reachable after an error-building block")
        ctx.rule("C19.no-panic-on-fault", "unwrap/expect on io results in non-test code")

        # ---- result-discipline ---------------------------------------------------------------
        nsites = 0
        for b in prog.non_test_fns():
            if re.search(r"as std::(fmt::Debug|clone::Clone|cmp::|hash::Hash|default::Default)", b.path):
                continue
            touched = False
            for bb, t in b.calls():
                dl = t["dest"]
                if dl["p"] or not is_result_local(b, dl["l"]):
                    continue
                f = t["func"]
                n = cname(f) if "indirect" not in f else "<indirect>"
                if ADAPTORS.search(n) or n.endswith("::from_residual") or f.get("path", "").endswith("from_residual"):
                    continue  # judged through the value they adapt
                nsites += 1
                touched = True
                v, why = disciplined(b, dl["l"])
                if v == "panic":
                    continue  # listed by no-panic-on-fault
                ctx.ob("C19.result-discipline", v == "ok", "the result of %s is not propagated: %s" % (n.split("<")[0][-70:], why),
                       fn=b.path, construct="call", callee=n, where=b.where(bb),
                       sample={"rule": "result-discipline", "fn": b.path, "callee": n[-60:], "handled_by": why} if nsites % 40 == 1 else None)
            # fallible callables (closures / fn items returning an io Result) handed to a combinator: the combinator must hand the
            # error back (`flat_map`, `filter_map`, `for_each`, `map(..).count()` iterate over / discard it)
            for bb, t, ai, what in fallible_callables(prog, b):
                v, why = callable_consumed(b, bb, t)
                touched = True
                ctx.ob("C19.result-discipline", v != "bad", "the io::Result of %s is handed to a combinator that drops its error: %s" % (what[-60:], why),
                       fn=b.path, construct="fallible-callable", callee=what, where=b.where(bb))
            if touched:
                ctx.fn(b)
        ctx.floor("C19.result-discipline", "Result-producing call sites (%s)" % cfg, nsites, 150 if cfg == "tls" else 140)

        # ---- ok-exactly-at-boundary ----------------------------------------------------------
        fr = roles.f_read
        n_none = n_eof_err = 0
        for p in enumerate_paths(fr, max_visits=2):
            if p.end != "return":
                continue
            rv = p.return_value()
            conds = {}
            for i, bblk in enumerate(p.blocks[:-1]):
                t = fr.term(bblk)
                if t["k"] == "switch":
                    v = p.origin_op(t["discr"], i)
                    nxt = p.blocks[i + 1]
                    zero_t = t["tgts"][t["vals"].index("0")] if "0" in t["vals"] else None
                    truth = nxt != zero_t
                    if isinstance(v, tuple) and v[0] == "bin" and v[1] in ("Eq", "Ne") and T.is_const_int(v[3], 0) and \
                            T.contains(v[2], lambda x: T.is_call(x, r"std::io::Read>::read$|^std::io::Read::read$")):
                        conds["read==0"] = truth if v[1] == "Eq" else not truth
                    # `match (read, self.remaining) { (0, 0) => .., (0, n) => .., _ => .. }`: the integers themselves are switched on
                    if zero_t is not None and isinstance(v, tuple) and v[0] != "bin" and not T.is_call(v, r"is_empty$"):
                        if T.contains(v, lambda x: T.is_call(x, r"std::io::Read>::read$|^std::io::Read::read$")) and (v[0] in ("okpayload", "field", "variant", "cast") or T.is_call(v, r"Read::read$")):
                            conds["read==0"] = not truth
                        elif T.is_call(v, r"Vec::<T, A>::len$") and T.is_field(T.peel(v[2][0]), "bytes"):
                            conds["bytes.is_empty"] = not truth
                    if T.is_call(v, r"Vec::<T, A>::is_empty$") and T.is_field(T.peel(v[2][0]), "bytes"):
                        conds["bytes.is_empty"] = truth
                    if isinstance(v, tuple) and v[0] == "bin" and v[1] in ("Eq", "Ne") and T.is_const_int(v[3], 0) and \
                            T.is_call(v[2], r"Vec::<T, A>::len$") and T.is_field(T.peel(v[2][2][0]), "bytes"):
                        conds["bytes.is_empty"] = truth if v[1] == "Eq" else not truth
            # the decision that counts is the last one before the return (earlier ones belong to earlier loop iterations,
            # e.g. `remaining != 0` right after remaining := bytes.len())
            e_ = emptiness_of(p, lambda x: T.is_field(x, "bytes"), last=True)
            if e_ is not None:
                conds["bytes.is_empty"] = e_
            is_ok_none = rv[0] == "agg" and rv[3] == "Ok" and rv[4] and rv[4][0][0] == "agg" and rv[4][0][3] == "None"
            if is_ok_none:
                n_none += 1
                ok = conds.get("read==0") is True and conds.get("bytes.is_empty") is True
                ctx.ob("C19.ok-exactly-at-boundary", ok, "the reader reports a clean end of stream (Ok(None)) on a path with %s" % conds,
                       fn=fr.path, construct="ok-none", where=fr.where(p.blocks[-1]), sample={"rule": "ok-exactly-at-boundary", "conds": conds})
            if conds.get("read==0") is True and conds.get("bytes.is_empty") is False:
                n_eof_err += 1
                ctx.ob("C19.ok-exactly-at-boundary", classify_return(p) == "err", "end of stream inside a packet does not return an error",
                       fn=fr.path, construct="eof-inside-packet", where=fr.where(p.blocks[-1]))
            if conds.get("read==0") is True and "bytes.is_empty" not in conds:
                ctx.ob("C19.ok-exactly-at-boundary", classify_return(p) == "err", "read == 0 is handled without looking at the buffered bytes",
                       fn=fr.path, construct="eof-untested", where=fr.where(p.blocks[-1]))
        ctx.floor("C19.ok-exactly-at-boundary", "Ok(None) paths of the reader", n_none, 1)
        ctx.floor("C19.ok-exactly-at-boundary", "EOF-inside-packet paths of the reader", n_eof_err, 1)
        lm = arms.LoopModel(prog, roles, eff)
        n_ok = 0
        for arm, outcome, p in lm.iteration_paths():
            if outcome != "return-ok":
                continue
            n_ok += 1
            ok = arm == "Quit"
            if arm is None:
                # the reader's result on this path: its Option discriminant must have been None (switch not taking Some)
                ok = not any(e in p.blocks for e in lm.arm_entry.values()) and lm.switch_bb not in p.blocks
            ctx.ob("C19.ok-exactly-at-boundary", ok, "the command loop returns Ok from arm %s" % arm, fn=roles.f_run.path, construct="loop-ok-exit",
                   callee=str(arm), where=roles.f_run.where(p.blocks[-1]), sample={"rule": "loop-ok-exit", "arm": arm})
        ctx.floor("C19.ok-exactly-at-boundary", "Ok exits of the command loop", n_ok, 2)
        fi = roles.f_init
        reads = [bb for bb, t in fi.calls() if cname(t["func"]) == roles.f_read.path]
        guarded = 0
        for bb, t in fi.calls():
            if re.search(r"Option::<T>::(ok_or_else|ok_or)$", cname(t["func"])):
                a = fi.arg_origin(bb, 0)
                if a[0] == "okpayload" and T.is_call(a[1], "^" + re.escape(roles.f_read.path) + "$"):
                    v, why = disciplined(fi, t["dest"]["l"])
                    if v == "ok":
                        guarded += 1
        # the explicit form: `match self.rw.next()? { Some(p) => p, None => return Err(..) }` — every path leaving the
        # None edge of a test of the reader's Ok payload ends in an error return
        opt = [a for k_, a in prog.adts.items() if k_.endswith("option::Option")]
        none_discr = "0"
        for bb in range(fi.n):
            if fi.is_cleanup(bb):
                continue
            t = fi.term(bb)
            if t["k"] != "switch":
                continue
            v = fi.origin_op(t["discr"], bb, len(fi.blocks[bb]["stmts"]))
            if not (isinstance(v, tuple) and v[0] == "discr" and isinstance(v[1], tuple) and v[1][0] == "okpayload" and T.is_call(v[1][1], "^" + re.escape(roles.f_read.path) + "$")):
                continue
            tg = t["tgts"][t["vals"].index(none_discr)] if none_discr in t["vals"] else t["otherwise"]
            ends = [(p.end, classify_return(p) if p.end == "return" else None) for p in enumerate_paths(fi, start=tg, max_visits=1, limit=4000)]
            if ends and all(e == "diverge" or (e == "return" and c == "err") or e == "unreachable" for e, c in ends):
                guarded += 1
        ctx.ob("C19.ok-exactly-at-boundary", guarded == len(reads) and reads, "in the handshake %d of %d reader results turn a closed connection into an error" % (guarded, len(reads)),
               fn=fi.path, construct="handshake-eof")

        # ---- shim-error-unchanged -------------------------------------------------------------
        n = 0
        for b in (roles.f_init, roles.f_run, roles.run_on):
            for bb, t in b.calls():
                f = t["func"]
                if "indirect" in f or not f["path"].endswith("FromResidual::from_residual"):
                    continue
                ga = f.get("gargs") or []
                if len(ga) == 2 and "MysqlShim<" in ga[1]:
                    n += 1
                    # residual error type must be textually the function's error type
                    e1, e2 = _result_err_ty(ga[0]), _result_err_ty(ga[1])
                    ok = bool(e1 and e2 and e1 == e2)
                    ctx.ob("C19.shim-error-unchanged", ok, "a shim error is converted on the way out (%s -> %s)" % (ga[1], ga[0]), fn=b.path,
                           construct="residual-conversion", where=b.where(bb))
        # every shim callback result: its error reaches `?` / the return slot / an explicit match, never an error-converting adaptor
        n_sites = 0
        for b in (roles.f_init, roles.f_run, roles.run_on):
            for bb, t in b.calls():
                if not effects.is_shim_call(t) or t["dest"]["p"] or not is_result_local(b, t["dest"]["l"]) or "MysqlShim<" not in b.local_ty(t["dest"]["l"]):
                    continue
                n_sites += 1
                conv = converting_use(b, t["dest"]["l"])
                ctx.ob("C19.shim-error-unchanged", conv is None, "the error of shim callback %s is converted by %s before it is returned" % (t["func"].get("name"), conv),
                       fn=b.path, construct="shim-result", callee=t["func"].get("name"), where=b.where(bb))
        ctx.floor("C19.shim-error-unchanged", "shim callback results followed (%s)" % cfg, n_sites, 6)
        ctx.floor("C19.shim-error-unchanged", "`?` sites on shim results (%s)" % cfg, n, 1)
        # explicit `return Err(e)` after after_authentication
        n_exp = 0
        for p in enumerate_paths(fi, max_visits=1, limit=20000):
            if p.end != "return":
                continue
            rv = p.return_value()
            if rv[0] == "call" and "from_residual" in rv[1] and T.contains(rv, lambda x: isinstance(x, tuple) and x and x[0] == "errresidual" and T.is_call(x[1], r"MysqlShim::after_authentication$")):
                # `verdict?`: the residual of the callback's own result (that `?` is the identity on the error type is checked above)
                n_exp += 1
                ctx.ob("C19.shim-error-unchanged", True, "", fn=fi.path, construct="explicit-return", where=fi.where(p.blocks[-1]), nontrivial=False)
            if rv[0] == "agg" and rv[3] == "Err":
                pay = rv[4][0]
                if T.contains(pay, lambda x: T.is_call(x, r"MysqlShim::after_authentication$")):
                    n_exp += 1
                    ok = pay[0] == "errpayload" and T.is_call(pay[1], r"MysqlShim::after_authentication$")
                    ctx.ob("C19.shim-error-unchanged", ok, "the authentication failure returns %s instead of the shim's error" % term_str(pay)[:100],
                           fn=fi.path, construct="explicit-return", where=fi.where(p.blocks[-1]))
        ctx.floor("C19.shim-error-unchanged", "returns of the authentication error in the handshake", n_exp, 1)

        # ---- no-callback-after-failure --------------------------------------------------------
        for b in (roles.f_init, roles.f_run):
            eb = typestate.err_blocks(b)
            shim_bbs = {bb for bb, t in b.calls() if effects.is_shim_call(t) and not t["func"].get("rpath")}
            n_eb = 0
            for e in sorted(eb):
                n_eb += 1
                reach = b.reachable(e)
                hit = sorted(reach & shim_bbs)
                if hit:
                    # confirm path-sensitively: the error value built here, returned by an (inlined) helper and
                    # re-tested by the caller's `?`, cannot take the Ok arm
                    try:
                        hit = sorted({p.blocks[-1] for p in enumerate_paths(b, start=e, stop_at=set(hit), max_visits=1, limit=4000) if p.end == "stop"})
                    except Exception:
                        pass
                ctx.ob("C19.no-callback-after-failure", not hit, "a shim callback (%s) is reachable after the error built at %s" % ([b.where(h) for h in hit], b.where(e)),
                       fn=b.path, construct="after-error", where=b.where(e), nontrivial=False)
            ctx.floor("C19.no-callback-after-failure", "error-building blocks in %s" % b.path, n_eb, 10)

        # ---- no-panic-on-fault ---------------------------------------------------------------
        n_unw = 0
        for b in prog.non_test_fns():
            for bb, t in b.calls():
                f = t["func"]
                if "indirect" in f:
                    continue
                n_ = cname(f)
                if PANICKING.search(n_):
                    ga = f.get("rgargs") or f.get("gargs") or []
                    if len(ga) >= 2 and ga[1] == "std::io::Error":
                        n_unw += 1
                        # only results that can carry a transport fault: produced by a callee that touches the connection
                        src = b.arg_origin(bb, 0)
                        prod = T.find(src, lambda x: isinstance(x, tuple) and x[0] == "call" and not PANICKING.search(x[1]))
                        touches = False
                        if prod is not None:
                            e = eff.summ.get(prod[1], set())
                            touches = bool(e & {"writes", "flushes", "reads"})
                        if touches:
                            ctx.ob("C19.no-panic-on-fault", False, "%s() on the io::Result of %s: a transport error here panics instead of being returned" % (n_.split("::")[-1], prod[1][-60:]),
                                   fn=b.path, construct="call", callee=n_, where=b.where(bb))
                        else:
                            ctx.ob("C19.no-panic-on-fault", True, "", fn=b.path, construct="call", callee=n_, nontrivial=False)
        ctx.floor("C19.no-panic-on-fault", "unwrap/expect sites on io results examined", n_unw, 1)
        # ---- deferred errors (Drop impls cannot return): stored once, reported by the next flush --------------
        ctx.rule("C19.deferred-error", "an error met while finalizing on drop is stored in the connection and returned by the next flush")
        drops = [i for i in prog.impls if i.get("trait_path") == "std::ops::Drop" and i["self_ty"].startswith(("resultset::RowWriter<", "resultset::QueryResultWriter<"))]
        defer = prog.find(r"^packet::PacketConn::<\w+>::defer_error$")
        for imp in drops:
            b = prog.bodies[imp["methods"][0]]
            ctx.fn(b)
            for bb, t in b.calls():
                dl = t["dest"]
                if dl["p"] or not is_result_local(b, dl["l"]):
                    continue
                # the Err arm of the finaliser's result must reach defer_error on every path
                v, why = disciplined(b, dl["l"])
                npaths = nbad = 0
                for p in enumerate_paths(b):
                    if p.end != "return":
                        continue
                    took_err = False
                    for i, blk in enumerate(p.blocks[:-1]):
                        tt = b.term(blk)
                        if tt["k"] == "switch":
                            dv = p.origin_op(tt["discr"], i)
                            if dv[0] == "discr" and T.contains(dv, lambda x: x[0] == "call" and x[3] == ("site", bb)):
                                vals = [int(x) for x, g in zip(tt["vals"], tt["tgts"]) if g == p.blocks[i + 1]]
                                took_err = vals == [1] or (not vals and "0" in tt["vals"])
                    if took_err:
                        npaths += 1
                        deferred = any(defer and cname(t2["func"]) == defer[0].path for pos, blk, t2 in p.calls())
                        # the RowWriter may already have handed its result writer on (finished): then nothing can have failed
                        if not deferred:
                            nbad += 1
                ctx.ob("C19.deferred-error", v != "bad" and npaths >= 1 and nbad <= (1 if "RowWriter" in imp["self_ty"] else 0),
                       "%s: the error of the finaliser is not handed to the connection on %d of %d error paths (%s)" % (b.path, nbad, npaths, why),
                       fn=b.path, construct="drop-defers", where=b.where(bb), sample={"rule": "deferred-error", "fn": b.path, "error_paths": npaths})
        if defer:
            d = defer[0]
            ctx.fn(d)
            stores = [s_ for _, _, s_ in d.stmts() if s_["k"] == "assign" and place_fields(s_["lhs"])[:1] == ["deferred_error"]]
            # ... or through the Option API on the field: get_or_insert(e) / insert(e) / replace(e)
            for bb_, t_ in d.calls():
                if "indirect" not in t_["func"] and re.search(r"Option::<T>::(get_or_insert|insert|replace)$", cname(t_["func"])) and len(t_["args"]) == 2 and \
                        T.is_field(T.peel(d.arg_origin(bb_, 0)), "deferred_error") and T.is_param(T.peel(d.arg_origin(bb_, 1)), 2):
                    stores.append(t_)
            ctx.ob("C19.deferred-error", len(stores) >= 1, "defer_error does not store the error", fn=d.path, construct="stores", nontrivial=False)
            fl = roles.f_flush
            n_err = 0
            for p in enumerate_paths(fl):
                if p.end != "return":
                    continue
                rv = p.return_value()
                # Err(e) with e taken out of the deferred slot — built here, or in a helper and passed on with `?`
                if classify_return(p) == "err" and T.contains(rv, lambda x: T.is_call(x, r"Option::<T>::take$") and T.contains(x, lambda y: T.is_field(y, "deferred_error"))):
                    n_err += 1
                    # returned before anything else is written or flushed
                    others = [cname(t2["func"]) for pos, blk, t2 in p.calls() if "writes" in eff.of_call(fl, blk, t2) or cname(t2["func"]).endswith("Write::flush")]
                    ctx.ob("C19.deferred-error", not others, "flush writes (%s) before reporting the deferred error" % others, fn=fl.path, construct="reported-first")
            ctx.ob("C19.deferred-error", n_err >= 1, "the connection flush never returns the deferred error", fn=fl.path, construct="flush-reports")
        ctx.ob("C19.deferred-error", bool(defer) or not drops, "result writers finalize on drop but there is no deferred-error channel", fn="packet::PacketConn", construct="channel", nontrivial=False)

    # an error met while a writer is finalized on drop is only reported by the next flush: the flush at the end of every
    # loop iteration (C12's typestate rule: clean at every wait) is what surfaces it before the next callback

