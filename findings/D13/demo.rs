// D13/D11 (C08): temporal parameters must convert to the value the client encoded: microseconds of
// DATETIME (11-byte form) and TIME (12-byte form) are kept, and the 4-byte DATETIME form converts.
mod harness;
use harness::*;
use msql_srv::*;
use std::io;
use std::time::Duration;
extern crate chrono;
use chrono::{NaiveDate, NaiveDateTime};

struct Shim(Vec<String>);
impl MysqlShim<Pipe> for Shim {
    type Error = io::Error;
    fn on_prepare(&mut self, _: &str, i: StatementMetaWriter<'_, Pipe>) -> io::Result<()> {
        let p: Vec<Column> = (0..3).map(|_| Column { table: String::new(), column: "p".into(), coltype: ColumnType::MYSQL_TYPE_DATETIME, colflags: ColumnFlags::empty() }).collect();
        i.reply(1, &p, &[])
    }
    fn on_execute(&mut self, _: u32, p: ParamParser<'_>, r: QueryResultWriter<'_, Pipe>) -> io::Result<()> {
        for (i, v) in p.into_iter().enumerate() {
            let s = std::panic::catch_unwind(std::panic::AssertUnwindSafe(|| {
                if i < 2 { format!("{:?}", NaiveDateTime::from(v.value)) } else { format!("{:?}", Duration::from(v.value)) }
            })).unwrap_or_else(|_| "PANIC".to_string());
            SEEN.with(|x| x.borrow_mut().push(s));
        }
        r.completed(0, 0)
    }
    fn on_close(&mut self, _: u32) {}
    fn on_query(&mut self, _: &str, r: QueryResultWriter<'_, Pipe>) -> io::Result<()> { r.completed(0, 0) }
}
thread_local! { static SEEN: std::cell::RefCell<Vec<String>> = Default::default(); }

#[test]
fn temporal_parameters_keep_microseconds_and_short_forms() {
    let mut b = handshake();
    b.extend(packet(0, b"\x16SELECT ?,?,?"));
    let mut e = vec![0x17, 1, 0, 0, 0, 0, 1, 0, 0, 0, 0x00, 0x01, 12, 0, 12, 0, 11, 0];
    // DATETIME 2020-02-03 04:05:06.000789 (11-byte form)
    e.extend_from_slice(&[11, 0xe4, 0x07, 2, 3, 4, 5, 6, 0x15, 0x03, 0, 0]);
    // DATETIME 2021-12-31 (4-byte form: midnight)
    e.extend_from_slice(&[4, 0xe5, 0x07, 12, 31]);
    // TIME 1 day 02:03:04.000005 (12-byte form)
    e.extend_from_slice(&[12, 0, 1, 0, 0, 0, 2, 3, 4, 5, 0, 0, 0]);
    b.extend(packet(0, &e));
    b.extend(packet(0, &[0x01]));
    let (r, _) = run(Shim(Vec::new()), b);
    r.unwrap();
    let seen = SEEN.with(|x| x.borrow().clone());
    let want = vec![
        format!("{:?}", NaiveDate::from_ymd_opt(2020, 2, 3).unwrap().and_hms_micro_opt(4, 5, 6, 789).unwrap()),
        format!("{:?}", NaiveDate::from_ymd_opt(2021, 12, 31).unwrap().and_hms_opt(0, 0, 0).unwrap()),
        format!("{:?}", Duration::new(86400 + 2 * 3600 + 3 * 60 + 4, 5_000)),
    ];
    assert_eq!(seen, want);
}
