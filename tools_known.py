#!/usr/bin/env python3
"""Regenerate spec/known_fns.json and spec/known_sigs.json from the exported MIR of /repo's current tree (both configs).
Run ONLY after a deliberate change of /repo (a `fix:` commit): these files are the reference of which functions/fields exist
on the repaired pinned tree (everything else is a new helper to inline, or a rename to canonicalise).
  tools_known.py          show what would change
  tools_known.py --write  rewrite the two files"""
import json, os, sys
HERE = os.path.dirname(os.path.abspath(__file__))
sys.path.insert(0, HERE)
from engines import extract as X

fns, sigs, fields = set(), {}, {}
for cfg in ("tls", "notls"):
    path, info = X.extract(cfg)
    facts = json.load(open(path))
    for b in facts["bodies"]:
        p = b["path"]
        if "::tests::" in p or b.get("kind") not in ("fn", "closure"):
            continue
        fns.add(p)
        if b.get("kind") == "closure" or "{closure" in p:
            continue
        callees = []
        for blk in b["blocks"]:
            t = blk["term"]
            if t.get("k") == "call" and "indirect" not in t["func"]:
                callees.append(t["func"].get("rpath") or t["func"]["path"])
        sigs.setdefault(p, {"callees": sorted(callees), "parent": b.get("parent") or p.rsplit("::", 1)[0], "sig_in": b.get("sig_in"), "sig_out": b.get("sig_out")})
    for a in facts["adts"]:
        if a.get("local") and a.get("kind") == "struct":
            name = a["path"].split("::")[-1]
            vs = a.get("variants") or []
            if vs:
                fields.setdefault(name, [[f["name"], f["ty"]] for f in vs[0]["fields"]])
kf = os.path.join(HERE, "spec", "known_fns.json")
ks = os.path.join(HERE, "spec", "known_sigs.json")
old_f = json.load(open(kf))
old_s = json.load(open(ks))
print("fns: +%s -%s" % (sorted(fns - set(old_f["fns"])), sorted(set(old_f["fns"]) - fns)))
print("sigs: +%s -%s changed=%s" % (sorted(set(sigs) - set(old_s["fns"])), sorted(set(old_s["fns"]) - set(sigs)),
                                    sorted(k for k in sigs if k in old_s["fns"] and old_s["fns"][k] != sigs[k])))
if "--write" in sys.argv:
    old_f["fns"] = sorted(fns)
    json.dump(old_f, open(kf, "w"), indent=1); open(kf, "a").write("\n")
    old_s["fns"] = {k: sigs[k] for k in sorted(sigs)}
    json.dump(old_s, open(ks, "w"), indent=1); open(ks, "a").write("\n")
    print("written")
