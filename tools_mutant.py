#!/usr/bin/env python3
"""Mutant runner: apply each patch of selftest/mutants (or the given files) to a scratch copy of
/repo, run the named property's check against the copy, and require that it reports a violation
(whose rule matches `expect-rule`, when given).  Scratch copies live under mktemp and are removed.

A patch with `# expect: silent` is a behaviour-preserving variant: the check must stay quiet.

Patch header lines (before the diff):
    # property: C12            (several allowed, comma separated)
    # expect-rule: C12.clean-at-read      (optional regex over the rule ids reported)
    # note: free text
"""
import glob
import json
import os
import re
import shutil
import subprocess
import sys
import tempfile

HERE = os.path.dirname(os.path.abspath(__file__))
REPO = "/repo"


def parse_header(path):
    props, rule, note, silent = [], None, "", False
    with open(path) as fh:
        for line in fh:
            if line.startswith("# property:"):
                props = [x.strip() for x in line.split(":", 1)[1].split(",")]
            elif line.startswith("# expect-rule:"):
                rule = line.split(":", 1)[1].strip()
            elif line.startswith("# expect: silent"):
                silent = True
            elif line.startswith("# note:"):
                note = line.split(":", 1)[1].strip()
            elif line.startswith(("diff ", "--- ")):
                break
    return props, rule, note, silent


def run_one(patch, props_override=None, keep=False, verbose=False):
    props, rule, note, silent = parse_header(patch)
    if props_override:
        props = props_override
    scratch = tempfile.mkdtemp(prefix="msqlx-mut-")
    try:
        subprocess.run(["rsync", "-a", "--exclude", "target", "--exclude", ".git", REPO + "/", scratch + "/"], check=True)
        r = subprocess.run(["patch", "-p1", "-s", "-i", os.path.abspath(patch)], cwd=scratch, capture_output=True, text=True)
        if r.returncode != 0:
            return {"patch": patch, "status": "PATCH-FAILED", "out": r.stdout + r.stderr}
        results = []
        for prop in props:
            env = dict(os.environ, MSQLX_REPO=scratch)
            r = subprocess.run([os.path.join(HERE, "check"), prop, "--tier", "quick"], env=env, capture_output=True, text=True, cwd=HERE)
            rules = re.findall(r"violation rule=(\S+)", r.stdout)
            fired = r.returncode == 1 and "VIOLATION property=%s" % prop in r.stdout
            matched = fired and (rule is None or any(re.search(rule, x) for x in rules))
            if silent:
                status = "SILENT-OK" if r.returncode == 0 else "FALSE-ALARM"
                results.append({"property": prop, "status": status, "rules": sorted(set(rules)), "rc": r.returncode})
                if status != "SILENT-OK":
                    print(r.stdout[-3000:])
                continue
            status = "CAUGHT" if matched else ("CAUGHT-OTHER-RULE" if fired else ("BUILD-FAILED" if r.returncode == 2 else "MISSED"))
            results.append({"property": prop, "status": status, "rules": sorted(set(rules)), "rc": r.returncode})
            if verbose or status not in ("CAUGHT",):
                print(r.stdout[-3000:])
        return {"patch": os.path.basename(patch), "note": note, "results": results}
    finally:
        if not keep:
            shutil.rmtree(scratch, ignore_errors=True)
        # evidence files were rewritten by the mutant run: restore them by re-running later (caller's job)


def main():
    args = [a for a in sys.argv[1:] if not a.startswith("-")]
    verbose = "-v" in sys.argv
    patches = args or sorted(glob.glob(os.path.join(HERE, "selftest", "mutants", "*.patch")))
    bad = 0
    touched = set()
    for p in patches:
        res = run_one(p, verbose=verbose)
        if "results" not in res:
            print("%-50s %s" % (os.path.basename(p), res["status"]))
            print(res.get("out", ""))
            bad += 1
            continue
        for r in res["results"]:
            touched.add(r["property"])
            print("%-50s %-4s %-18s %s" % (res["patch"], r["property"], r["status"], ",".join(r["rules"])))
            if r["status"] not in ("CAUGHT", "SILENT-OK"):
                bad += 1
    # restore evidence for the real tree
    for prop in sorted(touched):
        subprocess.run([os.path.join(HERE, "check"), prop, "--tier", "quick"], capture_output=True, text=True, cwd=HERE)
    print("mutants: %d run, %d not caught as expected" % (len(patches), bad))
    return 1 if bad else 0


if __name__ == "__main__":
    sys.exit(main())
