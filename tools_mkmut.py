#!/usr/bin/env python3
"""Create a mutant patch: tools_mkmut.py NAME PROPS RULE NOTE (FILE OLD NEW)...
Exact-string replacement of the first match of each OLD in /repo/FILE (an OLD prefixed with
`@N:` replaces the N-th occurrence); writes selftest/mutants/NAME.patch with the header
expected by tools_mutant.py."""
import difflib, os, re, sys
name, props, rule, note = sys.argv[1:5]
rest = sys.argv[5:]
assert len(rest) % 3 == 0 and rest
files = {}
for i in range(0, len(rest), 3):
    file, old, new = rest[i:i + 3]
    occ = 0
    m = re.match(r"@(\d+):", old)
    if m:
        occ = int(m.group(1)); old = old[m.end():]
    old = old.encode().decode("unicode_escape"); new = new.encode().decode("unicode_escape")
    src = files.get(file) or open(os.path.join("/repo", file)).read()
    idx = -1
    for _ in range(occ + 1):
        idx = src.find(old, idx + 1)
        if idx < 0:
            sys.exit("OLD not found in %s (occurrence %d): %r" % (file, occ, old))
    files[file] = src[:idx] + new + src[idx + len(old):]
out = os.path.join(os.path.dirname(os.path.abspath(__file__)), "selftest", "mutants", name + ".patch")
with open(out, "w") as fh:
    fh.write("# property: %s\n" % props)
    if rule == "SILENT": fh.write("# expect: silent\n")
    elif rule: fh.write("# expect-rule: %s\n" % rule)
    fh.write("# note: %s\n" % note)
    for file, dst in files.items():
        src = open(os.path.join("/repo", file)).read()
        fh.write("".join(difflib.unified_diff(src.splitlines(True), dst.splitlines(True), "a/" + file, "b/" + file)))
print(out)
