"""Decoder for the compiled `format_args!` template (core::fmt::Arguments, see the layout comment in
library/core/src/fmt/mod.rs of this toolchain) and extraction of a format call's shape from origin terms."""
from . import terms as T

ZERO_PAD = 1 << 24


def decode(template):
    """[('lit', bytes) | ('arg', index, {'zero': bool, 'width': int|None, 'precision': int|None})] or None if malformed."""
    out, i, nxt = [], 0, 0
    b = template
    while i < len(b):
        n = b[i]
        i += 1
        if n == 0:
            return out if i == len(b) else None
        if n < 0x80:
            out.append(("lit", bytes(b[i:i + n])))
            i += n
        elif n == 0x80:
            ln = b[i] | (b[i + 1] << 8)
            i += 2
            out.append(("lit", bytes(b[i:i + ln])))
            i += ln
        elif n >= 0xC0:
            flags, width, prec, idx = 0, None, None, None
            if n & 1:
                flags = int.from_bytes(b[i:i + 4], "little")
                i += 4
            if n & 2:
                width = int.from_bytes(b[i:i + 2], "little")
                i += 2
            if n & 4:
                prec = int.from_bytes(b[i:i + 2], "little")
                i += 2
            if n & 8:
                idx = int.from_bytes(b[i:i + 2], "little")
                i += 2
            if n & 0x30:
                return None  # dynamic width/precision: not modelled
            if idx is None:
                idx = nxt
            nxt = idx + 1
            out.append(("arg", idx, {"zero": bool(flags & ZERO_PAD), "width": width, "precision": prec}))
        else:
            return None
    return None


def format_shape(t, _depth=0):
    """For a term containing `fmt::format(Arguments::new(template, &[Argument::new_*(&v)...]))` return
    (pieces, [(kind, value_term)]) or None."""
    fm = T.find(t, lambda x: T.is_call(x, r"^std::fmt::format$|^alloc::fmt::format$"))
    if fm is None:
        # `x.to_string()` is `format!("{}", x)` (the blanket `impl<T: Display> ToString for T`)
        ts = T.find(t, lambda x: T.is_call(x, r"^<T as std::string::ToString>::to_string$|^std::string::ToString::to_string$") and len(x[2]) == 1)
        if ts is not None:
            return [("arg", 0, {"zero": False, "width": None, "precision": None})], [("display", ts[2][0])]
        return None
    an = T.find(fm, lambda x: T.is_call(x, r"fmt::Arguments::<'a>::new$"))
    if an is None:
        return None
    tb = T.const_bytes(T.peel(an[2][0]))
    arr = T.find(an[2][1], lambda x: isinstance(x, tuple) and x[0] == "agg" and x[1] == "array")
    if tb is None or arr is None:
        return None
    pieces = decode(tb)
    if pieces is None:
        return None
    args = []
    for a in arr[4]:
        c = T.find(a, lambda x: T.is_call(x, r"fmt::rt::Argument::<'_>::new_(\w+)$"))
        if c is None:
            return None
        args.append((c[1].split("new_")[-1], c[2][0]))
    return _splice_nested(pieces, args, _depth)


_STR_VIEW = r"(String::as_str|String as std::ops::Deref>::deref|String::as_bytes|<T as std::string::ToString>::to_string|std::string::ToString::to_string)$"


def _splice_nested(pieces, args, depth):
    """`format!("{} {:02}", format!("{:04}-{:02}", y, m), h)` is the template `{:04}-{:02} {:02}` of (y, m, h): a plain `{}` whose
    argument is itself a formatted String is replaced by that String's pieces (arguments renumbered in order of occurrence)."""
    if depth > 4:
        return pieces, args
    nested = {}
    for p in pieces:
        if p[0] != "arg" or p[1] >= len(args):
            continue
        kind, val = args[p[1]]
        o = p[2]
        if kind != "display" or o["zero"] or o["width"] is not None or o["precision"] is not None:
            continue
        inner = T.peel(val, extra_rx=_STR_VIEW)
        if T.is_call(inner, r"^std::fmt::format$|^alloc::fmt::format$"):
            sub = format_shape(inner, depth + 1)
            if sub is not None:
                nested[p[1]] = sub
    if not nested:
        return pieces, args
    out_p, out_a = [], []
    for p in pieces:
        if p[0] != "arg":
            out_p.append(p)
        elif p[1] in nested:
            sp, sa = nested[p[1]]
            base = len(out_a)
            for q in sp:
                out_p.append(q if q[0] != "arg" else ("arg", base + q[1], q[2]))
            out_a.extend(sa)
        else:
            out_p.append(("arg", len(out_a), p[2]))
            out_a.append(args[p[1]] if p[1] < len(args) else ("display", ("unknown", "arg")))
    # adjacent literals merge
    merged = []
    for q in out_p:
        if q[0] == "lit" and merged and merged[-1][0] == "lit":
            merged[-1] = ("lit", merged[-1][1] + q[1])
        else:
            merged.append(q)
    return merged, out_a


def builder_shape(path, val):
    """Shape of a text that is built in a `String` local: `let mut s = format!(A..); s.push_str(&format!(B..)); s.push_str("lit")`
    — the pieces of A followed by those of every push_str on the path (argument indexes shifted), or None when the
    value is not such a string or something else mutates it."""
    from .prog import cname, op_place
    fm = T.find(val, lambda x: T.is_call(x, r"^std::fmt::format$|^alloc::fmt::format$") and len(x) > 3 and isinstance(x[3], tuple))
    base = format_shape(val)
    if fm is None or base is None:
        return None
    body = path.body
    site = fm[3][1]
    if site not in path.blocks:
        return None
    start = path.blocks.index(site)
    owners = {body.blocks[site]["term"]["dest"]["l"]}
    pieces, args = list(base[0]), list(base[1])
    for pos in range(start, len(path.blocks)):
        blk = path.blocks[pos]
        for s_ in body.blocks[blk]["stmts"]:
            if s_["k"] == "assign" and not s_["lhs"]["p"] and s_["rv"]["k"] == "use":
                q = op_place(s_["rv"]["op"])
                if q is not None and not q["p"] and q["l"] in owners:
                    owners.add(s_["lhs"]["l"])
        t = body.blocks[blk]["term"]
        if t["k"] != "call" or pos == len(path.blocks) - 1 or "indirect" in t["func"] or not t["args"]:
            continue
        a0 = op_place(t["args"][0])
        if a0 is None:
            continue
        if cname(t["func"]).endswith("hint::must_use") and not a0["p"] and a0["l"] in owners:
            owners.add(t["dest"]["l"])        # `format!` wraps its result in must_use(..)
            continue
        # is the receiver `&mut <owner>`?
        d = path._find_def(a0["l"], pos, None)
        mut_owner = False
        if d is not None and d[0] == "s":
            rv = body.blocks[path.blocks[d[1]]]["stmts"][d[2]]["rv"]
            if rv["k"] == "ref" and rv.get("mut", True) and not [e for e in rv["place"]["p"] if e != "deref"] and rv["place"]["l"] in owners:
                mut_owner = True
        if not mut_owner:
            continue
        name = cname(t["func"])
        if name.endswith("String::push_str") and len(t["args"]) == 2:
            arg = path.arg(pos, 1)
            sh = format_shape(arg)
            if sh is not None:
                off = len(args)
                pieces += [(p_[0], p_[1] + off, p_[2]) if p_[0] == "arg" else p_ for p_ in sh[0]]
                args += list(sh[1])
                continue
            cb = T.const_bytes(T.peel(arg))
            if cb is not None:
                pieces.append(("lit", cb))
                continue
            return None
        if name.endswith("String::push") and len(t["args"]) == 2 and T.const_int(path.arg(pos, 1)) is not None and T.const_int(path.arg(pos, 1)) < 128:
            pieces.append(("lit", bytes([T.const_int(path.arg(pos, 1))])))
            continue
        return None     # any other mutation of the string: not modelled
    return pieces, args
