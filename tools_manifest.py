#!/usr/bin/env python3
"""Generate MANIFEST.json from the claim table below (kept in one place so it stays valid)."""
import json, os
HERE = os.path.dirname(os.path.abspath(__file__))
import sys
sys.path.insert(0, HERE)
from claims import CLAIMS, NOT_APPLICABLE, NOTES
from rules._deps import INCLUDES


def included_text(pid):
    """Generated from rules/_deps.py so that the claim cannot drift from what the check evaluates."""
    parts = []
    for name, rules in INCLUDES.get(pid, []):
        parts.append("%s (all its rules)" % name if rules is None else "%s: %s" % (name, ", ".join(r.split(".", 1)[1] for r in rules)))
    if not parts:
        return ""
    return (" Rule sets of neighbouring properties that are necessary conditions of this one are evaluated by this check as well "
            "(table and reasons: rules/_deps.py; no transitivity): " + "; ".join(parts) + ".")

checks = []
for pid, c in sorted(CLAIMS.items()):
    checks.append({
        "property_id": pid,
        "quick_cmd": "./check %s --tier quick" % pid,
        "thorough_cmd": "./check %s --tier thorough" % pid,
        "evidence_file": "/verif/evidence/%s.json" % pid,
        "replay_cmd_template": "./check %s --replay {path}" % pid,
        "engine": "msqlx+rules",
        "level_claimed": {"category": c.get("level", "other"), "text": c["text"] + included_text(pid), "design_ref": c.get("ref", "DESIGN.md section 4 (%s)" % pid)},
        "level_note": c["note"],
        "technique": c["technique"],
    })
m = {
    "version": 1,
    "setup_cmd": "./setup.sh",
    "hooks": {
        "guard": "msql_srv_verif",
        "enable": "none needed: the analysis reads the ordinary build (cargo +nightly check with the msqlx driver as RUSTC_WORKSPACE_WRAPPER); no hook commits exist",
        "baseline_off_cmd": "cd /repo && cargo test --workspace --no-fail-fast --offline",
        "source_commits": [],
        "add_only": True,
    },
    "engines": [
        {"name": "msqlx", "path": "driver/", "serves_properties": sorted(CLAIMS), "kind_free_text": "rustc_private driver exporting MIR (opt-level 0), resolved callees, constants, ADT/impl tables as JSON"},
        {"name": "rules", "path": "engines/ rules/ spec/", "serves_properties": sorted(CLAIMS), "kind_free_text": "python3 static analyses over the exported program: call graph/effects, CFG path rules, def-use origin terms, wire-layout extraction, interval dataflow, table checks"},
    ],
    "checks": checks,
    "notes": NOTES,
    "not_applicable": [{"property_id": k, "reason": v} for k, v in sorted(NOT_APPLICABLE.items())],
}
with open(os.path.join(HERE, "MANIFEST.json"), "w") as fh:
    json.dump(m, fh, indent=1)
    fh.write("\n")
print("MANIFEST.json written: %d checks, %d not applicable" % (len(checks), len(NOT_APPLICABLE)))
