#!/usr/bin/env python3
"""Regenerate the inclusion table of DESIGN.md §9.9 from rules/_deps.py (reasons are the comments in that file)."""
import os, re, sys
HERE = os.path.dirname(os.path.abspath(__file__))
sys.path.insert(0, HERE)
from rules._deps import INCLUDES
rows = []
for prop in sorted(INCLUDES):
    parts = []
    for name, rules in INCLUDES[prop]:
        parts.append("%s (all)" % name if rules is None else "%s: %s" % (name, ", ".join(r.split(".", 1)[1] for r in rules)))
    rows.append("| %s | %s |" % (prop, "; ".join(parts)))
p = os.path.join(HERE, "DESIGN.md")
s = open(p).read()
i = s.index("| check | also evaluates")
j = s.find("\n\n", i)
if j < 0:
    j = len(s.rstrip("\n"))
s = s[:i] + "| check | also evaluates (rule file: rule ids; reasons are the comments in `rules/_deps.py`) |\n|---|---|\n" + "\n".join(rows) + (s[j:] if s[j:].strip() else "\n")
open(p, "w").write(s)
print("rows", len(rows))
