"""E1: role discovery, call-graph effect summaries, and a small forward typestate solver (E2)."""
import re

from .prog import cname, op_place, place_fields, AnchorMissing
from . import wire

PACKETCONN = "packet::PacketConn<"
WRITER_TYPES = ("resultset::QueryResultWriter<", "resultset::RowWriter<", "resultset::InitWriter<",
                "resultset::StatementMetaWriter<")
SHIM_TRAIT = "MysqlShim"


def is_shim_call(t):
    f = t["func"]
    return "indirect" not in f and (f.get("trait") or "").endswith(SHIM_TRAIT)


def shim_method(t):
    return t["func"].get("name")


def recv_is_conn(t):
    tys = t.get("arg_tys") or []
    return bool(tys) and PACKETCONN in tys[0]


def mentions_writer(tys):
    return any(any(w in ty for w in WRITER_TYPES) for ty in tys)


class Roles:
    """Functions found by role (what they do), not by name."""

    def __init__(self, prog):
        self.prog = prog
        self.f_read = self._f_read()
        self.f_term = self._f_term()
        self.f_wr = prog.one(r"^<packet::PacketConn<\w+> as std::io::Write>::write$")
        self.f_flush = prog.one(r"^<packet::PacketConn<\w+> as std::io::Write>::flush$")
        self.run_on = prog.one(r"^MysqlIntermediary::<B, RW>::run_on$")
        self.f_init, self.f_run = self._init_run()
        self.f_setseq = self._setseq()
        self.f_new = prog.one(r"^packet::PacketConn::<\w+>::new$")

    def _transport_sites(self, method_rx):
        out = []
        for b in self.prog.non_test_fns():
            for bb, t in b.calls():
                f = t["func"]
                if "indirect" in f:
                    continue
                if not re.search(method_rx, f["path"]):
                    continue
                if not t["args"]:
                    continue
                pl = op_place(t["args"][0])
                if pl is None:
                    continue
                o = b.origin_place(pl, bb, len(b.blocks[bb]["stmts"]))
                # receiver must be the `rw` field of a PacketConn
                if o[0] == "field" and o[2] == "rw" and PACKETCONN in (b.raw.get("impl_self") or ""):
                    out.append((b, bb, t))
        return out

    def _f_read(self):
        sites = self._transport_sites(r"^std::io::Read::read$")
        fns = {b.path for b, _, _ in sites}
        if len(fns) != 1:
            raise AnchorMissing("transport read site: expected exactly one function reading PacketConn.rw, found %s" % sorted(fns))
        self.read_sites = sites
        return sites[0][0]

    def _f_term(self):
        sites = self._transport_sites(r"^std::io::Write::(write_all|write)$")
        fns = {b.path for b, _, _ in sites}
        if len(fns) != 1:
            raise AnchorMissing("transport write site: expected exactly one function writing PacketConn.rw, found %s" % sorted(fns))
        self.write_sites = sites
        return sites[0][0]

    def _init_run(self):
        b = self.run_on
        local_calls = []
        for bb, t in b.calls():
            n = cname(t["func"])
            if n in self.prog.bodies and "MysqlIntermediary" in n:
                local_calls.append((bb, n))
        if len(local_calls) != 2:
            raise AnchorMissing("run_on must call exactly two MysqlIntermediary methods (handshake, command loop); found %s" % local_calls)
        (b1, n1), (b2, n2) = local_calls
        # order by dominance: the first dominates the second
        if b.dominates(b2, b1):
            (b1, n1), (b2, n2) = (b2, n2), (b1, n1)
        self.run_on_sites = (b1, b2)
        return self.prog.bodies[n1], self.prog.bodies[n2]

    def _setseq(self):
        cands = []
        for b in self.prog.non_test_fns():
            if PACKETCONN not in (b.raw.get("impl_self") or ""):
                continue
            if b.path in (self.f_term.path,) or b.path.endswith("::new"):
                continue
            for bb, i, s in b.stmts():
                if s["k"] == "assign" and place_fields(s["lhs"]) == ["seq"]:
                    cands.append(b)
                    break
        if len(cands) != 1:
            raise AnchorMissing("sequence setter: expected one non-constructor writer of PacketConn.seq besides the packet terminator, found %s" % [c.path for c in cands])
        return cands[0]


class Effects:
    """May-effects per local function, by fixpoint over the call graph."""

    def __init__(self, prog, roles):
        self.prog = prog
        self.roles = roles
        self.direct = {}
        for b in prog.fns():
            self.direct[b.path] = self._direct(b)
        self.summ = {p: set(e) for p, e in self.direct.items()}
        changed = True
        while changed:
            changed = False
            for p in self.summ:
                for c in prog.callgraph.get(p, ()):
                    add = self.summ.get(c, set()) - self.summ[p]
                    if add:
                        self.summ[p] |= add
                        changed = True
        # drop glue: types with a local Drop impl
        self.drop_types = {}
        for imp in prog.facts["impls"]:
            if imp.get("trait_path") == "std::ops::Drop":
                st = imp["self_ty"]
                head = st.split("<")[0]
                for m in imp["methods"]:
                    self.drop_types[head] = m

    def _direct(self, b):
        eff = set()
        for bb, t in b.calls(cleanup=False):
            eff |= self.call_effects_direct(b, bb, t)
        return eff

    def call_effects_direct(self, b, bb, t):
        """Effects of the call itself when the callee is not a local body."""
        eff = set()
        f = t["func"]
        if "indirect" in f:
            return eff
        n, d = cname(f), f["path"]
        if is_shim_call(t) and not f.get("rpath"):
            # a call through the shim type parameter: the trait method's declared effect
            eff.add("shim:" + shim_method(t))
            if mentions_writer(t.get("arg_tys") or []):
                eff.add("writes")
            return eff
        if n in self.prog.bodies:
            return eff  # via summary
        if recv_is_conn(t):
            if (wire.RX_BYTEORDER.match(d) or wire.RX_WRITE_ALL.search(d) or wire.RX_LENENC_INT.search(d)
                    or wire.RX_LENENC_STR.search(d) or re.search(r"^std::io::Write::(write|write_fmt)$", d)):
                eff.add("writes")
            if re.search(r"^std::io::Write::flush$", d):
                eff.add("flushes")
        # ToMysqlValue through a type parameter with the connection as sink
        if wire.RX_VALUE.search(d) and len(t.get("arg_tys") or []) > 1 and PACKETCONN in t["arg_tys"][1]:
            eff.add("writes")
        return eff

    def of_call(self, b, bb, t):
        """May-effects of executing call terminator t (direct + callee summary)."""
        f = t["func"]
        if "indirect" in f:
            return set()
        n = cname(f)
        eff = set(self.call_effects_direct(b, bb, t))
        if is_shim_call(t) and not f.get("rpath"):
            return eff
        if n in self.prog.bodies:
            eff |= self.summ.get(n, set())
            if n == self.roles.f_wr.path or n == self.roles.f_term.path:
                eff.add("writes")
            if n == self.roles.f_flush.path:
                eff.add("flushes")
            if n == self.roles.f_read.path:
                eff.add("reads")
        return eff

    def of_drop(self, ty):
        head = ty.split("<")[0].lstrip("&")
        m = self.drop_types.get(head)
        if m:
            e = set(self.summ.get(m, set()))
            return e
        # a struct containing a writer
        for h, m in self.drop_types.items():
            if h in ty:
                return set(self.summ.get(m, set()))
        return set()

    def finalize(self):
        # own-effects for the role functions
        r = self.roles
        self.summ[r.f_wr.path].add("writes")
        self.summ[r.f_term.path].add("writes")
        self.summ[r.f_flush.path].add("flushes")
        self.summ[r.f_read.path].add("reads")
        changed = True
        while changed:
            changed = False
            for p in self.summ:
                for c in self.prog.callgraph.get(p, ()):
                    add = self.summ.get(c, set()) - self.summ[p]
                    if add:
                        self.summ[p] |= add
                        changed = True
        return self


def build(prog):
    roles = Roles(prog)
    eff = Effects(prog, roles).finalize()
    return roles, eff


# --------------------------------------------------------------------------------------
# forward typestate solver (finite powerset lattice, may-analysis)
# --------------------------------------------------------------------------------------

def forward(body, entry_state, transfer, edge_transfer=None):
    """Forward dataflow on normal edges.  States are frozensets; join = union.
    transfer(bb, in_state) -> out_state after the block's terminator (on normal return).
    Returns (IN, OUT) dicts."""
    IN = {0: frozenset(entry_state)}
    OUT = {}
    work = [0]
    while work:
        b = work.pop()
        st = IN.get(b, frozenset())
        out = frozenset(transfer(b, st))
        if OUT.get(b) == out and b in OUT:
            continue
        OUT[b] = out
        for s in body.succ[b]:
            o2 = out
            if edge_transfer is not None:
                o2 = frozenset(edge_transfer(b, s, out))
            new = IN.get(s, frozenset()) | o2
            if new != IN.get(s):
                IN[s] = new
                work.append(s)
    return IN, OUT
