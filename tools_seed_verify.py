#!/usr/bin/env python3
"""Confirm a sub-agent's seeded change in its own scratch worktree and file it under
/verif/seeded/<id>/ : (1) suite passes with the change, (2) demo fails with it, (3) demo passes
without it.  usage: tools_seed_verify.py C10 [/tmp/seed [letters]]"""
import json, os, re, shutil, subprocess, sys

prop = sys.argv[1]
root = sys.argv[2] if len(sys.argv) > 2 else "/tmp/seed"
letters = sys.argv[3] if len(sys.argv) > 3 else "ab"     # round 2 seeds are filed as <id>-c / <id>-d
wt = os.path.join(root, prop)
outd = os.path.join(root, prop + "-out")
meta = json.load(open(os.path.join(outd, "meta.json")))
env = dict(os.environ, CARGO_NET_OFFLINE="true", CARGO_TARGET_DIR=os.path.join(wt, "target"))


def sh(cmd, timeout=1800):
    r = subprocess.run(cmd, shell=True, cwd=wt, env=env, capture_output=True, text=True, timeout=timeout)
    return r.returncode, r.stdout + r.stderr


def suite_ok(out):
    res = re.findall(r"test result: (\w+)\. (\d+) passed; (\d+) failed", out)
    return bool(res) and all(r[0] == "ok" for r in res), res


for i, ch in enumerate(meta["changes"]):
    sid = "%s-%s" % (prop, letters[i] if i < len(letters) else str(i))
    patch = os.path.join(outd, ch["patch"])
    demo = os.path.join(outd, ch["demo"])
    demo_path = ch.get("demo_path", "tests/seed_demo_%d.rs" % (i + 1))
    tname = os.path.splitext(os.path.basename(demo_path))[0]
    # a demonstration of a cfg(not(feature = "tls")) change runs without default features
    flags = " --no-default-features" if "--no-default-features" in (ch.get("run") or "") else ""
    sh("git checkout -q -- . && git clean -fdq tests src")
    rc, o = sh("git apply --check %s && git apply %s" % (patch, patch))
    if rc != 0:
        print(sid, "PATCH DOES NOT APPLY", o[-500:]); continue
    rc, o = sh("cargo test --offline 2>&1")
    s_ok, s_res = suite_ok(o)
    shutil.copy(demo, os.path.join(wt, demo_path))
    rc_with, o_with = sh("timeout 900 cargo test --offline%s --test %s 2>&1" % (flags, tname))
    sh("git apply -R %s" % patch)
    rc_without, o_without = sh("timeout 900 cargo test --offline%s --test %s 2>&1" % (flags, tname))
    os.remove(os.path.join(wt, demo_path))
    sh("git checkout -q -- . && git clean -fdq tests src")
    confirmed = s_ok and rc_with != 0 and rc_without == 0
    print(sid, "suite_ok=%s %s demo_with_rc=%d demo_without_rc=%d => %s" % (s_ok, s_res, rc_with, rc_without, "CONFIRMED" if confirmed else "REJECTED"))
    if confirmed:
        d = os.path.join("/verif/seeded", sid)
        os.makedirs(d, exist_ok=True)
        shutil.copy(patch, os.path.join(d, "patch.diff"))
        shutil.copy(demo, os.path.join(d, os.path.basename(demo_path)))
        m = {"id": sid, "property": prop, "breaks": ch.get("what_breaks"), "needs_to_manifest": ch.get("needs_to_manifest"),
             "why_existing_tests_pass": ch.get("why_existing_tests_pass"), "demo": os.path.basename(demo_path), "demo_path": demo_path,
             "base_commit": subprocess.run("git rev-parse --short HEAD", shell=True, cwd=wt, capture_output=True, text=True).stdout.strip(),
             "confirmed_by_me": {"ran": ["git apply patch.diff; cargo test --offline (whole suite)", "cargo test --offline%s --test %s (with change)" % (flags, tname),
                                         "git apply -R; cargo test --offline%s --test %s (without change)" % (flags, tname)],
                                 "suite_results": s_res, "demo_fails_with_change": rc_with != 0, "demo_passes_without_change": rc_without == 0,
                                 "demo_failure_excerpt": "\n".join(l for l in o_with.splitlines() if "panicked" in l or "assert" in l.lower())[:600]},
             "source": "independent sub-agent given only the property text and a scratch worktree"}
        json.dump(m, open(os.path.join(d, "meta.json"), "w"), indent=1)
