"""C12 — the server never waits for input while it owes a flushed reply."""
import re

from engines import effects, typestate, readloop
from engines.paths import enumerate_paths
from engines.prog import cname, op_place, term_str, term_contains

CONFIGS = ["tls", "notls"]
LEVEL = "other"
EXPLANATION = (
    "Interprocedural typestate over MIR: the connection is `clean` (everything written so far was flushed to the transport) "
    "or `dirty`. Every call that may write to the connection — packet writers, shim callbacks that receive a writer, drops of "
    "writer types — makes it dirty; only the connection's flush makes it clean. At every call of the function that holds the "
    "single transport read site (the only place the server waits for input), in the handshake and in the command loop including "
    "the loop's back edge, the state must be clean on all incoming non-error paths. In addition: the flush function reaches the "
    "packet terminator and then the transport's flush on every Ok path; TLS wrappers delegate flush; buffered commands are parsed "
    "before the transport is read; nobody else reads the transport. Holds for all command sequences and arrival schedules because "
    "it is a property of every CFG path, not of sampled runs.")
ASSUMPTIONS = [
    "the transport's own flush() flushes (outside the crate); rustls StreamOwned::flush pushes buffered TLS records",
    "shim callbacks write only through the writer they are handed (they have no other handle to the connection: C18.ownership)",
]


def run(ctx, configs=None):
    for cfg in (configs or CONFIGS):
        prog = ctx.prog(cfg)
        roles, eff = effects.build(prog)
        ts = typestate.ConnTypestate(prog, roles, eff)
        ctx.rule("C12.clean-at-read", "connection typestate is clean at every call of the transport-reading function")
        ctx.rule("C12.flush-is-complete", "flush = packet terminator then transport flush on every Ok path; TLS wrappers delegate")
        ctx.rule("C12.parse-before-read", "buffered bytes are parsed before the transport is read")
        ctx.rule("C12.single-wait-site", "only the handshake and the command loop call the transport reader")
        for b in (roles.f_read, roles.f_term, roles.f_flush, roles.f_init, roles.f_run, roles.run_on, roles.f_new):
            ctx.fn(b)

        # ---- clean-at-read ------------------------------------------------------------------
        # constructor leaves nothing pending
        ctx.ob("C12.clean-at-read", "writes" not in eff.summ.get(roles.f_new.path, set()),
               "the connection constructor writes to the connection", fn=roles.f_new.path, construct="constructor", nontrivial=False)
        IN, _ = ts.run(roles.f_init, typestate.CLEAN, record=True)
        init_exit = set()
        for rb in roles.f_init.return_blocks():
            init_exit |= set(IN.get(rb, ()))
        obs = list(ts.read_obligations)
        IN2, _ = ts.run(roles.f_run, frozenset(init_exit or {typestate.CLEAN}), record=True)
        obs += list(ts.read_obligations)
        nsites = 0
        for body, bb, st in obs:
            nsites += 1
            ok = set(st) <= {typestate.CLEAN}
            ctx.ob("C12.clean-at-read", ok,
                   "the server may wait for input at %s with unflushed reply bytes (state %s)" % (body.where(bb), sorted(st)),
                   fn=body.path, construct="read-site", callee=roles.f_read.path, where=body.where(bb),
                   detail={"in_state": sorted(st), "witness": _witness(ts, body, bb)},
                   sample={"rule": "clean-at-read", "config": cfg, "fn": body.path, "site": body.where(bb), "in_state": sorted(st)})
        ctx.floor("C12.clean-at-read", "transport-reader call sites in handshake+loop (%s)" % cfg, nsites, 3 if cfg == "tls" else 2)
        ctx.ob("C12.clean-at-read", init_exit <= {typestate.CLEAN},
               "the handshake can finish successfully with unflushed bytes (state %s): the client would wait for the OK" % sorted(init_exit),
               fn=roles.f_init.path, construct="exit-state", where=roles.f_init.where(roles.f_init.return_blocks()[0]))
        # flush call sites feeding the loop
        nflush = sum(1 for b in (roles.f_init, roles.f_run) for _ in b.calls_to("^" + re.escape(roles.f_flush.path) + "$"))
        ctx.floor("C12.clean-at-read", "flush call sites in handshake+loop (%s)" % cfg, nflush, 2)

        # ---- flush-is-complete ---------------------------------------------------------------
        fl = roles.f_flush
        term_sites = [bb for bb, t in fl.calls() if cname(t["func"]) in prog.bodies and
                      (cname(t["func"]) == roles.f_term.path or roles.f_term.path in prog.reachable_fns([cname(t["func"])]))]
        tflush = []
        for bb, t in fl.calls_to(r"^std::io::Write::flush$"):
            pl = op_place(t["args"][0])
            o = fl.origin_place(pl, bb, len(fl.blocks[bb]["stmts"])) if pl else None
            if o and o[0] == "field" and o[2] == "rw":
                tflush.append(bb)
        ctx.ob("C12.flush-is-complete", len(term_sites) >= 1 and len(tflush) >= 1,
               "the connection flush must call the packet terminator and the transport's flush (found %d / %d)" % (len(term_sites), len(tflush)),
               fn=fl.path, construct="anchors", nontrivial=False)
        n_ok = 0
        for p in enumerate_paths(fl):
            if p.end != "return":
                continue
            from engines.paths import classify_return
            c = classify_return(p)
            if c == "err":
                continue
            n_ok += 1
            pos_t = [i for i, b in enumerate(p.blocks) if b in term_sites]
            pos_f = [i for i, b in enumerate(p.blocks) if b in tflush]
            ok = bool(pos_t) and bool(pos_f) and min(pos_t) < max(pos_f)
            ctx.ob("C12.flush-is-complete", ok, "an Ok path of the connection flush skips the pending packet or the transport flush",
                   fn=fl.path, construct="ok-path", where=fl.where(p.blocks[-1]),
                   sample={"rule": "flush-is-complete", "config": cfg, "path": p.blocks})
        ctx.floor("C12.flush-is-complete", "Ok paths of the connection flush", n_ok, 1)
        if cfg == "tls":
            n = 0
            for pat in (r"^<tls::SwitchableConn<T> as std::io::Write>::flush$", r"^<tls::PrependedReader<RW> as std::io::Write>::flush$"):
                for b in prog.find(pat):
                    ctx.fn(b)
                    for p in enumerate_paths(b):
                        if p.end != "return":
                            continue
                        inner = [t for _, _, t in p.calls() if t["func"]["path"] == "std::io::Write::flush"]
                        n += 1
                        ctx.ob("C12.flush-is-complete", len(inner) == 1, "%s: a path returns without delegating flush to the wrapped stream" % b.path,
                               fn=b.path, construct="delegation", where=b.where(p.blocks[-1]))
            ctx.floor("C12.flush-is-complete", "TLS wrapper flush delegation paths", n, 3)

        # ---- parse-before-read ---------------------------------------------------------------
        fr = roles.f_read
        read_bbs = [bb for (b, bb, t) in roles.read_sites]
        parser_sites = [bb for bb, t in fr.calls() if cname(t["func"]) in prog.bodies and
                        t["args"] and "[u8]" in (t.get("arg_tys") or [""])[0] and "nom::" in prog.bodies[cname(t["func"])].raw.get("sig_out", "")]
        ctx.ob("C12.parse-before-read", len(parser_sites) >= 1, "no packet parser call found in the transport reader", fn=fr.path,
               construct="anchor", nontrivial=False)
        npaths = 0
        for p in enumerate_paths(fr, stop_at=read_bbs, max_visits=1):
            if p.end != "stop":
                continue
            npaths += 1
            if any(b in parser_sites for b in p.blocks):
                ok = True
                why = "parsed first"
            else:
                # the path must have established that nothing is buffered: a branch on `remaining != 0` taken as false
                ok = False
                why = "no emptiness test"
                for i, b in enumerate(p.blocks[:-1]):
                    t = fr.term(b)
                    if t["k"] == "switch":
                        v = p.origin_op(t["discr"], i)
                        nxt = p.blocks[i + 1]
                        if _is_remaining_test(v):
                            taken_zero = (nxt == t["tgts"][t["vals"].index("0")]) if "0" in t["vals"] else False
                            neg = v[1] == "Ne"
                            # Ne(remaining,0) false -> remaining == 0 ; Eq(remaining,0) true -> remaining == 0
                            if (neg and taken_zero) or (not neg and not taken_zero):
                                ok = True
                                why = "remaining == 0 on this path"
            ctx.ob("C12.parse-before-read", ok, "the transport is read while buffered bytes were not offered to the packet parser (%s)" % why,
                   fn=fr.path, construct="path-to-read", where=fr.where(p.blocks[-1]),
                   sample={"rule": "parse-before-read", "config": cfg, "path": p.blocks, "why": why})
        ctx.floor("C12.parse-before-read", "entry-to-read paths", npaths, 2)
        # the same on the way round the loop: after a read that delivered bytes, the next wait must be preceded by a parse attempt
        n_rr = 0
        if len(read_bbs) == 1:
            for kind, p, okp, gates in readloop.unparsed_reads(fr, read_bbs[0], parser_sites, [("reread", read_bbs[0])]):
                n_rr += 1
                ctx.ob("C12.parse-before-read", okp, "after a read the server waits for input again without offering the buffered bytes to the packet parser (decisions: %s)" % gates[:3],
                       fn=fr.path, construct="reread", where=fr.where(p.blocks[-1]))

        # ---- single-wait-site ----------------------------------------------------------------
        callers = {b.path for b, _, _ in prog.callers_of("^" + re.escape(fr.path) + "$") if "::tests::" not in b.path}
        ctx.ob("C12.single-wait-site", callers <= {roles.f_init.path, roles.f_run.path},
               "the transport reader is called outside the handshake and the command loop: %s" % sorted(callers - {roles.f_init.path, roles.f_run.path}),
               fn=fr.path, construct="callers")


def _is_remaining_test(v):
    if not (isinstance(v, tuple) and v[0] == "bin" and v[1] in ("Ne", "Eq")):
        return False
    a, b = v[2], v[3]
    def is_rem(t):
        return isinstance(t, tuple) and t[0] == "field" and t[2] == "remaining"
    def is_zero(t):
        return isinstance(t, tuple) and t[0] == "const" and t[1][0] == "int" and t[1][1] == 0
    return (is_rem(a) and is_zero(b)) or (is_rem(b) and is_zero(a))


def _witness(ts, body, bb):
    """A shortest block path from a dirtying call to the read site without a flush (for reports)."""
    from collections import deque
    fl = ts.roles.f_flush.path
    dirty_sources = []
    for b in range(body.n):
        if body.is_cleanup(b):
            continue
        st = ts.transfer_term(body, b, frozenset([typestate.CLEAN]))
        if typestate.DIRTY in st:
            dirty_sources.append(b)
    for src in dirty_sources:
        q = deque([(s, [src, s]) for s in body.succ[src]])
        seen = set()
        while q:
            x, path = q.popleft()
            if x in seen:
                continue
            seen.add(x)
            if x == bb:
                return {"from": body.where(src), "blocks": path}
            t = body.term(x)
            if t["k"] == "call" and "indirect" not in t["func"] and cname(t["func"]) == fl:
                continue
            for s in body.succ[x]:
                q.append((s, path + [s]))
    return None
