#!/usr/bin/env python3
"""Regenerate the seeded-change matrix of DESIGN.md §9.6 from seeded/*/meta.json and the log of the last
`tools_seeded.py --own` run (argv[1]).  Only the table rows are replaced."""
import json, os, re, sys
HERE = os.path.dirname(os.path.abspath(__file__))
log = open(sys.argv[1]).read()
res = {}
for line in log.splitlines():
    m = re.match(r"^(C\d\d-\w+)\s+(CAUGHT|MISSED|PATCH-FAILED)\s*(.*)$", line)
    if m:
        res[m.group(1)] = (m.group(2), m.group(3).strip())
rows = []
for sid in sorted(res):
    meta = json.load(open(os.path.join(HERE, "seeded", sid, "meta.json")))
    what = (meta.get("breaks") or "").replace("\n", " ").replace("|", "/")
    what = what[:150] + ("…" if len(what) > 150 else "")
    st, by = res[sid]
    rows.append("| %s | %s |  %s |" % (sid, what, by if st == "CAUGHT" else "**%s**" % st))
p = os.path.join(HERE, "DESIGN.md")
s = open(p).read()
head = "| seed | what it breaks (sub-agent's words, shortened) | caught by (own property's check) |\n|---|---|---|\n"
i = s.index(head) + len(head)
j = s.index("\n\n", i)
s = s[:i] + "\n".join(rows) + s[j:]
open(p, "w").write(s)
print("rows:", len(rows), "not caught:", sum(1 for r in res.values() if r[0] != "CAUGHT"))
