"""E5 + a small E4: discharge of panic obligations by constant folding, type-derived intervals,
dominating branch facts and affine bounds.  Whatever is not discharged automatically must be in
the rule file's reasoned table or it is a violation."""
import re

from .prog import cname, op_place, int_range, fold, _cint
from . import terms as T
from . import cursor
from .terms import Aff


def dominating_facts(body, bb):
    """[(cond_term, truth)] for every switch on a boolean/discriminant that dominates bb with the
    taken side determined (exactly one successor of the switch reaches bb without passing the switch again)."""
    facts = []
    for s in sorted(body.dom.get(bb, ())):
        if s == bb:
            continue
        t = body.term(s)
        if t["k"] != "switch":
            continue
        succs = body.succ[s]
        reach = [x for x in succs if bb in body.reachable(x, avoid={s})]
        if len(reach) != 1:
            continue
        taken = reach[0]
        v = body.origin_op(t["discr"], s, len(body.blocks[s]["stmts"]))
        vals = [int(x) for x, g in zip(t["vals"], t["tgts"]) if g == taken]
        if taken == t["otherwise"] and not vals:
            facts.append((v, ("not", frozenset(int(x) for x in t["vals"]))))
        elif len(vals) == 1:
            facts.append((v, ("val", vals[0])))
    return facts


def truth_of(fact):
    """bool truth value of a boolean fact descriptor, or None."""
    k, x = fact
    if k == "val":
        return bool(x)
    if k == "not" and x == frozenset([0]):
        return True
    if k == "not" and x == frozenset([1]):
        return False
    return None


class Bounds:
    """Upper/lower bounds for atoms appearing in affine forms, derived from types, loop ranges and facts."""

    def __init__(self, body, bb, ptr_bits=64):
        self.body = body
        self.bb = bb
        self.facts = dominating_facts(body, bb)
        self.ptr_bits = ptr_bits
        self.rel = []   # (Aff e, ">=0") facts: e >= 0
        for v, f in self.facts:
            tr = truth_of(f)
            if tr is None:
                continue
            neg = False
            while isinstance(v, tuple) and v[0] == "un" and v[1] == "Not":
                v = v[2]
                neg = not neg
            if neg:
                tr = not tr
            if isinstance(v, tuple) and v[0] == "bin" and v[1] in ("Lt", "Le", "Gt", "Ge", "Eq", "Ne"):
                a, b = self.aff(v[2]), self.aff(v[3])
                op = v[1]
                if not tr:
                    op = {"Lt": "Ge", "Le": "Gt", "Gt": "Le", "Ge": "Lt", "Eq": "Ne", "Ne": "Eq"}[op]
                d = a.add(b, -1)   # a - b
                if op == "Lt":
                    self.rel.append(d.scale(-1).add(Aff(-1)))     # b - a - 1 >= 0
                elif op == "Le":
                    self.rel.append(d.scale(-1))
                elif op == "Gt":
                    self.rel.append(d.add(Aff(-1)))
                elif op == "Ge":
                    self.rel.append(d)
                elif op == "Eq":
                    self.rel.append(d)
                    self.rel.append(d.scale(-1))
            if T.is_call(v, r"(slice::<impl \[T\]>|Vec::<T, A>|str::<impl str>)::is_empty$") and tr is False:
                ln = self.len_atom(v[2][0])
                if ln is not None:
                    self.rel.append(ln.add(Aff(-1)))               # len - 1 >= 0

    # ---- affine forms with length atoms -----------------------------------------------------
    def len_atom(self, slice_term):
        """Affine form of the length of a slice-typed term."""
        base, off, ln = cursor.locate(slice_term)
        if ln is not None:
            return ln
        ap = T.access_path(base)
        if ap is not None:
            return Aff(0, {("len", ap): 1}).add(off, -1)
        return Aff(0, {("len", ("opaque", repr(T.peel(base))[:160])): 1}).add(off, -1)

    def aff(self, t):
        def atomize(x):
            if isinstance(x, tuple) and x[0] == "un" and x[1] == "PtrMetadata":
                return None
            return None
        # lengths: PtrMetadata(slice) and len(slice) calls
        if isinstance(t, tuple) and t[0] == "un" and t[1] == "PtrMetadata":
            return self.len_atom(t[2])
        if T.is_call(t, r"(slice::<impl \[T\]>::len|Vec::<T, A>::len)$"):
            return self.len_atom(t[2][0])
        if isinstance(t, tuple) and t[0] == "bin" and t[1] in ("Add", "Sub", "AddWithOverflow", "SubWithOverflow"):
            a, b = self.aff(t[2]), self.aff(t[3])
            return a.add(b, 1 if t[1].startswith("Add") else -1)
        if isinstance(t, tuple) and t[0] == "bin" and t[1] in ("Mul", "MulWithOverflow"):
            a, b = self.aff(t[2]), self.aff(t[3])
            if a.is_const():
                return b.scale(a.c)
            if b.is_const():
                return a.scale(b.c)
        if isinstance(t, tuple) and t[0] == "cast" and t[3] == "IntToInt" and (t[4], t[2]) in T._WIDEN_OK:
            return self.aff(t[1])
        if isinstance(t, tuple) and t[0] == "field" and isinstance(t[1], tuple) and t[1][0] == "bin" and t[3] == 0:
            return self.aff(t[1])
        return T.affine(t)

    # ---- interval of an origin term from types / loop ranges ------------------------------------
    def interval(self, t, depth=0):
        if depth > 30 or not isinstance(t, tuple):
            return None
        ci = T.const_int(t)
        if ci is not None:
            return (ci, ci)
        k = t[0]
        if k == "cast" and t[3] == "IntToInt":
            inner = self.interval(t[1], depth + 1)
            fr = int_range(t[4], self.ptr_bits)
            to = int_range(t[2], self.ptr_bits)
            if inner is None:
                inner = fr
            if inner is None or to is None:
                return to
            if to[0] <= inner[0] and inner[1] <= to[1]:
                return inner
            return to
        if k == "call" and len(t[2]) == 1 and isinstance(t[1], str):
            # lossless widening conversions: `usize::from(x_u16)`, `u64::from(x_u32)`, `x.into()` — the value, hence its range, is x's
            import re as _re
            m = _re.search(r"<([ui](?:8|16|32|64|128|size)) as std::convert::From<([ui](?:8|16|32|64|128|size))>>::from$", t[1])
            if not m:
                m2 = _re.search(r"<impl std::convert::From<([ui](?:8|16|32|64|128|size))> for ([ui](?:8|16|32|64|128|size))>::from$", t[1])
                if m2:
                    class _M:      # same groups, (target, source)
                        def __init__(s_, a, b): s_.a, s_.b = a, b
                        def group(s_, i): return s_.a if i == 1 else s_.b
                    m = _M(m2.group(2), m2.group(1))
            if m:
                inner = self.interval(t[2][0], depth + 1)
                fr = int_range(m.group(2), self.ptr_bits)
                to = int_range(m.group(1), self.ptr_bits)
                if inner is None:
                    inner = fr
                if inner is not None and to is not None and to[0] <= inner[0] and inner[1] <= to[1]:
                    return inner
                return to
        if k == "bin":
            op = t[1].replace("WithOverflow", "")
            a, b = self.interval(t[2], depth + 1), self.interval(t[3], depth + 1)
            ty = int_range(t[4], self.ptr_bits) if len(t) > 4 else None
            if a is None:
                a = ty
            if b is None:
                b = ty
            if a is None or b is None:
                return ty
            if op == "Add":
                return (a[0] + b[0], a[1] + b[1])
            if op == "Sub":
                return (a[0] - b[1], a[1] - b[0])
            if op == "Mul":
                c = [a[0] * b[0], a[0] * b[1], a[1] * b[0], a[1] * b[1]]
                return (min(c), max(c))
            if op == "Div" and b[0] > 0:
                return (a[0] // b[1], a[1] // b[0])
            if op == "Rem" and b[0] > 0:
                return (0, b[1] - 1)
            if op == "BitAnd" and b[0] == b[1] and b[0] >= 0:
                return (0, b[0])
            return ty
        if k == "field" and isinstance(t[1], tuple) and t[1][0] == "bin" and t[3] == 0:
            return self.interval(t[1], depth + 1)
        if k == "somepayload":
            # loop variable of `for i in a..b`
            nx = t[1]
            if T.is_call(nx, r"Iterator::next$|Iterator for std::ops::Range<A>>::next$"):
                rng = T.find(nx, lambda x: isinstance(x, tuple) and x[0] == "agg" and (x[2] or "").endswith("ops::Range"))
                if rng is not None:
                    a, b = self.interval(rng[4][0], depth + 1), self.interval(rng[4][1], depth + 1)
                    if a is not None and b is not None:
                        return (a[0], b[1] - 1)
        return None

    def loop_var_bound(self, t):
        """If t is the variable of `for i in 0..N` return Aff of N (i <= N-1), else None."""
        if isinstance(t, tuple) and t[0] == "somepayload" and T.is_call(t[1], r"Iterator::next$|Range<A>>::next$"):
            rng = T.find(t[1], lambda x: isinstance(x, tuple) and x[0] == "agg" and (x[2] or "").endswith("ops::Range"))
            if rng is not None and T.is_const_int(rng[4][0], 0):
                return self.aff(rng[4][1])
        return None

    # ---- proving e >= 0 --------------------------------------------------------------------------
    def prove_nonneg(self, e, loopvars=None):
        """Is affine e >= 0 under the collected facts?  Tries: constant; e == fact + nonneg const;
        substituting loop-variable upper bounds for atoms with negative coefficient."""
        if e.is_const():
            return e.c >= 0
        for r in self.rel:
            d = e.add(r, -1)
            if d.is_const() and d.c >= 0:
                return True
        if loopvars:
            # atoms with negative coefficient that are loop variables i <= N-1: e >= e[i := N-1]
            e2 = e
            changed = False
            for atom, coef in list(e.m.items()):
                if coef < 0 and atom in loopvars:
                    n = loopvars[atom]
                    e2 = e2.add(Aff(0, {atom: -coef}))              # remove coef*atom
                    e2 = e2.add(n.add(Aff(-1)).scale(coef))        # add coef*(N-1)
                    changed = True
            if changed:
                if e2.is_const():
                    return e2.c >= 0
                # remaining atoms all with nonneg coefficient and themselves nonneg (lengths, unsigned fields)
                if all(v >= 0 for v in e2.m.values()) and e2.c >= 0:
                    return True
                for r in self.rel:
                    d = e2.add(r, -1)
                    if d.is_const() and d.c >= 0:
                        return True
        if all(v >= 0 for v in e.m.values()) and e.c >= 0:
            return True   # all atoms are unsigned quantities (lengths, unsigned fields)
        return False
