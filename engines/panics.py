"""E5: enumeration of panic-capable constructs in a set of functions."""
import re

from .prog import cname, op_place

PANIC_CALLS = [
    (re.compile(r"^core::panicking::|^std::rt::panic_fmt$|^std::rt::begin_panic|^core::panicking::panic"), "panic"),
    (re.compile(r"(Option|Result)::<T(, E)?>::(unwrap|expect)$"), "unwrap"),
    (re.compile(r"Result::<T, E>::(unwrap_err|expect_err)$"), "unwrap"),
    (re.compile(r"slice::<impl \[T\]>::(split_at|split_at_mut|copy_from_slice|swap|chunks_exact|rotate_left|rotate_right)$"), "slice-op"),
    (re.compile(r"(ops::Index<.*>>::index|ops::IndexMut<.*>>::index_mut|^std::ops::Index::index$|^std::ops::IndexMut::index_mut$|Index<I> for \[T\]>::index$|Index<I> for \[T; N\]>::index$|IndexMut<I> for \[T\]>::index_mut$)"), "index"),
    (re.compile(r"Vec::<T, A>::(drain|remove|swap_remove|insert|split_off|truncate_front)$"), "vec-op"),
    (re.compile(r"byteorder::.*ByteOrder>::(write_u24|write_u16|write_u32|write_u64|read_u16|read_u24|read_u32|read_u64|write_uint|read_uint)$|byteorder::ByteOrder::(write_u24|read_u24)$"), "byteorder-slice"),
    (re.compile(r"Duration::new$|RefCell<T>::(borrow|borrow_mut)$|Option::<T>::expect$"), "misc"),
]


def classify_callee(name):
    for rx, kind in PANIC_CALLS:
        if rx.search(name):
            return kind
    return None


def sites(body):
    """[(kind, bb, detail)] of panic-capable constructs in non-cleanup blocks of body."""
    out = []
    for bb in range(body.n):
        if body.is_cleanup(bb):
            continue
        t = body.term(bb)
        if t["k"] == "assert":
            out.append(("assert:" + t["msg"], bb, t))
        elif t["k"] == "call":
            f = t["func"]
            if "indirect" in f:
                continue
            n = cname(f)
            k = classify_callee(n) or classify_callee(f["path"])
            if k == "index":
                # only range / usize indexing of slices, Vecs and arrays can panic; HashMap indexing too
                tys = t.get("arg_tys") or ["", ""]
                out.append(("index", bb, t))
            elif k:
                out.append((k, bb, t))
    return out
