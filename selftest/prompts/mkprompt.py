#!/usr/bin/env python3
"""Generate the prompt for a seeding sub-agent: mkprompt.py <Cxx> <root> [round]   (prints to stdout)
The agent sees only the property text and its scratch worktree; nothing from /verif."""
import json, os, re, sys, glob
HERE = os.path.dirname(os.path.abspath(__file__))
VERIF = os.path.dirname(os.path.dirname(HERE))
prop, root = sys.argv[1], sys.argv[2]
P = None
for line in open(os.path.join(VERIF, "properties.jsonl")):
    d = json.loads(line)
    if d["id"] == prop:
        P = d
wt = "%s/%s" % (root, prop)
rnd = sys.argv[3] if len(sys.argv) > 3 else "5"
tpl = open(os.path.join(HERE, "seed_round%s_template.txt" % ("6" if rnd == "7" else rnd))).read()
if rnd in ("6", "7"):
    a, b = json.load(open(os.path.join(HERE, "seed_round%s_sites.json" % rnd)))[prop]
    tpl = tpl.replace("<FILE_A>", a).replace("<FILE_B>", b)
tpl = tpl.replace("<ANCHOR_FILES>", ", ".join(P["anchors"]["files"]))
out = tpl.replace("<WORKTREE>", wt).replace("<PROP>", prop).replace("<TITLE>", P["title"]).replace("<STATEMENT>", P["statement"]) \
    .replace("<QUANT>", P["quantifier"]["text"]).replace("<WHY>", P["why_tests_cant"])
print(out)
