// D15 (C07): the blanket `impl ToMysqlValue for &T` forwards to_mysql_text / to_mysql_bin but not is_null(), so a NULL
// offered *by reference* (`write_col(&None::<i16>)`, `write_row(row.iter())` over Option cells, `&Value::NULL`) reports
// is_null() == false.  In binary mode write_col then does not set the NULL bit and calls Option::to_mysql_bin, which
// is `unreachable!()` for None: run_on panics instead of sending the row with its NULL bitmap.  `impl ToMysqlValue for
// Option<T>` has the same gap one level down: is_null() is `self.is_none()`, so Some(Value::NULL) reaches Value's encoder.
mod harness;
use harness::*;
use msql_srv::*;
use std::io;

struct Shim(bool);
impl MysqlShim<Pipe> for Shim {
    type Error = io::Error;
    fn on_prepare(&mut self, _: &str, i: StatementMetaWriter<'_, Pipe>) -> io::Result<()> { i.reply(1, &[], &[]) }
    fn on_execute(&mut self, _: u32, _: ParamParser<'_>, r: QueryResultWriter<'_, Pipe>) -> io::Result<()> {
        let col = |n: &str| Column { table: String::new(), column: n.into(), coltype: ColumnType::MYSQL_TYPE_SHORT, colflags: ColumnFlags::empty() };
        let cols = [col("a"), col("b"), col("c")];
        let mut w = r.start(&cols)?;
        if self.0 {
            let row: Vec<Option<i16>> = vec![Some(1), None, Some(3)];
            w.write_row(row.iter())?;          // cells are &Option<i16>
        } else {
            // the same through the other wrapper: Some(<a value that is itself NULL>), by value
            let row: Vec<Option<mysql_common::value::Value>> = vec![Some(mysql_common::value::Value::Int(1)), Some(mysql_common::value::Value::NULL), Some(mysql_common::value::Value::Int(3))];
            w.write_row(row)?;
        }
        w.finish()
    }
    fn on_close(&mut self, _: u32) {}
    fn on_query(&mut self, _: &str, r: QueryResultWriter<'_, Pipe>) -> io::Result<()> { r.completed(0, 0) }
}

fn check(by_ref: bool) {
    let mut bytes = handshake();
    bytes.extend(packet(0, b"\x16SELECT ?"));                        // COM_STMT_PREPARE
    bytes.extend(packet(0, &[0x17, 1, 0, 0, 0, 0, 1, 0, 0, 0]));     // COM_STMT_EXECUTE id 1, no params
    bytes.extend(packet(0, &[0x01]));                                // COM_QUIT
    let res = std::panic::catch_unwind(|| run(Shim(by_ref), bytes));
    let (r, out) = res.expect("run_on panicked on a NULL cell offered through a wrapper impl");
    assert!(r.is_ok(), "{:?}", r.err());
    let pkts = split(&out);
    // the row packet: 00 header, one bitmap byte with bit (1 + 2) set, then 1i16 and 3i16
    let row = pkts.iter().find(|p| p.1.first() == Some(&0x00) && p.1.len() == 6).expect("no binary row packet of 6 bytes");
    assert_eq!(row.1, vec![0x00, 0b0000_1000, 1, 0, 3, 0]);
}

#[test]
fn null_offered_by_reference_sets_the_null_bit() { check(true) }

#[test]
fn null_inside_some_sets_the_null_bit() { check(false) }
