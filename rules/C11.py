"""C11 — greeting is well-formed and no command is served before the shim authenticates."""
import re

from engines import effects, wire, constarr, cursor
from engines.paths import enumerate_paths, classify_return
from engines.prog import cname, term_str
from engines import terms as T
from engines.terms import Aff
from spec import handshake as H

CONFIGS = ["tls", "notls"]
LEVEL = "other"
EXPLANATION = (
    "Greeting bytes: on every path of the handshake function up to its first flush, all emissions are compile-time constants "
    "(one local two-byte array is OR-ed under the tls_config().is_some() test, folded by forward constant propagation); the "
    "analysis computes the byte strings, requires them to form exactly one packet followed by a flush, and parses them with an "
    "independent protocol-10 greeting parser: version 10, NUL-terminated version string, 8+NUL auth data, capability word with "
    "CLIENT_PROTOCOL_41 on every path and CLIENT_SSL exactly on the path where the shim offered a TLS configuration (never in "
    "the no-tls build), reserved zeros, NUL-terminated part 2 of at least 13 bytes. Response layout: cursor offsets of the "
    "capability words, user name and the 3.20 layout as affine offsets, selected by bit 0x0200. Gate: every Ok return of the "
    "handshake passes through exactly one call of after_authentication and its Ok arm; no other shim callback precedes it; the "
    "command loop is called only after the handshake returned Ok; the rejection arm writes ERR with the constant kind whose "
    "code/SQLSTATE are 1045/28000, flushes, and returns the shim's error. User name: the context handed to the shim carries "
    "to_vec() of the user-name slice of the last handshake response parsed on that path, and a client that asks for SSL without "
    "a TLS configuration is refused before after_authentication.")
ASSUMPTIONS = ["clients accept the fixed version string / salt (checked structurally only)", "nom take_until/tag semantics"]


def first_flushes(fi, roles):
    fl = [bb for bb, t in fi.calls() if cname(t["func"]) == roles.f_flush.path]
    # the first flush of every feasible path from the entry (path-sensitive: a helper's early `return Err` and its
    # caller's Ok branch do not combine, which plain CFG dominance cannot see)
    first = sorted({p.blocks[-1] for p in enumerate_paths(fi, stop_at=set(fl), max_visits=1) if p.end == "stop"})
    return fl, first


def run(ctx, configs=None):
    for cfg in (configs or CONFIGS):
        prog = ctx.prog(cfg)
        roles, eff = effects.build(prog)
        fi = roles.f_init
        ctx.fn(fi)
        ctx.rule("C11.greeting-bytes", "constant greeting computed per path and parsed as a protocol-10 handshake; SSL bit iff TLS offered")
        ctx.rule("C11.response-layout", "HandshakeResponse41/320 field offsets")
        ctx.rule("C11.gate", "after_authentication exactly once before Ok; ERR 1045/28000 + flush + shim error on rejection; loop only after Ok")
        ctx.rule("C11.username-flow", "user name handed to the shim = last parsed handshake response's user slice, copied")

        # ---- greeting ------------------------------------------------------------------------
        flushes, first = first_flushes(fi, roles)
        ctx.ob("C11.greeting-bytes", len(first) == 1, "the handshake must flush the greeting at one place before reading (found %s)" % first, fn=fi.path, construct="first-flush", nontrivial=False)
        n = 0
        seen = {}
        for p in enumerate_paths(fi, stop_at=set(first), max_visits=1):
            if p.end != "stop":
                continue
            n += 1
            out = b""
            const_ok = True
            npk = 0
            tls_offered = None
            for i, blk in enumerate(p.blocks[:-1]):
                t = fi.term(blk)
                if t["k"] == "switch" and "0" in t["vals"]:
                    v = p.origin_op(t["discr"], i)
                    if T.is_call(v, r"Option::<T>::is_some$") and T.contains(v, lambda x: T.is_call(x, r"MysqlShim::tls_config$")):
                        tls_offered = p.blocks[i + 1] != t["tgts"][t["vals"].index("0")]
            shim_before = [cname(t["func"]) for pos, bb, t in p.calls() if effects.is_shim_call(t) and t["func"].get("name") != "tls_config"]
            for pos, bb, t in p.calls():
                if pos == len(p.blocks) - 1:
                    continue
                em = wire.classify_call(p, pos, t)
                if em is None:
                    e = eff.of_call(fi, bb, t)
                    if "writes" in e or "reads" in e:
                        const_ok = False
                    continue
                if em.kind == "end_packet" or em.kind == "flush":
                    npk += 1
                    continue
                cb = em.const_bytes()
                if em.kind == "raw":
                    # a buffer built in a local array: the forward propagation sees element stores (`caps[1] |= 0x08`)
                    # that the def-use origin of the whole array does not
                    la = constarr.const_bytes_of_arg(p, pos, 1)
                    if la is not None:
                        cb = la
                if cb is None:
                    const_ok = False
                    out += b"?"
                else:
                    out += cb
            ok = const_ok and npk == 0 and not shim_before
            why = "greeting %r" % out
            info = None
            if not ok:
                why = "greeting is not a single constant packet before the first flush (const=%s, packet ends before flush=%d, shim calls=%s): %r" % (const_ok, npk, shim_before, out)
            else:
                try:
                    info = H.parse_handshake_v10(out)
                    cap = info["cap"]
                    want_ssl = bool(tls_offered) if cfg == "tls" else False
                    checks = [
                        (cap & H.CLIENT_PROTOCOL_41, "CLIENT_PROTOCOL_41 is not advertised"),
                        (bool(cap & H.CLIENT_SSL) == want_ssl, "CLIENT_SSL advertised=%s but TLS offered by the shim=%s (config %s)" % (bool(cap & H.CLIENT_SSL), tls_offered, cfg)),
                        ("charset" in info, "short (pre-4.1) greeting"),
                        (len(out) <= 0xFFFF00, "greeting too long"),
                    ]
                    for c, w in checks:
                        if not c:
                            ok = False
                            why = w
                            break
                except ValueError as e:
                    ok = False
                    why = "not a well-formed protocol-10 greeting: %s (%r)" % (e, out)
            ctx.ob("C11.greeting-bytes", ok, why, fn=fi.path, construct="greeting", callee="tls_offered=%s" % tls_offered, where=fi.where(p.blocks[-1]),
                   key_extra={"tls_offered": tls_offered},
                   sample={"rule": "greeting-bytes", "config": cfg, "tls_offered": tls_offered, "bytes": out.hex(), "capabilities": hex(info["cap"]) if info else None})
            seen[tls_offered] = out
        ctx.floor("C11.greeting-bytes", "greeting paths (%s)" % cfg, n, 2 if cfg == "tls" else 1)
        # the greeting carries sequence id 0: no sequence reset before the first flush
        pre = [bb for bb, t in fi.calls() if cname(t["func"]) == roles.f_setseq.path and first and fi.dominates(bb, first[0])]
        ctx.ob("C11.greeting-bytes", not pre, "the sequence id is reset before the greeting is sent", fn=fi.path, construct="greeting-seq", nontrivial=False)

        # ---- response layout -----------------------------------------------------------------
        ch = prog.one(r"^commands::client_handshake$")
        ctx.fn(ch)
        n41 = n320 = 0
        for p in enumerate_paths(ch, max_visits=1):
            if p.end != "return" or classify_return(p) != "ok":
                continue
            rv = p.return_value()
            agg = T.find(rv, lambda x: isinstance(x, tuple) and x[0] == "agg" and (x[2] or "").endswith("ClientHandshake"))
            if agg is None:
                continue
            d = dict(zip(agg[5], agg[4]))
            # which layout: the branch on PROTOCOL_41
            is41 = None
            for i, blk in enumerate(p.blocks[:-1]):
                t = ch.term(blk)
                if t["k"] == "switch" and "0" in t["vals"]:
                    v = p.origin_op(t["discr"], i)
                    if T.is_call(v, r"CapabilityFlags>::contains$") and v[2][1][0] == "const" and v[2][1][1][0] == "bits" and v[2][1][1][1] == H.CLIENT_PROTOCOL_41:
                        rd = T.find(v[2][0], lambda x: cursor.reading(x) is not None)
                        r0 = cursor.reading(rd) if rd is not None else None
                        if r0 is not None and r0["off"] == Aff(0) and r0["width"] == 2 and is41 is None:
                            is41 = p.blocks[i + 1] != t["tgts"][t["vals"].index("0")]
            user = d.get("username")
            uslice = None
            if user is not None and user[0] == "agg" and user[3] == "Some":
                uslice = user[4][0]
            elif user is not None and user[0] == "agg" and user[3] == "None":
                uslice = "none"
            caps = d.get("capabilities")
            cap_reads = sorted({(repr(cursor.reading(x)["off"]), cursor.reading(x)["width"]) for x in T.walk(caps) if cursor.reading(x) is not None})
            if is41:
                n41 += 1
                # the 32 bytes in front of the user name are read or skipped, never *matched*: a content test there (the reserved
                # bytes "are all zero", a particular collation, ..) refuses clients that put something else in them (MariaDB
                # connectors store extended capabilities in the reserved bytes) before the shim is asked
                for pos, blk, t in p.calls():
                    cn = cname(t["func"])
                    if re.search(r"^nom::bytes::complete::(tag|tag_no_case|is_a|is_not|take_while1|take_till1)::\{closure#0\}$|^nom::combinator::verify::\{closure#0\}$|^nom::character::complete::(char|one_of|none_of)::\{closure#0\}$", cn):
                        try:
                            a1 = p.arg(pos, 1)
                            if isinstance(a1, tuple) and a1[0] == "agg" and a1[1] == "tuple" and len(a1[4]) == 1:
                                a1 = a1[4][0]      # closures are called with their arguments as a tuple
                            b0, o0, l0 = cursor.locate(a1)
                        except Exception:
                            b0, o0 = None, None
                        if o0 is not None and o0.is_const() and o0.c < 32 and T.is_param(T.peel(b0), 1):
                            ctx.ob("C11.response-layout", False, "4.1 response: the bytes at offset %d (in front of the user name) are matched against a pattern by %s instead of being skipped: a client that sets them is refused before the shim is asked"
                                   % (o0.c, cn.split("::")[3] if cn.count("::") > 3 else cn), fn=ch.path, construct="content-test-before-user", where=ch.where(blk))
                # caps = from_bits_truncate((cap2 as u32) << 16 | cap as u32) with cap @0 (u16) and cap2 @2 (u16)
                shl = T.find(caps, lambda x: isinstance(x, tuple) and x[0] == "bin" and x[1] == "Shl" and T.is_const_int(x[3], 16))
                hi = cursor.reading(T.find(shl[2], lambda x: cursor.reading(x) is not None)) if shl is not None else None
                ok = cap_reads == [("0", 2), ("2", 2)] and hi is not None and hi["off"] == Aff(2)
                ctx.ob("C11.response-layout", ok, "4.1 response: capability words are read at %s (need low word @0, high word @2 shifted by 16)" % cap_reads, fn=ch.path,
                       construct="caps41", where=ch.where(p.blocks[-1]))
                if uslice not in (None, "none"):
                    base, off, ln = cursor.locate(uslice)
                    ok = T.is_param(T.peel(base), 1) and off == Aff(32)
                    ctx.ob("C11.response-layout", ok, "4.1 response: user name read at offset %r (need 32)" % off, fn=ch.path, construct="user41", where=ch.where(p.blocks[-1]),
                           sample={"rule": "response-layout", "layout": "4.1", "user_offset": repr(off)})
                    # NUL-terminated: the value part of take_until(b"\0")
                    ctx.ob("C11.response-layout", cursor.delimited_by(uslice) == b"\0", "4.1 response: user name is not delimited by NUL", fn=ch.path, construct="user41-nul", nontrivial=False)
                if uslice == "none":
                    # allowed only for the pre-TLS SSLRequest: !after_tls && caps.contains(CLIENT_SSL)
                    conds = {}
                    for i, blk, v, truth in p.decisions():
                        if T.is_param(v, 2):
                            conds["after_tls"] = truth
                        if T.is_call(v, r"CapabilityFlags>::contains$") and v[2][1][0] == "const" and v[2][1][1][1] == H.CLIENT_SSL:
                            conds["ssl"] = truth
                    ctx.ob("C11.response-layout", conds.get("after_tls") is False and conds.get("ssl") is True,
                           "the user name is skipped on a path with %s (only the pre-TLS SSL request may omit it)" % conds, fn=ch.path, construct="user-skipped",
                           where=ch.where(p.blocks[-1]))
            elif is41 is False:
                n320 += 1
                ok = cap_reads == [("0", 2)]
                base, off, ln = cursor.locate(uslice) if uslice not in (None, "none") else (None, None, None)
                ok = ok and off == Aff(5)
                ctx.ob("C11.response-layout", ok, "3.20 response: caps read at %s, user name at %r (need caps @0 u16, user @5)" % (cap_reads, off), fn=ch.path,
                       construct="layout320", where=ch.where(p.blocks[-1]), sample={"rule": "response-layout", "layout": "3.20", "user_offset": repr(off)})
            else:
                ctx.ob("C11.response-layout", False, "an Ok path of the handshake parser does not test CLIENT_PROTOCOL_41 on the first capability word", fn=ch.path,
                       construct="layout-select", where=ch.where(p.blocks[-1]))
        ctx.floor("C11.response-layout", "4.1 layout Ok paths", n41, 2)
        ctx.floor("C11.response-layout", "3.20 layout Ok paths", n320, 1)

        # ---- gate -------------------------------------------------------------------------------
        ro = roles.run_on
        ctx.fn(ro)
        b1, b2 = roles.run_on_sites
        # the loop call is reachable only through the Continue arm of `?` on the handshake result
        t2 = ro.arg_origin(b2, 0)
        ok = ro.dominates(b1, b2)
        sw = None
        for bb in range(ro.n):
            t = ro.term(bb)
            if t["k"] == "switch" and not ro.is_cleanup(bb):
                v = ro.origin_op(t["discr"], bb, len(ro.blocks[bb]["stmts"]))
                if v[0] == "discr" and T.contains(v, lambda x: T.is_call(x, "^" + re.escape(fi.path) + "$")):
                    sw = (bb, t)
        if sw is not None:
            bb, t = sw
            cont = t["tgts"][t["vals"].index("0")] if "0" in t["vals"] else None
            ok = ok and cont is not None and b2 in ro.reachable(cont) and all(b2 not in ro.reachable(g) for v_, g in zip(t["vals"], t["tgts"]) if v_ != "0")
        else:
            ok = False
        ctx.ob("C11.gate", ok, "the command loop must be entered only after the handshake returned Ok", fn=ro.path, construct="loop-after-init", where=ro.where(b2))
        # authentication happens in the handshake and nowhere else: a second call site (re-authentication in the command loop, a helper
        # of a new command) is a second gate with its own, unchecked, rejection path
        callers_ = sorted({b_.path for b_ in prog.non_test_fns() for _, t_ in b_.calls() if effects.is_shim_call(t_) and not t_["func"].get("rpath")
                           and t_["func"].get("name") == "after_authentication"})
        ctx.ob("C11.gate", callers_ == [fi.path], "after_authentication is called from %s (need the handshake function %s only: exactly once per connection, before any command)" % (callers_, fi.path),
               fn=fi.path, construct="sole-authenticator", nontrivial=False)
        n_ok = n_rej = 0
        for p in enumerate_paths(fi, max_visits=1, limit=100000):
            if p.end != "return":
                continue
            cls = classify_return(p)
            shim_calls = [(pos, t["func"].get("name")) for pos, bb, t in p.calls() if effects.is_shim_call(t) and not t["func"].get("rpath")]
            auth = [x for x in shim_calls if x[1] == "after_authentication"]
            others = [x for x in shim_calls if x[1] not in ("after_authentication", "tls_config")]
            ctx.ob("C11.gate", not others, "the handshake calls shim callbacks %s" % [x[1] for x in others], fn=fi.path, construct="no-other-callback", nontrivial=False)
            if cls == "ok":
                n_ok += 1
                ok = len(auth) == 1
                why = "after_authentication called %d times on an accepting path" % len(auth)
                if ok:
                    # the accepting path took the Ok arm of the shim's verdict
                    pos = auth[0][0]
                    took_ok = None
                    for i in range(pos, len(p.blocks) - 1):
                        t = fi.term(p.blocks[i])
                        if t["k"] == "switch":
                            v = p.origin_op(t["discr"], i)
                            if v[0] == "discr" and T.is_call(v[1], r"Result<T, E> as std::ops::Try>::branch$") and len(v[1][2]) == 1:
                                v = ("discr", v[1][2][0])     # `verdict?`: Continue = 0 exactly when the verdict is Ok = 0
                            if v[0] == "discr" and T.is_call(v[1], r"MysqlShim::after_authentication$"):
                                tk = p.blocks[i + 1] == (t["tgts"][t["vals"].index("0")] if "0" in t["vals"] else t["otherwise"])
                                if "0" not in t["vals"] and "1" in t["vals"]:
                                    tk = p.blocks[i + 1] != t["tgts"][t["vals"].index("1")]
                                took_ok = tk if took_ok is None else (took_ok and tk)
                            elif T.is_call(v, r"Result::<T, E>::(is_ok|is_err)$") and T.is_call(T.peel(v[2][0]), r"MysqlShim::after_authentication$") and "0" in t["vals"]:
                                truth = p.blocks[i + 1] != t["tgts"][t["vals"].index("0")]
                                tk = truth if v[1].endswith("is_ok") else not truth
                                took_ok = tk if took_ok is None else (took_ok and tk)
                    ok = took_ok is True
                    why = "an accepting path does not depend on after_authentication returning Ok"
                    if ok:
                        ev = [(pos2, wire.classify_call(p, pos2, t) or cname(t["func"])) for pos2, bb, t in p.calls() if pos2 > pos]
                        wrote_ok = [1 for pos2, bb, t in p.calls() if pos2 > pos and cname(t["func"]) == "writers::write_ok_packet"]
                        flushed = [1 for pos2, bb, t in p.calls() if pos2 > pos and cname(t["func"]) == roles.f_flush.path]
                        ok = len(wrote_ok) == 1 and len(flushed) >= 1
                        why = "after acceptance the client must receive exactly one OK, flushed (OK x%d, flush x%d)" % (len(wrote_ok), len(flushed))
                ctx.ob("C11.gate", ok, "handshake Ok path: " + why, fn=fi.path, construct="accept-path", where=fi.where(p.blocks[-1]),
                       sample={"rule": "gate", "config": cfg, "path_len": len(p.blocks)} if n_ok < 3 else None)
            else:
                rv = p.return_value()
                if (rv[0] == "agg" and rv[3] == "Err" and T.contains(rv, lambda x: T.is_call(x, r"MysqlShim::after_authentication$"))) or \
                        (rv[0] == "call" and "from_residual" in rv[1] and T.contains(rv, lambda x: isinstance(x, tuple) and x and x[0] == "errresidual" and T.is_call(x[1], r"MysqlShim::after_authentication$"))):
                    n_rej += 1
                    pos = auth[0][0] if auth else 0
                    errw = [(pos2, t) for pos2, bb, t in p.calls() if pos2 > pos and cname(t["func"]) == "writers::write_err"]
                    flushed = [pos2 for pos2, bb, t in p.calls() if pos2 > pos and cname(t["func"]) == roles.f_flush.path]
                    ok = len(errw) == 1 and flushed and flushed[-1] > errw[0][0]
                    kind = None
                    if errw:
                        k = p.arg(errw[0][0], 0)
                        if k[0] == "agg" and (k[2] or "").endswith("ErrorKind"):
                            kind = k[3]
                    ek = [a for pth, a in prog.adts.items() if pth.endswith("ErrorKind") and a["local"]]
                    code = None
                    if kind and ek:
                        code = [int(v["discr"]) for v in ek[0]["variants"] if v["name"] == kind]
                    ok = ok and code == [H.ACCESS_DENIED[0]]
                    # "run_on returns the shim's error": once the shim has refused, nothing that can fail in another way stands between
                    # the flushed ERR and the return — in particular no further read from the client, whose failure (or a hang-up in
                    # the middle of what the client pipelined) would be returned instead of the refusal
                    rd = [cname(t["func"]) for pos2, bb, t in p.calls() if pos2 > pos and cname(t["func"]) == roles.f_read.path]
                    ctx.ob("C11.gate", not rd, "rejection path reads from the client again (%s) before returning the shim's error" % ", ".join(sorted(set(rd))), fn=fi.path,
                           construct="reject-no-read", where=fi.where(p.blocks[-1]), nontrivial=False)
                    ctx.ob("C11.gate", ok, "rejection path: ERR kind %s (code %s), ERR writes %d, flush after ERR %s (need 1045, one ERR, flushed)" % (kind, code, len(errw), bool(flushed)),
                           fn=fi.path, construct="reject-path", where=fi.where(p.blocks[-1]), sample={"rule": "gate/reject", "kind": kind, "code": code})
        ctx.floor("C11.gate", "accepting paths (%s)" % cfg, n_ok, 2 if cfg == "tls" else 1)
        ctx.floor("C11.gate", "rejecting paths (%s)" % cfg, n_rej, 2 if cfg == "tls" else 1)
        # SQLSTATE of the rejection kind
        ss = prog.one(r"errorcodes::ErrorKind::sqlstate$")
        from engines import tables
        ek_ = [a for k_, a in prog.adts.items() if k_.endswith("errorcodes::ErrorKind")]
        stab, _open = tables.value_table(ss, lambda t: isinstance(t, tuple) and t[0] == "discr" and T.is_param(T.peel(t[1]), 1),
                                         universe={int(v["discr"]) for v in ek_[0]["variants"]} if ek_ else None)
        st = sorted({T.const_bytes(T.peel(rv)) for rv in stab.get(H.ACCESS_DENIED[0], [])}, key=lambda x: x or b"")
        ctx.ob("C11.gate", st == [H.ACCESS_DENIED[1]], "SQLSTATE of code 1045 is %s (need 28000)" % st, fn=ss.path, construct="sqlstate-1045", nontrivial=False)

        # ---- username flow / SSL refusal -------------------------------------------------------------
        n = 0
        for p in enumerate_paths(fi, max_visits=1, limit=100000):
            auth = [(pos, bb, t) for pos, bb, t in p.calls() if effects.is_shim_call(t) and t["func"].get("name") == "after_authentication"]
            if not auth or p.end != "return":
                continue
            pos, bb, t = auth[0]
            n += 1
            # the context's username at the call: last store to auth_context.username on this path
            ctxp = t["args"][1]
            ctx_local = None
            from engines.prog import op_place
            pl = op_place(ctxp)
            cur = pl["l"] if pl else None
            cpos = pos
            for _ in range(8):
                d = p._find_def(cur, cpos, None) if cur is not None else None
                if not (d and d[0] == "s"):
                    break
                rvv = fi.blocks[p.blocks[d[1]]]["stmts"][d[2]]["rv"]
                src = rvv["place"] if rvv["k"] == "ref" else (op_place(rvv["op"]) if rvv["k"] == "use" else None)
                if src is None or [e for e in src["p"] if e != "deref"]:
                    break
                ctx_local = src["l"]
                cur = src["l"]
                cpos = d[1]
                # stop when the local is the context itself (not a reference local)
                if not fi.local_ty(cur).startswith("&"):
                    break
            uname = None
            if ctx_local is not None:
                uname = p.origin_place({"l": ctx_local, "p": [{"f": 0, "n": "username", "ty": "", "of": ""}]}, pos, None)
            # expected: Option::map(handshake.username, |x| x.to_vec()) of the LAST client_handshake call before pos
            parses = [pos2 for pos2, bb2, t2 in p.calls() if pos2 < pos and cname(t2["func"]) == "commands::client_handshake"]
            ok = False
            why = "username passed to the shim is %s" % (term_str(uname)[:160] if uname else None)
            if uname is not None and parses:
                last = p.blocks[parses[-1]]
                src = T.find(uname, lambda x: T.is_call(x, r"^commands::client_handshake$"))
                is_map = T.is_call(uname, r"Option::<T>::map$") and T.is_field(T.peel(uname[2][0]), "username")
                clos = uname[2][1] if is_map else None
                tovec = False
                if clos is not None and clos[0] in ("agg", "const"):
                    cp = clos[2] if clos[0] == "agg" else clos[1][1]
                    cb = prog.bodies.get(cp)
                    if cb is not None:
                        calls = [cname(t3["func"]) for _, t3 in cb.calls()]
                        tovec = len(calls) == 1 and re.search(r"slice::<impl \[T\]>::to_vec$|to_owned$", calls[0]) is not None
                ok = is_map and tovec and src is not None and src[3] == ("site", last)
                why = "username = %s ; last parsed response at bb%d ; closure copies=%s" % (term_str(uname)[:120], last, tovec)
                if not ok and uname[0] == "agg" and (uname[2] or "").endswith("option::Option"):
                    # the same written as (or expanded to) a match: Some(u) => Some(u.to_vec()), None => None
                    def from_last(x):
                        c = T.find(x, lambda y: T.is_call(y, r"^commands::client_handshake$"))
                        return T.is_field(T.peel(x), "username") and c is not None and c[3] == ("site", last)
                    if uname[3] == "Some" and len(uname[4]) == 1:
                        cp_ = uname[4][0]
                        ok = T.is_call(cp_, r"slice::<impl \[T\]>::to_vec$|to_owned$|Vec<T>>::from$") and len(cp_[2]) == 1 and \
                            isinstance(T.peel(cp_[2][0], payloads=False), tuple) and T.peel(cp_[2][0], payloads=False)[0] == "somepayload" and from_last(T.peel(cp_[2][0], payloads=False)[1])
                    elif uname[3] == "None":
                        for i_, blk_ in enumerate(p.blocks[:pos]):
                            tt_ = fi.term(blk_)
                            if tt_["k"] == "switch":
                                dv_ = p.origin_op(tt_["discr"], i_)
                                if isinstance(dv_, tuple) and dv_[0] == "discr" and from_last(dv_[1]):
                                    taken = [x for x, g in zip(tt_["vals"], tt_["tgts"]) if g == p.blocks[i_ + 1]]
                                    ok = taken == ["0"] or (not taken and "0" not in tt_["vals"])
            ctx.ob("C11.username-flow", ok, "the user name handed to after_authentication is not a copy of the last handshake response's user name: " + why, fn=fi.path,
                   construct="username", where=fi.where(bb), sample={"rule": "username-flow", "config": cfg, "responses_parsed": len(parses)} if n < 4 else None)
            # a client that requested SSL must not reach the shim without a TLS switch
            ssl_true = False
            for i in range(0, pos):
                tt = fi.term(p.blocks[i])
                if tt["k"] == "switch" and "0" in tt["vals"]:
                    v = p.origin_op(tt["discr"], i)
                    if T.is_call(v, r"CapabilityFlags>::contains$") and v[2][1][0] == "const" and v[2][1][1][0] == "bits" and v[2][1][1][1] == H.CLIENT_SSL:
                        if p.blocks[i + 1] != tt["tgts"][tt["vals"].index("0")]:
                            ssl_true = True
            switched = any(cname(t2["func"]).endswith("::switch_to_tls") for pos2, bb2, t2 in p.calls() if pos2 < pos)
            if ssl_true:
                ctx.ob("C11.username-flow", switched and len(parses) == 2,
                       "a client that set CLIENT_SSL reaches after_authentication without a TLS upgrade and a second (encrypted) handshake response", fn=fi.path,
                       construct="ssl-without-tls", where=fi.where(bb))
            else:
                tested = any(T.is_call(p.origin_op(fi.term(p.blocks[i])["discr"], i), r"CapabilityFlags>::contains$") for i in range(0, pos) if fi.term(p.blocks[i])["k"] == "switch")
                ctx.ob("C11.username-flow", tested, "after_authentication is reached without testing whether the client requested SSL", fn=fi.path, construct="ssl-tested",
                       where=fi.where(bb), nontrivial=False)
        ctx.floor("C11.username-flow", "paths reaching after_authentication (%s)" % cfg, n, 2)
