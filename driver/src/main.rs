//! msqlx — rustc_private driver that exports the type-checked program (MIR at opt-level 0,
//! resolved callees, evaluated constants, ADT tables, impl tables, signatures) of one crate
//! as a single JSON document. Injected with RUSTC_WORKSPACE_WRAPPER under `cargo +nightly check`.
//!
//! Environment:
//!   MSQLX_OUT    path of the JSON file to write (required for export)
//!   MSQLX_CRATE  crate name to export (default msql_srv)
//!   MSQLX_NONCE  echoed into the document so a replayed cargo invocation is detected
//!   MSQLX_CONFIG free-text configuration label echoed into the document
#![feature(rustc_private)]
#![allow(clippy::all)]

extern crate rustc_abi;
extern crate rustc_data_structures;
extern crate rustc_driver;
extern crate rustc_hir;
extern crate rustc_index;
extern crate rustc_interface;
extern crate rustc_middle;
extern crate rustc_session;
extern crate rustc_span;

use std::collections::HashSet;
use std::fmt::Write as _;

use rustc_driver::Compilation;
use rustc_hir::def::DefKind;
use rustc_hir::def_id::{DefId, LocalDefId, LOCAL_CRATE};
use rustc_middle::mir::{
    self, AggregateKind, BasicBlock, Body, BorrowKind, CastKind, ConstOperand, ConstValue, Operand, Place,
    ProjectionElem, Rvalue, StatementKind, TerminatorKind, UnwindAction,
};
use rustc_middle::ty::print::with_no_trimmed_paths;
use rustc_middle::ty::{self, Instance, Ty, TyCtxt, TypingEnv};
use rustc_span::Span;

fn q(s: &str) -> String {
    let mut o = String::with_capacity(s.len() + 2);
    o.push('"');
    for c in s.chars() {
        match c {
            '"' => o.push_str("\\\""),
            '\\' => o.push_str("\\\\"),
            '\n' => o.push_str("\\n"),
            '\r' => o.push_str("\\r"),
            '\t' => o.push_str("\\t"),
            c if (c as u32) < 0x20 => {
                let _ = write!(o, "\\u{:04x}", c as u32);
            }
            c => o.push(c),
        }
    }
    o.push('"');
    o
}

fn opt_q(s: Option<String>) -> String {
    match s {
        Some(s) => q(&s),
        None => "null".to_string(),
    }
}

fn join(v: Vec<String>) -> String {
    let mut o = String::from("[");
    for (i, s) in v.iter().enumerate() {
        if i > 0 {
            o.push(',');
        }
        o.push_str(s);
    }
    o.push(']');
    o
}

struct Cx<'tcx> {
    tcx: TyCtxt<'tcx>,
    adts: Vec<DefId>,
    adt_seen: HashSet<DefId>,
}

impl<'tcx> Cx<'tcx> {
    fn add_adt(&mut self, did: DefId) {
        if self.adt_seen.insert(did) {
            self.adts.push(did);
        }
    }

    fn path(&self, did: DefId) -> String {
        with_no_trimmed_paths!(self.tcx.def_path_str(did))
    }

    fn tys(&mut self, ty: Ty<'tcx>) -> String {
        self.note_ty(ty, 0);
        with_no_trimmed_paths!(ty.to_string())
    }

    fn note_ty(&mut self, ty: Ty<'tcx>, depth: usize) {
        if depth > 6 {
            return;
        }
        match ty.kind() {
            ty::Adt(def, args) => {
                self.add_adt(def.did());
                for a in args.iter() {
                    if let Some(t) = a.as_type() {
                        self.note_ty(t, depth + 1);
                    }
                }
            }
            ty::Ref(_, t, _) | ty::Slice(t) | ty::Array(t, _) => self.note_ty(*t, depth + 1),
            ty::RawPtr(t, _) => self.note_ty(*t, depth + 1),
            ty::Tuple(ts) => {
                for t in ts.iter() {
                    self.note_ty(t, depth + 1);
                }
            }
            _ => {}
        }
    }

    fn line(&self, span: Span) -> (String, usize) {
        let sm = self.tcx.sess.source_map();
        let sp = span.source_callsite();
        let sp = if sp.from_expansion() { outermost(sp) } else { sp };
        let loc = sm.lookup_char_pos(sp.lo());
        let f = format!("{}", loc.file.name.prefer_local_unconditionally());
        (f, loc.line)
    }

    fn exp(&self, span: Span) -> String {
        if !span.from_expansion() {
            return "null".to_string();
        }
        let mut names = Vec::new();
        for d in span.macro_backtrace() {
            names.push(q(&d.kind.descr()));
        }
        let d = span.ctxt().outer_expn_data();
        let kind = match d.kind {
            rustc_span::ExpnKind::Macro(_, _) => "macro",
            rustc_span::ExpnKind::Desugaring(_) => "desugar",
            rustc_span::ExpnKind::AstPass(_) => "astpass",
            rustc_span::ExpnKind::Root => "root",
        };
        format!("{{\"kind\":{},\"descr\":{},\"macros\":{}}}", q(kind), q(&d.kind.descr()), join(names))
    }

    fn place(&mut self, body: &Body<'tcx>, p: Place<'tcx>) -> String {
        let tcx = self.tcx;
        let mut elems = Vec::new();
        for (i, elem) in p.projection.iter().enumerate() {
            let base = Place::ty_from(p.local, &p.projection[..i], &body.local_decls, tcx);
            let e = match elem {
                ProjectionElem::Deref => "\"deref\"".to_string(),
                ProjectionElem::Field(f, fty) => {
                    let name = match base.ty.kind() {
                        ty::Adt(def, _) => {
                            let v = base.variant_index.unwrap_or(rustc_abi::FIRST_VARIANT);
                            if v.as_usize() < def.variants().len() {
                                let var = def.variant(v);
                                if f.as_usize() < var.fields.len() {
                                    Some(var.fields[f].name.to_string())
                                } else {
                                    None
                                }
                            } else {
                                None
                            }
                        }
                        _ => None,
                    };
                    let bt = self.tys(base.ty);
                    format!(
                        "{{\"f\":{},\"n\":{},\"ty\":{},\"of\":{}}}",
                        f.as_usize(),
                        opt_q(name),
                        q(&self.tys(fty)),
                        q(&bt)
                    )
                }
                ProjectionElem::Index(l) => format!("{{\"idx\":{}}}", l.as_usize()),
                ProjectionElem::ConstantIndex { offset, min_length, from_end } => {
                    format!("{{\"cidx\":{},\"min\":{},\"from_end\":{}}}", offset, min_length, from_end)
                }
                ProjectionElem::Subslice { from, to, from_end } => {
                    format!("{{\"sub\":[{},{}],\"from_end\":{}}}", from, to, from_end)
                }
                ProjectionElem::Downcast(sym, v) => {
                    let name = match sym {
                        Some(s) => Some(s.to_string()),
                        None => match base.ty.kind() {
                            ty::Adt(def, _) if v.as_usize() < def.variants().len() => {
                                Some(def.variant(v).name.to_string())
                            }
                            _ => None,
                        },
                    };
                    format!("{{\"dc\":{},\"n\":{}}}", v.as_usize(), opt_q(name))
                }
                _ => "\"other\"".to_string(),
            };
            elems.push(e);
        }
        format!("{{\"l\":{},\"p\":{}}}", p.local.as_usize(), join(elems))
    }

    fn bytes_of_alloc(&self, alloc_id: rustc_middle::mir::interpret::AllocId, off: usize, len: usize) -> Option<Vec<u8>> {
        let ga = self.tcx.try_get_global_alloc(alloc_id)?;
        let mem = match ga {
            rustc_middle::mir::interpret::GlobalAlloc::Memory(m) => m,
            rustc_middle::mir::interpret::GlobalAlloc::Static(did) => match self.tcx.eval_static_initializer(did) {
                Ok(m) => m,
                Err(_) => return None,
            },
            _ => return None,
        };
        let a = mem.inner();
        if off + len > a.len() {
            return None;
        }
        Some(a.inspect_with_uninit_and_ptr_outside_interpreter(off..off + len).to_vec())
    }

    fn const_bytes(&mut self, val: ConstValue, ty: Ty<'tcx>) -> Option<Vec<u8>> {
        let tcx = self.tcx;
        // &str, &[u8], &[u8; N]
        let inner = match ty.kind() {
            ty::Ref(_, t, _) => *t,
            _ => return None,
        };
        match inner.kind() {
            ty::Str => val.try_get_slice_bytes_for_diagnostics(tcx).map(|b| b.to_vec()),
            ty::Slice(e) if e.is_integral() && *e == tcx.types.u8 => {
                val.try_get_slice_bytes_for_diagnostics(tcx).map(|b| b.to_vec())
            }
            ty::Array(e, n) if *e == tcx.types.u8 => {
                let n = n.try_to_target_usize(tcx)? as usize;
                match val {
                    ConstValue::Scalar(mir::interpret::Scalar::Ptr(ptr, _)) => {
                        let (prov, off) = ptr.into_raw_parts();
                        self.bytes_of_alloc(prov.alloc_id(), off.bytes() as usize, n)
                    }
                    _ => None,
                }
            }
            _ => None,
        }
    }

    fn constant(&mut self, owner: DefId, c: &ConstOperand<'tcx>) -> String {
        let tcx = self.tcx;
        let ty = c.const_.ty();
        let mut parts = vec![format!("\"ty\":{}", q(&self.tys(ty)))];
        let env = TypingEnv::post_analysis(tcx, owner);
        if let ty::FnDef(did, args) = ty.kind() {
            parts.push(format!("\"fn\":{}", self.fnref(owner, *did, args)));
        } else if let ty::Closure(did, _) = ty.kind() {
            parts.push(format!("\"closure\":{}", q(&self.path(*did))));
        }
        if let mir::Const::Unevaluated(uv, _) = c.const_ {
            if let Some(p) = uv.promoted {
                parts.push(format!("\"promoted\":{}", p.as_usize()));
            } else {
                parts.push(format!("\"uneval\":{}", q(&self.path(uv.def))));
            }
        }
        if ty.is_integral() || ty.is_bool() || ty.is_char() {
            if let Some(si) = c.const_.try_eval_scalar_int(tcx, env) {
                let size = si.size();
                let bits = si.to_bits(size);
                let v: String = if ty.is_signed() {
                    let sh = 128 - size.bits();
                    let sv = if sh >= 128 { 0i128 } else { ((bits as i128) << sh) >> sh };
                    sv.to_string()
                } else {
                    bits.to_string()
                };
                parts.push(format!("\"int\":{}", q(&v)));
            }
        } else if ty.is_floating_point() {
            parts.push(format!("\"float\":{}", q(&format!("{:?}", c.const_))));
        } else if let ty::Ref(_, inner, _) = ty.kind()
            && (inner.is_integral() || inner.is_bool())
        {
            // a reference to a scalar constant (e.g. a promoted `&CONST`): export the pointee
            if let Ok(val) = c.const_.eval(tcx, env, c.span) {
                if let ConstValue::Scalar(mir::interpret::Scalar::Ptr(ptr, _)) = val {
                    let (prov, off) = ptr.into_raw_parts();
                    if let Ok(layout) = tcx.layout_of(env.as_query_input(*inner)) {
                        let n = layout.size.bytes() as usize;
                        if let Some(b) = self.bytes_of_alloc(prov.alloc_id(), off.bytes() as usize, n) {
                            let mut v: u128 = 0;
                            for (i, x) in b.iter().enumerate() {
                                v |= (*x as u128) << (8 * i);
                            }
                            let sv: String = if inner.is_signed() {
                                let sh = 128 - 8 * n as u32;
                                (((v as i128) << sh) >> sh).to_string()
                            } else {
                                v.to_string()
                            };
                            parts.push(format!("\"int\":{},\"via_ref\":true", q(&sv)));
                            parts[0] = format!("\"ty\":{}", q(&self.tys(*inner)));
                        }
                    }
                }
            }
        } else if let ty::Array(e, n) = ty.kind()
            && *e == tcx.types.u8
        {
            // a by-value byte array constant (`let mut x = CONST_ARRAY;`)
            if let Ok(val) = c.const_.eval(tcx, env, c.span) {
                if let (ConstValue::Indirect { alloc_id, offset }, Some(n)) = (val, n.try_to_target_usize(tcx)) {
                    if let Some(b) = self.bytes_of_alloc(alloc_id, offset.bytes() as usize, n as usize) {
                        let v: Vec<String> = b.iter().map(|x| x.to_string()).collect();
                        parts.push(format!("\"bytes\":{},\"by_value\":true", join(v)));
                    }
                }
            }
        } else if let ty::Ref(..) = ty.kind() {
            if let Ok(val) = c.const_.eval(tcx, env, c.span) {
                if let Some(b) = self.const_bytes(val, ty) {
                    let v: Vec<String> = b.iter().map(|x| x.to_string()).collect();
                    parts.push(format!("\"bytes\":{}", join(v)));
                }
            }
        }
        {
            // transparent scalar wrappers (bitflags structs etc.): export the underlying scalar bits
            if let ty::Adt(..) = ty.kind() {
                if let Ok(val) = c.const_.eval(tcx, env, c.span) {
                    if let Some(si) = val.try_to_scalar_int() {
                        let bits = si.to_bits(si.size());
                        parts.push(format!("\"bits\":{}", q(&bits.to_string())));
                    }
                }
            }
        }
        if parts.len() == 1 {
            parts.push(format!("\"dbg\":{}", q(&format!("{:?}", c.const_))));
        }
        format!("{{\"const\":{{{}}}}}", parts.join(","))
    }

    fn fnref(&mut self, owner: DefId, did: DefId, args: ty::GenericArgsRef<'tcx>) -> String {
        let tcx = self.tcx;
        let mut parts = Vec::new();
        parts.push(format!("\"path\":{}", q(&self.path(did))));
        let ga: Vec<String> = args.iter().map(|a| q(&with_no_trimmed_paths!(a.to_string()))).collect();
        for a in args.iter() {
            if let Some(t) = a.as_type() {
                self.note_ty(t, 0);
            }
        }
        parts.push(format!("\"gargs\":{}", join(ga)));
        parts.push(format!("\"local\":{}", did.is_local()));
        if let Some(tr) = tcx.trait_of_assoc(did) {
            parts.push(format!("\"trait\":{}", q(&self.path(tr))));
        }
        parts.push(format!("\"name\":{}", q(&tcx.item_name(did).to_string())));
        if let Some(imp) = tcx.impl_of_assoc(did) {
            let st = tcx.type_of(imp).instantiate_identity().skip_norm_wip();
            parts.push(format!("\"impl_self\":{}", q(&self.tys(st))));
        }
        let env = TypingEnv::post_analysis(tcx, owner);
        let kind = tcx.def_kind(did);
        if matches!(kind, DefKind::Fn | DefKind::AssocFn) {
            match Instance::try_resolve(tcx, env, did, args) {
                Ok(Some(inst)) => {
                    let rdid = inst.def_id();
                    parts.push(format!("\"rpath\":{}", q(&self.path(rdid))));
                    let rga: Vec<String> =
                        inst.args.iter().map(|a| q(&with_no_trimmed_paths!(a.to_string()))).collect();
                    parts.push(format!("\"rgargs\":{}", join(rga)));
                    parts.push(format!("\"rlocal\":{}", rdid.is_local()));
                    let ik = format!("{:?}", inst.def);
                    let ik = ik.split('(').next().unwrap_or("").to_string();
                    parts.push(format!("\"rkind\":{}", q(&ik)));
                    if let Some(imp) = tcx.impl_of_assoc(rdid) {
                        let st = tcx.type_of(imp).instantiate_identity().skip_norm_wip();
                        parts.push(format!("\"rimpl_self\":{}", q(&self.tys(st))));
                        if let Some(tr) = tcx.impl_opt_trait_ref(imp) {
                            let tr = tr.instantiate_identity().skip_norm_wip();
                            parts.push(format!("\"rimpl_trait\":{}", q(&with_no_trimmed_paths!(tr.to_string()))));
                        }
                    }
                    if tcx.def_kind(rdid) == DefKind::Closure {
                        parts.push("\"rclosure\":true".to_string());
                    }
                }
                _ => {
                    parts.push("\"rpath\":null".to_string());
                }
            }
        }
        format!("{{{}}}", parts.join(","))
    }

    fn operand(&mut self, owner: DefId, body: &Body<'tcx>, op: &Operand<'tcx>) -> String {
        match op {
            Operand::Copy(p) => format!("{{\"copy\":{}}}", self.place(body, *p)),
            Operand::Move(p) => format!("{{\"move\":{}}}", self.place(body, *p)),
            Operand::Constant(c) => self.constant(owner, c),
            #[allow(unreachable_patterns)]
            _ => format!("{{\"other\":{}}}", q(&format!("{:?}", op))),
        }
    }

    fn rvalue(&mut self, owner: DefId, body: &Body<'tcx>, rv: &Rvalue<'tcx>) -> String {
        let tcx = self.tcx;
        match rv {
            Rvalue::Use(op, ..) => format!("{{\"k\":\"use\",\"op\":{}}}", self.operand(owner, body, op)),
            Rvalue::Repeat(op, n) => format!(
                "{{\"k\":\"repeat\",\"op\":{},\"n\":{}}}",
                self.operand(owner, body, op),
                q(&format!("{}", n))
            ),
            Rvalue::Ref(_, bk, p) => {
                let m = matches!(bk, BorrowKind::Mut { .. });
                format!("{{\"k\":\"ref\",\"mut\":{},\"place\":{}}}", m, self.place(body, *p))
            }
            Rvalue::RawPtr(_, p) => format!("{{\"k\":\"rawptr\",\"place\":{}}}", self.place(body, *p)),
            Rvalue::Cast(ck, op, ty) => {
                let cks = match ck {
                    CastKind::IntToInt => "IntToInt".to_string(),
                    CastKind::FloatToInt => "FloatToInt".to_string(),
                    CastKind::FloatToFloat => "FloatToFloat".to_string(),
                    CastKind::IntToFloat => "IntToFloat".to_string(),
                    CastKind::PtrToPtr => "PtrToPtr".to_string(),
                    CastKind::Transmute => "Transmute".to_string(),
                    CastKind::PointerCoercion(pc, _) => format!("PointerCoercion({:?})", pc),
                    other => format!("{:?}", other),
                };
                let from = op.ty(&body.local_decls, tcx);
                format!(
                    "{{\"k\":\"cast\",\"ck\":{},\"op\":{},\"ty\":{},\"from\":{}}}",
                    q(&cks),
                    self.operand(owner, body, op),
                    q(&self.tys(*ty)),
                    q(&self.tys(from))
                )
            }
            Rvalue::BinaryOp(bop, ab) => {
                let (a, b) = &**ab;
                let aty = a.ty(&body.local_decls, tcx);
                format!(
                    "{{\"k\":\"bin\",\"op\":{},\"a\":{},\"b\":{},\"ty\":{}}}",
                    q(&format!("{:?}", bop)),
                    self.operand(owner, body, a),
                    self.operand(owner, body, b),
                    q(&self.tys(aty))
                )
            }
            Rvalue::UnaryOp(uop, a) => format!(
                "{{\"k\":\"un\",\"op\":{},\"a\":{}}}",
                q(&format!("{:?}", uop)),
                self.operand(owner, body, a)
            ),
            Rvalue::Discriminant(p) => {
                let pty = p.ty(&body.local_decls, tcx).ty;
                format!("{{\"k\":\"discr\",\"place\":{},\"of\":{}}}", self.place(body, *p), q(&self.tys(pty)))
            }
            Rvalue::CopyForDeref(p) => format!("{{\"k\":\"use\",\"op\":{{\"copy\":{}}}}}", self.place(body, *p)),
            Rvalue::Aggregate(ak, fields) => {
                let fs: Vec<String> = fields.iter().map(|f| self.operand(owner, body, f)).collect();
                let head = match &**ak {
                    AggregateKind::Array(t) => format!("\"ak\":\"array\",\"elem\":{}", q(&self.tys(*t))),
                    AggregateKind::Tuple => "\"ak\":\"tuple\"".to_string(),
                    AggregateKind::Adt(did, v, _, _, active) => {
                        self.add_adt(*did);
                        let def = tcx.adt_def(*did);
                        let var = def.variant(*v);
                        let fnames: Vec<String> = var.fields.iter().map(|f| q(&f.name.to_string())).collect();
                        format!(
                            "\"ak\":\"adt\",\"adt\":{},\"variant\":{},\"vname\":{},\"fnames\":{},\"active\":{}",
                            q(&self.path(*did)),
                            v.as_usize(),
                            q(&var.name.to_string()),
                            join(fnames),
                            match active {
                                Some(a) => a.as_usize().to_string(),
                                None => "null".to_string(),
                            }
                        )
                    }
                    AggregateKind::Closure(did, _) => format!("\"ak\":\"closure\",\"closure\":{}", q(&self.path(*did))),
                    other => format!("\"ak\":\"other\",\"dbg\":{}", q(&format!("{:?}", other))),
                };
                format!("{{\"k\":\"agg\",{},\"fields\":{}}}", head, join(fs))
            }
            other => format!("{{\"k\":\"other\",\"dbg\":{}}}", q(&format!("{:?}", other))),
        }
    }

    fn bb(b: Option<BasicBlock>) -> String {
        match b {
            Some(b) => b.as_usize().to_string(),
            None => "null".to_string(),
        }
    }

    fn unwind(u: &UnwindAction) -> String {
        match u {
            UnwindAction::Cleanup(b) => b.as_usize().to_string(),
            UnwindAction::Continue => "\"continue\"".to_string(),
            UnwindAction::Unreachable => "\"unreachable\"".to_string(),
            UnwindAction::Terminate(_) => "\"terminate\"".to_string(),
        }
    }

    fn body(&mut self, owner: DefId, body: &Body<'tcx>, label: &str, kind: &str, promoted: Option<usize>) -> String {
        let tcx = self.tcx;
        let mut parts = Vec::new();
        parts.push(format!("\"path\":{}", q(label)));
        parts.push(format!("\"owner\":{}", q(&self.path(owner))));
        parts.push(format!("\"kind\":{}", q(kind)));
        if let Some(p) = promoted {
            parts.push(format!("\"promoted\":{}", p));
        }
        let (file, lo) = self.line(body.span);
        let sm = tcx.sess.source_map();
        let hi = sm.lookup_char_pos(body.span.hi()).line;
        parts.push(format!("\"file\":{},\"line_lo\":{},\"line_hi\":{}", q(&file), lo, hi));
        parts.push(format!("\"arg_count\":{}", body.arg_count));
        // parent / impl info
        if promoted.is_none() {
            let dk = tcx.def_kind(owner);
            parts.push(format!("\"def_kind\":{}", q(&format!("{:?}", dk))));
            if let Some(par) = tcx.opt_parent(owner) {
                parts.push(format!("\"parent\":{}", q(&self.path(par))));
            }
            if matches!(dk, DefKind::Fn | DefKind::AssocFn) {
                parts.push(format!("\"vis\":{}", q(&format!("{:?}", tcx.visibility(owner)))));
                parts.push(format!("\"name\":{}", q(&tcx.item_name(owner).to_string())));
                let sig = tcx.fn_sig(owner).instantiate_identity().skip_norm_wip().skip_binder();
                let ins: Vec<String> = sig.inputs().iter().map(|t| q(&self.tys(*t))).collect();
                parts.push(format!("\"sig_in\":{}", join(ins)));
                parts.push(format!("\"sig_out\":{}", q(&self.tys(sig.output()))));
            }
            if let Some(imp) = tcx.impl_of_assoc(owner) {
                let st = tcx.type_of(imp).instantiate_identity().skip_norm_wip();
                parts.push(format!("\"impl_self\":{}", q(&self.tys(st))));
                if let Some(tr) = tcx.impl_opt_trait_ref(imp) {
                    let tr = tr.instantiate_identity().skip_norm_wip();
                    parts.push(format!("\"impl_trait\":{}", q(&with_no_trimmed_paths!(tr.to_string()))));
                    parts.push(format!("\"impl_trait_path\":{}", q(&self.path(tr.def_id))));
                }
            }
            if let Some(tr) = tcx.trait_of_assoc(owner) {
                parts.push(format!("\"trait_default_of\":{}", q(&self.path(tr))));
            }
        }
        // locals
        let mut locals = Vec::new();
        for (_l, d) in body.local_decls.iter_enumerated() {
            locals.push(format!("{{\"ty\":{}}}", q(&self.tys(d.ty))));
        }
        parts.push(format!("\"locals\":{}", join(locals)));
        // debug info
        let mut dbg = Vec::new();
        for v in body.var_debug_info.iter() {
            let val = match &v.value {
                mir::VarDebugInfoContents::Place(p) => format!("{{\"place\":{}}}", self.place(body, *p)),
                mir::VarDebugInfoContents::Const(c) => self.constant(owner, c),
            };
            dbg.push(format!(
                "{{\"name\":{},\"v\":{},\"arg\":{}}}",
                q(&v.name.to_string()),
                val,
                match v.argument_index {
                    Some(i) => i.to_string(),
                    None => "null".to_string(),
                }
            ));
        }
        parts.push(format!("\"debug\":{}", join(dbg)));
        // blocks
        let mut blocks = Vec::new();
        for (_bb, data) in body.basic_blocks.iter_enumerated() {
            let mut stmts = Vec::new();
            for st in data.statements.iter() {
                let (_, ln) = self.line(st.source_info.span);
                match &st.kind {
                    StatementKind::Assign(b) => {
                        let (lhs, rv) = &**b;
                        stmts.push(format!(
                            "{{\"k\":\"assign\",\"lhs\":{},\"rv\":{},\"line\":{},\"exp\":{}}}",
                            self.place(body, *lhs),
                            self.rvalue(owner, body, rv),
                            ln,
                            self.exp(st.source_info.span)
                        ));
                    }
                    StatementKind::SetDiscriminant { place, variant_index } => {
                        stmts.push(format!(
                            "{{\"k\":\"setdiscr\",\"place\":{},\"variant\":{},\"line\":{}}}",
                            self.place(body, **place),
                            variant_index.as_usize(),
                            ln
                        ));
                    }
                    StatementKind::Intrinsic(i) => {
                        stmts.push(format!("{{\"k\":\"intrinsic\",\"dbg\":{},\"line\":{}}}", q(&format!("{:?}", i)), ln));
                    }
                    _ => {}
                }
            }
            let term = data.terminator();
            let (_, tl) = self.line(term.source_info.span);
            let texp = self.exp(term.source_info.span);
            let t = match &term.kind {
                TerminatorKind::Goto { target } => format!("{{\"k\":\"goto\",\"t\":{}}}", target.as_usize()),
                TerminatorKind::SwitchInt { discr, targets } => {
                    let mut vals = Vec::new();
                    let mut tgts = Vec::new();
                    for (v, t) in targets.iter() {
                        vals.push(q(&v.to_string()));
                        tgts.push(t.as_usize().to_string());
                    }
                    let dty = discr.ty(&body.local_decls, tcx);
                    format!(
                        "{{\"k\":\"switch\",\"discr\":{},\"dty\":{},\"vals\":{},\"tgts\":{},\"otherwise\":{}}}",
                        self.operand(owner, body, discr),
                        q(&self.tys(dty)),
                        join(vals),
                        join(tgts),
                        targets.otherwise().as_usize()
                    )
                }
                TerminatorKind::Return => "{\"k\":\"return\"}".to_string(),
                TerminatorKind::Unreachable => "{\"k\":\"unreachable\"}".to_string(),
                TerminatorKind::UnwindResume => "{\"k\":\"resume\"}".to_string(),
                TerminatorKind::UnwindTerminate(_) => "{\"k\":\"terminate\"}".to_string(),
                TerminatorKind::Drop { place, target, unwind, .. } => {
                    let pty = place.ty(&body.local_decls, tcx).ty;
                    // resolve drop glue: does this type have a local Drop impl anywhere inside?
                    format!(
                        "{{\"k\":\"drop\",\"place\":{},\"ty\":{},\"t\":{},\"unwind\":{}}}",
                        self.place(body, *place),
                        q(&self.tys(pty)),
                        target.as_usize(),
                        Self::unwind(unwind)
                    )
                }
                TerminatorKind::Call { func, args, destination, target, unwind, fn_span, .. } => {
                    let fty = func.ty(&body.local_decls, tcx);
                    let f = match fty.kind() {
                        ty::FnDef(did, ga) => self.fnref(owner, *did, ga),
                        _ => format!("{{\"indirect\":{},\"ty\":{}}}", self.operand(owner, body, func), q(&self.tys(fty))),
                    };
                    let a: Vec<String> = args.iter().map(|a| self.operand(owner, body, &a.node)).collect();
                    let aty: Vec<String> = args.iter().map(|a| q(&self.tys(a.node.ty(&body.local_decls, tcx)))).collect();
                    let (_, fl) = self.line(*fn_span);
                    format!(
                        "{{\"k\":\"call\",\"func\":{},\"args\":{},\"arg_tys\":{},\"dest\":{},\"t\":{},\"unwind\":{},\"fn_line\":{}}}",
                        f,
                        join(a),
                        join(aty),
                        self.place(body, *destination),
                        Self::bb(*target),
                        Self::unwind(unwind),
                        fl
                    )
                }
                TerminatorKind::Assert { cond, expected, msg, target, unwind } => {
                    use rustc_middle::mir::AssertKind as AK;
                    let (mk, ops): (String, Vec<&Operand<'tcx>>) = match &**msg {
                        AK::BoundsCheck { len, index } => ("BoundsCheck".to_string(), vec![len, index]),
                        AK::Overflow(op, a, b) => (format!("Overflow({:?})", op), vec![a, b]),
                        AK::OverflowNeg(a) => ("OverflowNeg".to_string(), vec![a]),
                        AK::DivisionByZero(a) => ("DivisionByZero".to_string(), vec![a]),
                        AK::RemainderByZero(a) => ("RemainderByZero".to_string(), vec![a]),
                        other => (format!("{:?}", other).split('(').next().unwrap_or("").to_string(), vec![]),
                    };
                    let o: Vec<String> = ops.iter().map(|x| self.operand(owner, body, x)).collect();
                    format!(
                        "{{\"k\":\"assert\",\"cond\":{},\"expected\":{},\"msg\":{},\"ops\":{},\"t\":{},\"unwind\":{}}}",
                        self.operand(owner, body, cond),
                        expected,
                        q(&mk),
                        join(o),
                        target.as_usize(),
                        Self::unwind(unwind)
                    )
                }
                TerminatorKind::FalseEdge { real_target, .. } => format!("{{\"k\":\"goto\",\"t\":{}}}", real_target.as_usize()),
                TerminatorKind::FalseUnwind { real_target, .. } => format!("{{\"k\":\"goto\",\"t\":{}}}", real_target.as_usize()),
                other => format!("{{\"k\":\"other\",\"dbg\":{}}}", q(&format!("{:?}", other))),
            };
            // splice line/exp into the terminator object
            let t = format!("{},\"line\":{},\"exp\":{}}}", &t[..t.len() - 1], tl, texp);
            blocks.push(format!("{{\"cleanup\":{},\"stmts\":{},\"term\":{}}}", data.is_cleanup, join(stmts), t));
        }
        parts.push(format!("\"blocks\":{}", join(blocks)));
        format!("{{{}}}", parts.join(","))
    }
}

fn outermost(mut sp: Span) -> Span {
    let mut n = 0;
    while sp.from_expansion() && n < 64 {
        sp = sp.ctxt().outer_expn_data().call_site;
        n += 1;
    }
    sp
}

fn export<'tcx>(tcx: TyCtxt<'tcx>) {
    let out = match std::env::var("MSQLX_OUT") {
        Ok(o) => o,
        Err(_) => return,
    };
    let mut cx = Cx { tcx, adts: Vec::new(), adt_seen: HashSet::new() };
    let mut bodies = Vec::new();
    let owners: Vec<LocalDefId> = tcx.hir_body_owners().collect();
    for ldid in owners {
        let did = ldid.to_def_id();
        let dk = tcx.def_kind(did);
        let (body, kind): (&Body<'tcx>, &str) = match dk {
            DefKind::Fn | DefKind::AssocFn => (tcx.optimized_mir(did), "fn"),
            DefKind::Closure => (tcx.optimized_mir(did), "closure"),
            DefKind::Const { .. } | DefKind::AssocConst { .. } | DefKind::Static { .. } | DefKind::AnonConst | DefKind::InlineConst => {
                (tcx.mir_for_ctfe(did), "const")
            }
            _ => continue,
        };
        let label = cx.path(did);
        let s = cx.body(did, body, &label, kind, None);
        bodies.push(s);
        let proms = tcx.promoted_mir(did);
        for (pi, pb) in proms.iter_enumerated() {
            let pl = format!("{}::promoted[{}]", label, pi.as_usize());
            let s = cx.body(did, pb, &pl, "promoted", Some(pi.as_usize()));
            bodies.push(s);
        }
    }
    // impl table
    let mut impls = Vec::new();
    for id in tcx.hir_crate_items(()).definitions() {
        let did = id.to_def_id();
        match tcx.def_kind(did) {
            DefKind::Impl { .. } => {
                let st = tcx.type_of(did).instantiate_identity().skip_norm_wip();
                let tr = tcx.impl_opt_trait_ref(did).map(|t| {
                    let t = t.instantiate_identity().skip_norm_wip();
                    (with_no_trimmed_paths!(t.to_string()), cx.path(t.def_id))
                });
                let mut methods = Vec::new();
                for it in tcx.associated_items(did).in_definition_order() {
                    if it.is_fn() {
                        methods.push(q(&cx.path(it.def_id)));
                    }
                }
                let (trs, trp) = match tr {
                    Some((a, b)) => (q(&a), q(&b)),
                    None => ("null".to_string(), "null".to_string()),
                };
                impls.push(format!(
                    "{{\"self_ty\":{},\"trait\":{},\"trait_path\":{},\"methods\":{}}}",
                    q(&cx.tys(st)),
                    trs,
                    trp,
                    join(methods)
                ));
            }
            DefKind::Struct | DefKind::Enum | DefKind::Union => {
                cx.add_adt(did);
            }
            _ => {}
        }
    }
    // trait table (local traits: methods, which have defaults)
    let mut traits = Vec::new();
    for id in tcx.hir_crate_items(()).definitions() {
        let did = id.to_def_id();
        if tcx.def_kind(did) == DefKind::Trait {
            let mut methods = Vec::new();
            for it in tcx.associated_items(did).in_definition_order() {
                if it.is_fn() {
                    let sig = tcx.fn_sig(it.def_id).instantiate_identity().skip_norm_wip().skip_binder();
                    let ins: Vec<String> = sig.inputs().iter().map(|t| q(&cx.tys(*t))).collect();
                    methods.push(format!(
                        "{{\"path\":{},\"name\":{},\"has_default\":{},\"sig_in\":{},\"sig_out\":{}}}",
                        q(&cx.path(it.def_id)),
                        q(&it.name().to_string()),
                        it.defaultness(tcx).has_value(),
                        join(ins),
                        q(&cx.tys(sig.output()))
                    ));
                }
            }
            traits.push(format!("{{\"path\":{},\"vis\":{},\"methods\":{}}}", q(&cx.path(did)), q(&format!("{:?}", tcx.visibility(did))), join(methods)));
        }
    }
    // adt table (iterate to fixpoint over field types of local ADTs only)
    let mut adts_out = Vec::new();
    let mut done: HashSet<DefId> = HashSet::new();
    loop {
        let todo: Vec<DefId> = cx.adts.iter().filter(|d| !done.contains(d)).copied().collect();
        if todo.is_empty() {
            break;
        }
        for did in todo {
            done.insert(did);
            let def = tcx.adt_def(did);
            let kind = if def.is_enum() {
                "enum"
            } else if def.is_union() {
                "union"
            } else {
                "struct"
            };
            let detailed = did.is_local() || def.is_enum();
            let mut variants = Vec::new();
            if detailed && def.variants().len() <= 4096 {
                let discrs: Vec<(rustc_abi::VariantIdx, ty::util::Discr<'tcx>)> =
                    if def.is_enum() { def.discriminants(tcx).collect() } else { Vec::new() };
                for (vi, v) in def.variants().iter_enumerated() {
                    let mut fields = Vec::new();
                    for f in v.fields.iter() {
                        let fty = tcx.type_of(f.did).instantiate_identity().skip_norm_wip();
                        let ftys = if did.is_local() { cx.tys(fty) } else { with_no_trimmed_paths!(fty.to_string()) };
                        fields.push(format!(
                            "{{\"name\":{},\"ty\":{},\"vis\":{}}}",
                            q(&f.name.to_string()),
                            q(&ftys),
                            q(&format!("{:?}", f.vis))
                        ));
                    }
                    let d = discrs.iter().find(|(i, _)| *i == vi).map(|(_, d)| {
                        // print as signed if the discr type is signed
                        let size = rustc_abi::Integer::from_attr(&tcx, def.repr().discr_type()).size();
                        if d.ty.is_signed() {
                            let sh = 128 - size.bits();
                            (((d.val as i128) << sh) >> sh).to_string()
                        } else {
                            d.val.to_string()
                        }
                    });
                    variants.push(format!(
                        "{{\"name\":{},\"idx\":{},\"discr\":{},\"fields\":{}}}",
                        q(&v.name.to_string()),
                        vi.as_usize(),
                        match d {
                            Some(d) => q(&d),
                            None => "null".to_string(),
                        },
                        join(fields)
                    ));
                }
            }
            let repr = format!("{:?}", def.repr().int);
            adts_out.push(format!(
                "{{\"path\":{},\"kind\":{},\"local\":{},\"repr_int\":{},\"vis\":{},\"variants\":{}}}",
                q(&cx.path(did)),
                q(kind),
                did.is_local(),
                q(&repr),
                q(&format!("{:?}", tcx.visibility(did))),
                join(variants)
            ));
        }
    }
    let nonce = std::env::var("MSQLX_NONCE").unwrap_or_default();
    let config = std::env::var("MSQLX_CONFIG").unwrap_or_default();
    let doc = format!(
        "{{\"nonce\":{},\"config\":{},\"crate\":{},\"rustc\":{},\"pointer_bits\":{},\"bodies\":{},\"impls\":{},\"traits\":{},\"adts\":{}}}\n",
        q(&nonce),
        q(&config),
        q(&tcx.crate_name(LOCAL_CRATE).to_string()),
        q(option_env!("CFG_VERSION").unwrap_or("nightly")),
        tcx.data_layout.pointer_size().bits(),
        join(bodies),
        join(impls),
        join(traits),
        join(adts_out)
    );
    let tmp = format!("{}.tmp.{}", out, std::process::id());
    std::fs::write(&tmp, doc).expect("msqlx: cannot write output");
    std::fs::rename(&tmp, &out).expect("msqlx: cannot rename output");
}

struct Cb;

impl rustc_driver::Callbacks for Cb {
    fn after_analysis<'tcx>(&mut self, _compiler: &rustc_interface::interface::Compiler, tcx: TyCtxt<'tcx>) -> Compilation {
        let want = std::env::var("MSQLX_CRATE").unwrap_or_else(|_| "msql_srv".to_string());
        let name = tcx.crate_name(LOCAL_CRATE).to_string();
        if name == want {
            export(tcx);
        }
        Compilation::Continue
    }
}

fn main() {
    let mut args: Vec<String> = std::env::args().collect();
    // As RUSTC_WORKSPACE_WRAPPER, argv[1] is the path of the real rustc: drop it.
    if args.len() > 1 {
        let a1 = std::path::Path::new(&args[1]);
        if a1.file_stem().map_or(false, |s| s == "rustc") {
            args.remove(1);
        }
    }
    rustc_driver::run_compiler(&args, &mut Cb);
}
