"""C06 — text-protocol result values arrive unchanged (cell framing, NULL marker and text grammar clauses)."""
import re

from engines import wire, fmtargs
from engines.paths import enumerate_paths, classify_return, emptiness_of
from engines.prog import cname, term_str
from engines import terms as T
from engines.terms import Aff

CONFIGS = ["tls"]
LEVEL = "other"
EXPLANATION = (
    "One cell: every ToMysqlValue::to_mysql_text implementation emits on each Ok path exactly one length-encoded string through "
    "the library's lenenc writer, or the single byte FB, or tail-delegates to another to_mysql_text — never a hand-rolled length "
    "byte or two emissions, which would shift the following cells. NULL marker: FB is emitted only on the None / Value::NULL "
    "paths. Row boundary: in text mode write_col calls the value's text encoder exactly once with the connection as sink and "
    "end_row ends exactly one packet. Text grammar: the compiled format_args! template of each encoder is decoded (piece "
    "literals, placeholder width / zero-pad) together with the origin term of every argument: integers and floats are `{}` of "
    "the value itself; DATE is %04-%02-%02 of year/month/day; DATETIME adds ' %02:%02:%02' of hour/minute/second and, exactly "
    "when the microsecond part is non-zero, '.%06' of nanosecond/1000; TIME is %02:%02:%02 of secs/3600, secs%3600/60, secs%60 "
    "plus '.%06' of subsec_micros exactly when non-zero. Byte strings are written whole. What Display prints for an integer or "
    "a float, and how a client parses it back, is std / client behaviour and is not decided.")
ASSUMPTIONS = ["mysql_common::write_lenenc_str encodes every length class and never starts with FB for a string",
               "core::fmt Display for integers/floats prints a round-trippable decimal", "the format template encoding documented in this toolchain's core::fmt"]


def acc(t):
    c = T.find(t, lambda x: T.is_call(x, r"(Datelike>?::(year|month|day)|Timelike>?::(hour|minute|second|nanosecond)|Duration::(as_secs|subsec_micros|subsec_nanos))$"))
    return c[1].split("::")[-1] if c is not None else None


def shape_str(pieces):
    out = ""
    for p in pieces:
        if p[0] == "lit":
            out += p[1].decode("latin1")
        else:
            o = p[2]
            out += "{%s%s}" % ("0" if o["zero"] else "", o["width"] if o["width"] is not None else "")
    return out


def run(ctx):
    prog = ctx.prog("tls")
    ctx.rule("C06.one-cell", "each to_mysql_text path emits exactly one lenenc string | FB | a tail delegation")
    ctx.rule("C06.null-marker", "FB only on None / NULL paths")
    ctx.rule("C06.row-boundary", "text-mode write_col encodes once into the connection; end_row ends one packet")
    ctx.rule("C06.text-grammar", "decoded format templates and argument sources match the MySQL text literal grammar")
    ctx.rule("C06.int-text", "the text cell of every Rust integer type is the `{}` rendering of the value itself (the integer part of text-grammar, under its own id so that C15 can evaluate just that)")
    impls = prog.find(r" as value::encode::ToMysqlValue>::to_mysql_text$")
    ctx.floor("C06.one-cell", "to_mysql_text implementations", len(impls), 22)
    fixed_ints = {"u8", "i8", "u16", "i16", "u32", "i32", "u64", "i64", "usize", "isize", "f32", "f64"}
    for b in impls:
        ctx.fn(b)
        ty = re.match(r"^<(.*) as value::encode::ToMysqlValue>::to_mysql_text$", b.path).group(1)
        npaths = 0
        for p in enumerate_paths(b, max_visits=1):
            if p.end != "return" or classify_return(p) == "err":
                continue
            npaths += 1
            ems = wire.path_emissions(prog, p)
            kinds = [e.kind for e in ems]
            one = False
            if kinds == ["lenenc_str"]:
                one = True
            elif kinds == ["fixed"] and ems[0].const_bytes() == b"\xfb":
                one = True
            elif kinds == ["value"] and ems[0].callee == "to_mysql_text":
                one = True
            ctx.ob("C06.one-cell", one, "%s::to_mysql_text emits %s on an Ok path (need exactly one lenenc string, or FB, or one delegation)" % (ty, [e.short()[:40] for e in ems]),
                   fn=b.path, construct="cell", where=b.where(p.blocks[-1]), sample={"rule": "one-cell", "impl": ty, "emits": kinds} if npaths == 1 and ty in ("u8", "[u8]", "std::option::Option<T>") else None)
            if ty.startswith("std::option::Option<"):
                # the None side must produce the NULL marker (and nothing else), the Some side must delegate
                none_side = None
                for i, blk in enumerate(p.blocks[:-1]):
                    t = b.term(blk)
                    if t["k"] == "switch":
                        v = p.origin_op(t["discr"], i)
                        if v[0] == "discr" and T.is_param(T.peel(v[1]), 1):
                            vals = [int(x) for x, g in zip(t["vals"], t["tgts"]) if g == p.blocks[i + 1]]
                            none_side = vals == [0] or (not vals and "1" in t["vals"])
                if none_side is True:
                    ctx.ob("C06.null-marker", kinds == ["fixed"] and ems[0].const_bytes() == b"\xfb", "None is sent as %s (need the single NULL marker byte FB)" % [e.short()[:30] for e in ems],
                           fn=b.path, construct="none-is-fb", where=b.where(p.blocks[-1]))
                elif none_side is False:
                    ctx.ob("C06.null-marker", kinds == ["value"], "Some(v) is sent as %s (need v's own text encoding)" % [e.short()[:30] for e in ems], fn=b.path, construct="some-delegates",
                           where=b.where(p.blocks[-1]), nontrivial=False)
            if not one:
                continue
            # ---- null marker ---------------------------------------------------------------------
            if kinds == ["fixed"]:
                okn = False
                if ty.startswith("std::option::Option<"):
                    # the path took the None side of the discriminant
                    for i, blk in enumerate(p.blocks[:-1]):
                        t = b.term(blk)
                        if t["k"] == "switch":
                            v = p.origin_op(t["discr"], i)
                            if v[0] == "discr" and T.is_param(T.peel(v[1]), 1):
                                vals = [int(x) for x, g in zip(t["vals"], t["tgts"]) if g == p.blocks[i + 1]]
                                okn = vals == [0] or (not vals and "1" in t["vals"])
                ctx.ob("C06.null-marker", okn, "%s emits the NULL marker FB on a path that is not the None case" % ty, fn=b.path, construct="null-marker", where=b.where(p.blocks[-1]))
            if kinds == ["value"] and ty == "myc::Value":
                v = ems[0].value
                if T.contains(v, lambda x: isinstance(x, tuple) and x[0] == "agg" and x[3] == "None"):
                    took_null = False
                    mv = [a for k, a in prog.adts.items() if k == "myc::Value" or k.endswith("value::Value")]
                    for i, blk in enumerate(p.blocks[:-1]):
                        t = b.term(blk)
                        if t["k"] == "switch":
                            dv = p.origin_op(t["discr"], i)
                            if dv[0] == "discr" and T.is_param(T.peel(dv[1]), 1):
                                vals = [int(x) for x, g in zip(t["vals"], t["tgts"]) if g == p.blocks[i + 1]]
                                names = [vv["name"] for a in mv for vv in a["variants"] if int(vv["discr"]) in vals]
                                took_null = names == ["NULL"]
                    ctx.ob("C06.null-marker", took_null, "the generic value encoder emits NULL for a non-NULL variant", fn=b.path, construct="null-marker-generic", where=b.where(p.blocks[-1]))
            # ---- text grammar --------------------------------------------------------------------------
            if kinds == ["lenenc_str"]:
                val = ems[0].value
                sh = fmtargs.builder_shape(p, val) or fmtargs.format_shape(val)
                if ty in ("[u8]", "str", "std::string::String", "std::vec::Vec<u8>"):
                    # byte-like values: the cell is the value's own bytes, all of them (as_bytes / as_slice / deref are views of the whole)
                    whole = T.peel(val, extra_rx=r"(String::as_bytes|str>::as_bytes|impl str>::as_bytes|Vec::<T, A>::as_slice|Vec<T, A> as std::ops::Deref>::deref|String as std::ops::Deref>::deref|String::as_str)$")
                    ctx.ob("C06.text-grammar", T.is_param(whole, 1), "byte strings must be written whole (got %s)" % term_str(val)[:60], fn=b.path, construct="bytes-whole")
                    continue
                if sh is None:
                    ctx.ob("C06.text-grammar", False, "%s: the text of the cell is not built by a decodable format template (%s)" % (ty, term_str(val)[:80]), fn=b.path,
                           construct="no-template", where=b.where(p.blocks[-1]))
                    if ty in fixed_ints:
                        ctx.ob("C06.int-text", False, "%s: the text of the cell is not built by a decodable format template (%s)" % (ty, term_str(val)[:80]), fn=b.path,
                               construct="no-template", where=b.where(p.blocks[-1]))
                    continue
                pieces, args = sh
                ss = shape_str(pieces)
                srcs = [a[1] for a in args]
                kinds_a = [a[0] for a in args]
                ok, why = False, ""
                if ty in fixed_ints:
                    ok = ss == "{}" and kinds_a == ["display"] and T.is_param(T.peel(srcs[0]), 1)
                    why = "template %r of %s (need `{}` of the value itself)" % (ss, [term_str(x)[:30] for x in srcs])
                elif ty == "chrono::NaiveDate":
                    ok = ss == "{04}-{02}-{02}" and [acc(x) for x in srcs] == ["year", "month", "day"]
                    why = "template %r of %s (need {04}-{02}-{02} of year, month, day)" % (ss, [acc(x) for x in srcs])
                elif ty == "chrono::NaiveDateTime":
                    base = "{04}-{02}-{02} {02}:{02}:{02}"
                    a6 = [acc(x) for x in srcs]
                    frac = _frac_nonzero(b, p, "nanosecond")
                    if ss == base:
                        ok = a6 == ["year", "month", "day", "hour", "minute", "second"] and frac is False
                    elif ss == base + ".{06}":
                        us = T.affine(srcs[6]) if len(srcs) == 7 else None
                        ok = a6 == ["year", "month", "day", "hour", "minute", "second", "nanosecond"] and frac is True and us is not None and \
                            len(us.m) == 1 and list(us.m.keys())[0][0] == "div" and list(us.m.keys())[0][2] == 1000
                    why = "template %r of %s, fraction non-zero on this path: %s (need %r, plus '.{06}' of nanosecond/1000 exactly when it is non-zero)" % (ss, a6, frac, base)
                elif ty == "std::time::Duration":
                    base = "{02}:{02}:{02}"
                    frac = _frac_nonzero(b, p, "subsec_micros")
                    def at(x):
                        a = T.affine(x)
                        return list(a.m.keys())[0] if len(a.m) == 1 and a.c == 0 else None
                    def secs(x):
                        # exactly the total seconds: one atom with coefficient 1 that is the as_secs() call itself (not a quotient / remainder of it)
                        if not (isinstance(x, Aff) and len(x.m) == 1 and x.c == 0 and list(x.m.values()) == [1]):
                            return False
                        a_ = list(x.m.keys())[0]
                        return a_[0] not in ("div", "rem") and "as_secs" in repr(a_)
                    h, m, s = [at(x) for x in srcs[:3]] if len(srcs) >= 3 else (None, None, None)
                    okf = h is not None and h[0] == "div" and h[2] == 3600 and secs(h[1]) and m is not None and m[0] == "div" and m[2] == 60 and at_rem(m[1], 3600, secs) and \
                        s is not None and s[0] == "rem" and s[2] == 60 and secs(s[1])
                    if ss == base:
                        ok = okf and frac is False and len(srcs) == 3
                    elif ss == base + ".{06}":
                        ok = okf and frac is True and len(srcs) == 4 and T.is_call(srcs[3], r"Duration::subsec_micros$")
                    why = "template %r, h/m/s formulas ok=%s, fraction non-zero on this path: %s" % (ss, okf, frac)
                else:
                    ok = True
                    why = "unclassified impl %s with template %r" % (ty, ss)
                if ty in fixed_ints:
                    ctx.ob("C06.int-text", ok, "%s text: %s" % (ty, why), fn=b.path, construct="template", where=b.where(p.blocks[-1]), key_extra={"shape": ss}, nontrivial=False)
                ctx.ob("C06.text-grammar", ok, "%s text: %s" % (ty.split("::")[-1], why), fn=b.path, construct="template", where=b.where(p.blocks[-1]), key_extra={"shape": ss},
                       sample={"rule": "text-grammar", "impl": ty, "template": ss} if ty in ("u8", "chrono::NaiveDateTime", "std::time::Duration", "f64") else None)
        ctx.ob("C06.one-cell", npaths >= 1, "%s::to_mysql_text has no Ok path" % ty, fn=b.path, construct="has-ok-path", nontrivial=False)

    # ---- row boundary ---------------------------------------------------------------------------------
    wc = prog.one(r"^resultset::RowWriter::<'a, W>::write_col$")
    er = prog.one(r"^resultset::RowWriter::<'a, W>::end_row$")
    ctx.fn(wc)
    ctx.fn(er)
    n = 0
    for p in enumerate_paths(wc, max_visits=1):
        if p.end != "return" or classify_return(p) == "err":
            continue
        isbin, empty = None, None
        for i, blk in enumerate(p.blocks[:-1]):
            t = wc.term(blk)
            if t["k"] == "switch" and "0" in t["vals"]:
                v = p.origin_op(t["discr"], i)
                truth = p.blocks[i + 1] != t["tgts"][t["vals"].index("0")]
                if T.is_field(T.peel(v), "is_bin"):
                    isbin = truth
                if T.is_call(v, r"is_empty$") and T.is_field(T.peel(v[2][0]), "columns"):
                    empty = truth
        if isbin is not False or empty:
            continue
        n += 1
        ems = wire.path_emissions(prog, p)
        ok = [e.kind for e in ems] == ["value"] and ems[0].callee == "to_mysql_text"
        sink_ok = False
        for pos, blk, t in p.calls():
            if cname(t["func"]).endswith("to_mysql_text"):
                sink_ok = "packet::PacketConn<" in (t.get("arg_tys") or ["", ""])[1]
        ctx.ob("C06.row-boundary", ok and sink_ok, "text-mode write_col emits %s (need exactly one to_mysql_text into the connection, no packet end)" % [e.short()[:30] for e in ems], fn=wc.path,
               construct="text-cell", where=wc.where(p.blocks[-1]), sample={"rule": "row-boundary", "emits": [e.kind for e in ems]})
    ctx.floor("C06.row-boundary", "text-mode Ok paths of write_col", n, 1)
    n = 0
    for p in enumerate_paths(er):
        if p.end != "return" or classify_return(p) != "ok":
            continue
        ends = [1 for pos, blk, t in p.calls() if wire.RX_END_PACKET.search(cname(t["func"]))]
        empty = emptiness_of(p, lambda x: T.is_field(x, "columns"))
        if empty:
            continue
        n += 1
        ctx.ob("C06.row-boundary", len(ends) == 1, "end_row ends %d packets for one row" % len(ends), fn=er.path, construct="one-packet-per-row", where=er.where(p.blocks[-1]))
    ctx.floor("C06.row-boundary", "Ok paths of end_row with columns", n, 2)
    # cells and rows of 16 MiB and more are split by the framer: the framing clauses (C04's rules) are part of
    # `arrives unchanged` for the size classes this property quantifies over


def at_rem(x, k, secs):
    if not isinstance(x, Aff) or len(x.m) != 1 or x.c != 0:
        return False
    a = list(x.m.keys())[0]
    return a[0] == "rem" and a[2] == k and secs(a[1])


def _frac_nonzero(b, p, accessor):
    """Did this path establish that the fractional part (a term over `accessor`) is non-zero? True/False/None."""
    res = None
    for i, blk in enumerate(p.blocks[:-1]):
        t = b.term(blk)
        if t["k"] == "switch" and "0" in t["vals"]:
            v = p.origin_op(t["discr"], i)
            neg = False
            while isinstance(v, tuple) and v[0] == "un" and v[1] == "Not":
                v, neg = v[2], not neg
            if isinstance(v, tuple) and v[0] == "bin" and v[1] in ("Ne", "Eq") and T.is_const_int(v[3], 0) and acc(v[2]) == accessor:
                truth = (p.blocks[i + 1] != t["tgts"][t["vals"].index("0")]) != neg
                nz = truth if v[1] == "Ne" else not truth
                res = nz if res is None else res
            elif isinstance(v, tuple) and v[0] != "bin" and acc(v) == accessor and not neg:
                # `match x { 0 => .., n => .. }`: a switch on the value itself
                nz = p.blocks[i + 1] != t["tgts"][t["vals"].index("0")]
                res = nz if res is None else res
    return res
