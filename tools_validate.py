#!/usr/bin/env python3
"""Validate MANIFEST.json and evidence/*.json against the harness schemas (uses the tooling venv)."""
import json, sys, glob
import jsonschema
ok = True
m = json.load(open('/verif/MANIFEST.json'))
try:
    jsonschema.validate(m, json.load(open('/root/.vp/MANIFEST.schema.json')))
    print("MANIFEST ok: %d checks, %d n/a" % (len(m['checks']), len(m.get('not_applicable', []))))
except Exception as e:
    ok = False; print("MANIFEST INVALID", e)
es = json.load(open('/root/.vp/EVIDENCE.schema.json'))
for p in sorted(glob.glob('/verif/evidence/*.json')):
    try:
        jsonschema.validate(json.load(open(p)), es); print("ok", p)
    except Exception as e:
        ok = False; print("INVALID", p, str(e)[:300])
sys.exit(0 if ok else 1)
