#!/usr/bin/env python3
"""Which rules (of all 20 rule files) fire on /repo + patch?  usage: tools_allrules.py <patch>
Diagnostic for designing the inclusion table (rules/_deps.py): evaluates every rule file once, without inclusions."""
import importlib, os, subprocess, sys, tempfile, shutil, json
HERE = os.path.dirname(os.path.abspath(__file__))
patch = os.path.abspath(sys.argv[1])
scratch = tempfile.mkdtemp(prefix="msqlx-all-")
try:
    subprocess.run(["rsync", "-a", "--exclude", "target", "--exclude", ".git", "/repo/", scratch + "/"], check=True)
    r = subprocess.run(["patch", "-p1", "-s", "--no-backup-if-mismatch", "-i", patch], cwd=scratch)
    if r.returncode:
        sys.exit("PATCH-FAILED")
    os.environ["MSQLX_REPO"] = scratch
    sys.path.insert(0, HERE)
    from engines import extract as X, cursor
    from engines.prog import Program, AnchorMissing
    from engines.paths import TooManyPaths
    from engines.framework import Ctx
    progs, infos = {}, {}
    for c in ("tls", "notls"):
        path, info = X.extract(c)
        progs[c] = Program(path); infos[c] = info
        cursor.register_local_parsers(progs[c])
    fired = {}
    for i in range(1, 21):
        name = "C%02d" % i
        ctx = Ctx(name, "quick", progs, infos)
        ctx.ran = set("C%02d" % j for j in range(1, 21))   # no inclusions
        mod = importlib.import_module("rules." + name)
        try:
            mod.run(ctx)
        except (AnchorMissing, TooManyPaths) as e:
            fired.setdefault(name, set()).add("EXC:%s" % str(e)[:60])
        except Exception as e:
            fired.setdefault(name, set()).add("INTERNAL:%r" % e)
        for v in ctx.violations:
            fired.setdefault(name, set()).add(v.rule)
    from engines.framework import load_known, match_known
    print(json.dumps({k: sorted(v) for k, v in fired.items()}))
finally:
    shutil.rmtree(scratch, ignore_errors=True)
