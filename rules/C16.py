"""C16 — bound parameter types persist per statement across executions."""
import re

from engines import effects
from engines.paths import enumerate_paths
from engines.prog import cname, term_str, op_place
from engines import terms as T
from engines import cursor
from engines.terms import Aff

CONFIGS = ["tls"]
LEVEL = "other"
EXPLANATION = (
    "Def-use, dominance and cursor-offset rules over the MIR of the parameter parser. Storage: the type table used by the "
    "iterator is the `bound_types` field of the statement entry handed to ParamParser::new (which C10 shows is the entry looked "
    "up with the executing id); no other owner of such a table exists and it is mutated only in the iterator. Rebind: clear() "
    "and every push() are dominated by the `new-params-bound != 0` branch, clear dominates the push loop, the loop runs over "
    "0..params and pushes once per iteration; on the reuse branch the table is not written. Flag consumed: the value cursor "
    "stored after the header block starts at nullmap_len + 1 (+ 2*params when types are present) on every path that saw a flag "
    "byte — computed as an affine offset from split_at / range-index chains. Types used: the value parser and the reported "
    "column type read entry `col` of that table.")
ASSUMPTIONS = ["Vec clear/push/index semantics (std)", "COM_STMT_EXECUTE layout: nullmap[(n+7)/8] | new_params_bound u8 | types 2n | values"]

VEC_TY = "(myc::constants::ColumnType, bool)"


def run(ctx):
    prog = ctx.prog("tls")
    nxt = prog.one(r"^<params::Params<'a> as std::iter::Iterator>::next$")
    pn = prog.one(r"^params::ParamParser::<'a>::new$")
    it = prog.one(r"^<params::ParamParser<'a> as std::iter::IntoIterator>::into_iter$")
    for b in (nxt, pn, it):
        ctx.fn(b)
    ctx.rule("C16.per-statement-storage", "the type table is the looked-up statement entry's bound_types; mutated only by the iterator")
    ctx.rule("C16.rebind-replaces", "clear + exactly params pushes under flag != 0; no write under flag == 0")
    ctx.rule("C16.flag-consumed", "value cursor starts after the new-params-bound byte on both branches")
    ctx.rule("C16.types-used", "value parsing and reported coltype use entry `col` of the table")

    # the element type of the per-statement type table (a (ColumnType, bool) pair, or a small struct of the two)
    global VEC_TY
    VEC_TY = "(myc::constants::ColumnType, bool)"
    for p_, a in prog.adts.items():
        if p_.endswith("StatementData") and a["local"] and a.get("variants"):
            for f in a["variants"][0]["fields"]:
                m_ = re.match(r"std::vec::Vec<(.+)>$", f["ty"])
                if f["name"] == "bound_types" and m_:
                    el = m_.group(1)
                    ea = prog.adts.get(el)
                    if el != VEC_TY and ea is not None and ea.get("local") and ea.get("variants") and \
                            sorted(x["ty"] for x in ea["variants"][0]["fields"]) == ["bool", "myc::constants::ColumnType"]:
                        VEC_TY = el
    # ---- storage ----------------------------------------------------------------------------
    owners = []
    for p_, a in prog.adts.items():
        if a["local"]:
            for v in a["variants"]:
                for f in v["fields"]:
                    if VEC_TY in f["ty"] and f["ty"].startswith("std::vec::Vec<"):
                        owners.append((p_, f["name"]))
    ctx.ob("C16.per-statement-storage", owners == [("StatementData", "bound_types")],
           "bound parameter types must be owned by the per-statement entry only; owners found: %s" % owners, fn="StatementData", construct="owners")
    for b, arg in ((pn, 2), (it, 1)):
        rb = b.return_blocks()[0]
        o = b.origin_place({"l": 0, "p": []}, rb, len(b.blocks[rb]["stmts"]))
        d = dict(zip(o[5], o[4])) if o[0] == "agg" else {}
        bt = d.get("bound_types")
        ok = bt is not None and T.is_field(bt, "bound_types") and T.is_param(bt[1], arg)
        ctx.ob("C16.per-statement-storage", ok, "%s does not pass on the statement entry's bound_types (got %s)" % (b.path, term_str(bt) if bt else None),
               fn=b.path, construct="borrow", sample={"rule": "per-statement-storage", "fn": b.path, "bound_types": term_str(bt) if bt else None})
    # the per-statement entry is only ever created by the PREPARE reply: nobody else builds or overwrites a StatementData
    builders = set()
    for b in prog.non_test_fns():
        for bb, i, s_ in b.stmts():
            if s_["k"] == "assign" and s_["rv"]["k"] == "agg" and s_["rv"].get("ak") == "adt" and s_["rv"]["adt"].endswith("StatementData"):
                builders.add(b.path)
        for bb, t in b.calls():
            if re.search(r"<StatementData as std::default::Default>::default$", cname(t["func"])):
                builders.add(b.path)
    ok_b = {x for x in builders if x.endswith("StatementMetaWriter::<'a, W>::reply") or x == "<StatementData as std::default::Default>::default"}
    ctx.ob("C16.per-statement-storage", builders <= ok_b, "a statement entry (with its bound types) is rebuilt outside the PREPARE reply: %s" % sorted(builders - ok_b),
           fn="StatementData", construct="entry-builders")
    muts = []
    for b in prog.non_test_fns():
        for bb, t in b.calls():
            f = t["func"]
            if "indirect" in f:
                continue
            m = re.search(r"std::vec::Vec::<T, A>::(clear|push|insert|truncate|resize|extend_from_slice|remove|pop|drain|append|swap_remove|retain|set_len)$", cname(f))
            ga = f.get("rgargs") or f.get("gargs") or []
            if m and ga and ga[0] == VEC_TY:
                muts.append((m.group(1), b, bb, t))
    # any other mutable access: a call handed `&mut Vec<(ColumnType, bool)>` / `&mut [(ColumnType, bool)]` (get_mut,
    # iter_mut, index_mut, deref_mut, swap, fill, ...) or a store through `&mut (ColumnType, bool)`
    named = {(b.path, bb) for n, b, bb, t in muts}
    for b in prog.non_test_fns():
        if re.search(r"as std::(fmt::Debug|clone::Clone|default::Default)", b.path):
            continue
        for bb, t in b.calls():
            at = (t.get("arg_tys") or [""])[0]
            if at.startswith("&mut ") and VEC_TY in at and (b.path, bb) not in named and "indirect" not in t["func"]:
                n = cname(t["func"]).split("::")[-1]
                ctx.ob("C16.per-statement-storage", b.path == nxt.path and n in ("clear", "push"),
                       "the bound-type table is accessed mutably (%s) in %s: only the rebind branch of the parameter iterator may change it" % (n, b.path),
                       fn=b.path, construct="mutable-access", callee=n, where=b.where(bb))
        for bb, i, s_ in b.stmts():
            if s_["k"] == "assign" and s_["lhs"]["p"] and s_["lhs"]["p"][0] == "deref" and b.local_ty(s_["lhs"]["l"]).startswith("&mut " + VEC_TY):
                ctx.ob("C16.per-statement-storage", False, "an entry of the bound-type table is overwritten in place in %s" % b.path, fn=b.path, construct="element-store",
                       where=b.where(bb, i))
    for n, b, bb, t in muts:
        ctx.ob("C16.per-statement-storage", b.path == nxt.path, "bound types are mutated (%s) outside the parameter iterator: %s" % (n, b.path),
               fn=b.path, construct="mutation", callee=n, where=b.where(bb))
    ctx.floor("C16.per-statement-storage", "mutations of the type table", len(muts), 2)

    # ---- rebind-replaces -------------------------------------------------------------------
    clears = [bb for n, b, bb, t in muts if n == "clear" and b.path == nxt.path]
    pushes = [bb for n, b, bb, t in muts if n == "push" and b.path == nxt.path]
    others = [(n, bb) for n, b, bb, t in muts if n not in ("clear", "push") and b.path == nxt.path]
    ctx.ob("C16.rebind-replaces", len(clears) == 1 and len(pushes) >= 1 and not others,
           "expected one clear() and push() sites on the type table, found clear=%d push=%d other=%s" % (len(clears), len(pushes), others),
           fn=nxt.path, construct="anchors", nontrivial=False)
    flag_sw = None   # (bb, nonzero_target, zero_target)
    for bb in range(nxt.n):
        t = nxt.term(bb)
        if t["k"] != "switch" or nxt.is_cleanup(bb):
            continue
        v = nxt.origin_op(t["discr"], bb, len(nxt.blocks[bb]["stmts"]))
        if isinstance(v, tuple) and v[0] == "bin" and v[1] in ("Ne", "Eq") and T.is_const_int(v[3], 0):
            rd = cursor.reading(v[2])
            if rd is not None and rd["width"] == 1 and rd["off"].is_const() is False or (rd is not None and rd["width"] == 1):
                # the byte right after the null bitmap
                if "0" in t["vals"]:
                    zt = t["tgts"][t["vals"].index("0")]
                    nz = t["otherwise"]
                    if v[1] == "Eq":
                        zt, nz = nz, zt
                    flag_sw = (bb, nz, zt, rd)
                    break
    if flag_sw is None:
        # the byte itself is switched on: `match rest.split_first() { Some((&0, values)) => .., Some((_, tail)) => .. }`, `match flag { 0 => .. }`
        for bb in range(nxt.n):
            t = nxt.term(bb)
            if t["k"] != "switch" or nxt.is_cleanup(bb) or "0" not in t["vals"] or t.get("dty") not in ("u8", None):
                continue
            v = nxt.origin_op(t["discr"], bb, len(nxt.blocks[bb]["stmts"]))
            if isinstance(v, tuple) and v[0] in ("bin", "discr", "const"):
                continue
            rd = cursor.reading(v)
            if rd is not None and rd["width"] == 1 and len(t["vals"]) == 1:
                flag_sw = (bb, t["otherwise"], t["tgts"][0], rd)
                break
    if not ctx.ob("C16.rebind-replaces", flag_sw is not None, "no test of the new-params-bound byte found in the parameter iterator", fn=nxt.path,
                  construct="flag-test", nontrivial=False):
        return
    fbb, nz, zt, rd = flag_sw
    if clears:
        ctx.ob("C16.rebind-replaces", nxt.dominates(nz, clears[0]) and nz != zt,
               "clear() of the bound types is not confined to the `types present` branch", fn=nxt.path, construct="clear-under-flag", where=nxt.where(clears[0]))
        for pb in pushes:
            ctx.ob("C16.rebind-replaces", nxt.dominates(clears[0], pb),
                   "a push to the bound types is not preceded by clear(): old types would survive a rebind", fn=nxt.path, construct="clear-dominates-push",
                   where=nxt.where(pb))
    # loop shape: pushes inside a loop over Range{0, params}
    loops = nxt.loops()
    for pb in pushes:
        hs = [h for h, blks in loops.items() if pb in blks]
        ok = len(hs) == 1
        why = "push is not inside exactly one loop"
        if ok:
            h = hs[0]
            # iterator of the loop: the Iterator::next call in the header block
            t = nxt.term(h)
            itn = nxt.arg_origin(h, 0) if t["k"] == "call" and cname(t["func"]).endswith("::next") else None
            rng = T.find(itn, lambda x: isinstance(x, tuple) and x[0] == "agg" and (x[2] or "").endswith("ops::Range")) if itn else None
            ok = rng is not None and T.is_const_int(rng[4][0], 0) and T.affine(rng[4][1]) == Aff(0, {("path", "self", "params"): 1})
            why = "loop range is %s (need 0..params)" % (term_str(rng) if rng else term_str(itn) if itn else None)
            if not ok and itn is not None:
                # the same count as an iteration over the 2-byte entries of the type table: chunks_exact(2) of a slice of 2*params bytes
                ch = T.find(itn, lambda x: T.is_call(x, r"slice::<impl \[T\]>::chunks_exact$"))
                if ch is not None and T.is_const_int(ch[2][1], 2):
                    cb, coff, cln = cursor.locate(ch[2][0])
                    ok = cln is not None and cln == Aff(0, {("path", "self", "params"): 2})
                    why = "loop iterates chunks_exact(2) of a slice of %r bytes (need 2*params)" % (cln,)
            if ok:
                # one push per iteration
                cnts = set()
                for p in enumerate_paths(nxt, start=h, stop_second={h}, max_visits=2):
                    if p.end == "stop":
                        cnts.add(sum(1 for b in p.blocks if b in pushes))
                ok = cnts == {1}
                why = "pushes per iteration: %s" % sorted(cnts)
        ctx.ob("C16.rebind-replaces", ok, "rebind must push exactly `params` entries: " + why, fn=nxt.path, construct="push-loop", where=nxt.where(pb),
               sample={"rule": "rebind-replaces", "why": why})
    # what is pushed: (try_from(typmap[2i]), typmap[2i+1] & 0x80 != 0) relative to the byte after the flag
    for pb in pushes:
        val = nxt.arg_origin(pb, 1)
        ok = val[0] == "agg" and len(val[4]) == 2 and (val[1] == "tuple" or (val[1] == "adt" and val[2] == VEC_TY))
        if ok and val[1] == "adt":
            # struct form: order the two fields as (type, unsigned) by their values' shapes
            f0, f1 = val[4]
            if isinstance(f0, tuple) and f0[0] == "bin":
                val = (val[0], val[1], val[2], val[3], (f1, f0)) + tuple(val[5:])
        why = "pushed value is %s" % term_str(val)[:160]
        if ok:
            ty, uns = val[4]
            tyr = T.find(ty, lambda x: cursor.reading(x) is not None)
            tr = cursor.reading(tyr) if tyr is not None else None
            ur = None
            mask = None
            if isinstance(uns, tuple) and uns[0] == "bin" and uns[1] == "Ne" and T.is_const_int(uns[3], 0) and uns[2][0] == "bin" and uns[2][1] == "BitAnd":
                ur = cursor.reading(uns[2][2])
                mask = T.const_int(uns[2][3])
            i_atom = None
            ok = tr is not None and ur is not None and mask == 0x80
            if ok:
                # offsets relative to the flag byte: type at +1+2i, flag at +2+2i
                d1 = tr["off"].add(rd["off"], -1)
                d2 = ur["off"].add(rd["off"], -1)
                ok = d2.add(d1, -1) == Aff(1) and d1.c == 1 and len(d1.m) == 1 and list(d1.m.values()) == [2] and tr["base"] == rd["base"] == ur["base"]
                why = "type byte at flag+%r, unsigned byte at flag+%r, mask %#x" % (d1, d2, mask)
            else:
                why = "type read=%s unsigned read=%s mask=%s" % (tr, ur, mask)
        ctx.ob("C16.rebind-replaces", ok, "type table entry i must be (byte 1+2i after the flag, bit 7 of byte 2+2i): " + why, fn=nxt.path,
               construct="type-entry", where=nxt.where(pb), sample={"rule": "type-entry", "why": why})

    # ---- flag-consumed ---------------------------------------------------------------------
    # position: the `col >= params` test; evaluate the stored cursor `self.input` there on every path from entry
    guard = None
    for bb in range(nxt.n):
        t = nxt.term(bb)
        if t["k"] == "switch" and not nxt.is_cleanup(bb):
            v = nxt.origin_op(t["discr"], bb, len(nxt.blocks[bb]["stmts"]))
            if isinstance(v, tuple) and v[0] == "bin" and v[1] in ("Ge", "Lt") and T.is_field(T.peel(v[2]), "col") and T.is_field(T.peel(v[3]), "params"):
                guard = bb
    if not ctx.ob("C16.flag-consumed", guard is not None, "no `col >= params` guard found", fn=nxt.path, construct="guard", nontrivial=False):
        return
    nul_len = None
    npaths = 0
    for p in enumerate_paths(nxt, stop_at={guard}, max_visits=2):
        if p.end != "stop":
            continue
        pos = len(p.blocks) - 1
        if fbb not in p.blocks and not any(b for b in p.blocks if cname(nxt.term(b).get("func", {"path": ""})) .endswith("split_at")):
            continue  # not the header-parsing call
        cur = p.origin_place({"l": 1, "p": ["deref", {"f": 1, "n": "input", "ty": "", "of": ""}]}, pos, None)
        base, off, ln = cursor.locate(cur)
        # the nullmap length: offset of the flag byte
        flag_off = rd["off"]
        saw_flag = fbb in p.blocks
        took_nz = saw_flag and p.blocks[p.blocks.index(fbb) + 1] == nz
        npaths += 1
        if not saw_flag:
            # payload ended right after the bitmap (no flag byte present): nothing to consume
            continue
        n2 = Aff(0, {("path", "self", "params"): 2})
        expect = flag_off.add(Aff(1)).add(n2 if took_nz else Aff(0))
        ok = T.is_field(T.peel(base), "input") and off == expect
        ctx.ob("C16.flag-consumed", ok,
               "after the header the value cursor starts at offset [%r] but values start at [%r] (%s branch)" % (off, expect, "types-present" if took_nz else "reuse"),
               fn=nxt.path, construct="value-cursor", callee="reuse" if not took_nz else "rebind", where=nxt.where(p.blocks[p.blocks.index(fbb) + 1]),
               key_extra={"branch": "rebind" if took_nz else "reuse"},
               sample={"rule": "flag-consumed", "branch": "rebind" if took_nz else "reuse", "offset": repr(off), "expected": repr(expect)})
    ctx.floor("C16.flag-consumed", "header paths reaching the column guard", npaths, 3)

    # ---- types-used ------------------------------------------------------------------------
    n = 0
    for bb, t in nxt.calls():
        if cname(t["func"]).endswith("::parse_from"):
            n += 1
            ct = nxt.arg_origin(bb, 1)
            un = nxt.arg_origin(bb, 2)
            def entry_of(x, fld):
                # field(index(bound_types, cast(col)), fld)  — tuple position, or the struct field of that type
                if not (isinstance(x, tuple) and x[0] == "field"):
                    return False
                if x[3] != fld:
                    ea_ = prog.adts.get(VEC_TY)
                    want_ty = "myc::constants::ColumnType" if fld == 0 else "bool"
                    if not (ea_ and any(ff["name"] == x[2] and ff["ty"] == want_ty for ff in ea_["variants"][0]["fields"])):
                        return False
                e = x[1]
                if T.is_call(e, r"Index<.*>>::index$|Index::index$"):
                    return T.is_field(T.peel(e[2][0]), "bound_types") and T.affine(e[2][1]) == Aff(0, {("path", "self", "col"): 1})
                return False
            ok = entry_of(ct, 0) and entry_of(un, 1)
            ctx.ob("C16.types-used", ok, "the inline value parser is not given (bound_types[col].0, bound_types[col].1): got (%s, %s)" % (term_str(ct)[-80:], term_str(un)[-80:]),
                   fn=nxt.path, construct="parse-args", where=nxt.where(bb), sample={"rule": "types-used", "coltype": term_str(ct)[-80:]})
    ctx.floor("C16.types-used", "inline value parser calls", n, 1)

    # ---- the rebind does not depend on what the shim does with the parameters ---------------------------------
    # "decoded with the types supplied by the most recent execution that carried them" needs the store of those types to happen for
    # *every* execution that carries them.  Necessary condition on the call graph: the function that rewrites the table is reachable
    # from the command loop itself (through the crate's own calls), not only from code the shim may or may not run (the parameter
    # iterator's `next`, `into_iter`): a shim that answers an execution without looking at its parameters otherwise leaves the
    # types of an older execution in place.
    ctx.rule("C16.rebind-unconditional", "the function that rewrites the type table is reached from the command loop's own calls, not only from shim-driven iteration")
    loop = prog.one(r"^MysqlIntermediary::<B, RW>::run$")
    own = prog.reachable_fns([loop.path])
    stores = sorted({b.path for n_, b, bb, t in muts})
    for f in stores:
        ctx.ob("C16.rebind-unconditional", f in own,
               "the type table is rewritten in %s, which the command loop never calls itself: an execution whose parameters the shim does not iterate "
               "does not store the types it carried, and a later execution without types is decoded with older ones" % f,
               fn=f, construct="shim-driven-rebind", where=prog.bodies[f].where(0) if f in prog.bodies else None,
               sample={"rule": "rebind-unconditional", "fn": f, "reached_from_loop": f in own})
    ctx.floor("C16.rebind-unconditional", "functions that rewrite the type table", len(stores), 1)
