#!/usr/bin/env python3
"""Run the checks against every confirmed seeded change under /verif/seeded (scratch copy of
/repo + patch; nothing is applied to /repo; evidence of these runs goes to a scratch directory).
Prints which checks catch which seed."""
import glob, json, os, re, shutil, subprocess, sys, tempfile
from concurrent.futures import ThreadPoolExecutor
HERE = os.path.dirname(os.path.abspath(__file__))
claimed = [c["property_id"] for c in json.load(open(os.path.join(HERE, "MANIFEST.json")))["checks"]]
only = [a for a in sys.argv[1:] if not a.startswith("-")]
own_only = "--own" in sys.argv     # only the seed's own property (fast)


def one(d):
    sid = os.path.basename(d)
    meta = json.load(open(os.path.join(d, "meta.json")))
    scratch = tempfile.mkdtemp(prefix="msqlx-seed-")
    evd = tempfile.mkdtemp(prefix="msqlx-ev-")
    try:
        subprocess.run(["rsync", "-a", "--exclude", "target", "--exclude", ".git", "/repo/", scratch + "/"], check=True)
        r = subprocess.run(["patch", "-p1", "-s", "--no-backup-if-mismatch", "-i", os.path.join(d, "patch.diff")], cwd=scratch, capture_output=True, text=True)
        if r.returncode != 0:
            return (sid, "PATCH-FAILED", r.stdout[-300:])
        caught = []
        props = [meta["property"]] + ([] if own_only else [p for p in claimed if p != meta["property"]])
        for prop in props:
            if prop not in claimed:
                continue
            r = subprocess.run([os.path.join(HERE, "check"), prop], env=dict(os.environ, MSQLX_REPO=scratch, MSQLX_EVIDENCE_DIR=evd), capture_output=True, text=True, cwd=HERE)
            if r.returncode == 1:
                caught.append("%s[%s]" % (prop, ",".join(sorted(set(re.findall(r"violation rule=(\S+)", r.stdout))))))
            elif r.returncode not in (0, 1):
                caught.append("%s[rc=%d]" % (prop, r.returncode))
        own = any(c.startswith(meta["property"] + "[") and "rc=" not in c for c in caught)
        return (sid, "CAUGHT" if own else ("OTHER-ONLY" if caught else "MISSED"), " ".join(caught))
    finally:
        shutil.rmtree(scratch, ignore_errors=True)
        shutil.rmtree(evd, ignore_errors=True)


dirs = [d for d in sorted(glob.glob(os.path.join(HERE, "seeded", "*"))) if not only or any(os.path.basename(d).startswith(o) for o in only)]
bad = 0
with ThreadPoolExecutor(max_workers=5) as ex:
    for row in ex.map(one, dirs):
        print("%-8s %-10s %s" % row, flush=True)
        bad += row[1] != "CAUGHT"
print("seeded: %d run, %d not caught by their own property's check" % (len(dirs), bad))
sys.exit(1 if bad else 0)
