// D10 (C19): a transport error while an unfinished RowWriter / QueryResultWriter is dropped
// panics (the Drop impls unwrap the finaliser) instead of surfacing as an error from run_on.
mod harness;
use harness::*;
use msql_srv::*;
use std::cell::RefCell;
use std::io::{self, Read, Write};
use std::rc::Rc;

#[derive(Clone)]
struct Faulty { inner: Pipe, writes_left: Rc<RefCell<i64>> }
impl Read for Faulty { fn read(&mut self, b: &mut [u8]) -> io::Result<usize> { self.inner.read(b) } }
impl Write for Faulty {
    fn write(&mut self, b: &[u8]) -> io::Result<usize> {
        let mut n = self.writes_left.borrow_mut();
        *n -= 1;
        if *n < 0 { return Err(io::Error::new(io::ErrorKind::BrokenPipe, "injected")); }
        self.inner.write(b)
    }
    fn flush(&mut self) -> io::Result<()> { Ok(()) }
}
struct Shim;
impl MysqlShim<Faulty> for Shim {
    type Error = io::Error;
    fn on_prepare(&mut self, _: &str, i: StatementMetaWriter<'_, Faulty>) -> io::Result<()> { i.reply(1, &[], &[]) }
    fn on_execute(&mut self, _: u32, _: ParamParser<'_>, r: QueryResultWriter<'_, Faulty>) -> io::Result<()> { r.completed(0, 0) }
    fn on_close(&mut self, _: u32) {}
    fn on_query(&mut self, _: &str, r: QueryResultWriter<'_, Faulty>) -> io::Result<()> {
        let cols = [Column { table: String::new(), column: "a".into(), coltype: ColumnType::MYSQL_TYPE_LONG, colflags: ColumnFlags::empty() }];
        let mut w = r.start(&cols)?;   // column definitions: several transport writes
        w.write_row(std::iter::once(1i32))?;
        Ok(())                          // RowWriter dropped unfinished: Drop writes the EOF
    }
}
#[test]
fn transport_error_during_drop_is_an_error_not_a_panic() {
    let mut bytes = handshake();
    bytes.extend(packet(0, b"\x03SELECT 1"));
    bytes.extend(packet(0, &[0x01]));
    // let the greeting, the auth OK, the column count, the definition, the EOF and the row through; fail the final EOF
    for allowed in 0..12 {
        let pipe = Pipe { input: Rc::new(RefCell::new(io::Cursor::new(bytes.clone()))), output: Default::default(), chunk: 0 };
        let left = Rc::new(RefCell::new(allowed));
        let t = Faulty { inner: pipe, writes_left: left.clone() };
        let r = std::panic::catch_unwind(std::panic::AssertUnwindSafe(|| MysqlIntermediary::run_on(Shim, t)));
        assert!(r.is_ok(), "run_on panicked when transport write #{} failed", allowed + 1);
        // whenever the injected fault actually fired, run_on must report it (never mask it)
        if *left.borrow() < 0 { assert!(r.unwrap().is_err(), "fault at write #{} was masked", allowed + 1); }
    }
}
