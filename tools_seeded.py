#!/usr/bin/env python3
"""Run the checks against every confirmed seeded change under /verif/seeded (scratch copy of
/repo + patch; nothing is applied to /repo).  Prints which checks catch which seed."""
import glob, json, os, re, shutil, subprocess, sys, tempfile
HERE = os.path.dirname(os.path.abspath(__file__))
claimed = [c["property_id"] for c in json.load(open(os.path.join(HERE, "MANIFEST.json")))["checks"]]
only = sys.argv[1:]
rows = []
for d in sorted(glob.glob(os.path.join(HERE, "seeded", "*"))):
    sid = os.path.basename(d)
    if only and not any(sid.startswith(o) for o in only):
        continue
    meta = json.load(open(os.path.join(d, "meta.json")))
    scratch = tempfile.mkdtemp(prefix="msqlx-seed-")
    try:
        subprocess.run(["rsync", "-a", "--exclude", "target", "--exclude", ".git", "/repo/", scratch + "/"], check=True)
        r = subprocess.run(["patch", "-p1", "-s", "--no-backup-if-mismatch", "-i", os.path.join(d, "patch.diff")], cwd=scratch, capture_output=True, text=True)
        if r.returncode != 0:
            rows.append((sid, "PATCH-FAILED", r.stdout[-300:])); continue
        caught = []
        props = [meta["property"]] + [p for p in claimed if p != meta["property"]]
        for prop in props:
            if prop not in claimed:
                continue
            r = subprocess.run([os.path.join(HERE, "check"), prop], env=dict(os.environ, MSQLX_REPO=scratch), capture_output=True, text=True, cwd=HERE)
            if r.returncode == 1:
                caught.append("%s[%s]" % (prop, ",".join(sorted(set(re.findall(r"violation rule=(\S+)", r.stdout))))))
            elif r.returncode not in (0, 1):
                caught.append("%s[rc=%d]" % (prop, r.returncode))
        rows.append((sid, "CAUGHT" if caught else "MISSED", " ".join(caught)))
    finally:
        shutil.rmtree(scratch, ignore_errors=True)
for r in rows:
    print("%-8s %-8s %s" % r)
for prop in claimed:
    subprocess.run([os.path.join(HERE, "check"), prop], capture_output=True, text=True, cwd=HERE)
