// D14 (C13 / C03): in binary (prepared-statement) mode RowWriter::write_col puts the row header byte 0x00 straight into
// the connection's packet buffer before it encodes the first value.  If that encoding is refused (wrong type for the
// column) the call returns Err with the stray 0x00 left in the buffer, and an ERR reply the shim then sends with
// finish_error() goes out as `00 ff <code> ...` — a packet the client reads as an OK, not as the error.
mod harness;
use harness::*;
use msql_srv::*;
use std::io;

struct Shim;
impl MysqlShim<Pipe> for Shim {
    type Error = io::Error;
    fn on_prepare(&mut self, _: &str, i: StatementMetaWriter<'_, Pipe>) -> io::Result<()> { i.reply(1, &[], &[]) }
    fn on_execute(&mut self, _: u32, _: ParamParser<'_>, r: QueryResultWriter<'_, Pipe>) -> io::Result<()> {
        let cols = [Column { table: String::new(), column: "a".into(), coltype: ColumnType::MYSQL_TYPE_LONG, colflags: ColumnFlags::empty() }];
        let mut w = r.start(&cols)?;
        // a string is not a LONG: the encoder refuses it
        match w.write_col("not a number") {
            Ok(()) => panic!("a string was accepted for a LONG column"),
            Err(_) => w.finish_error(ErrorKind::ER_TRUNCATED_WRONG_VALUE, &b"bad value".to_vec()),
        }
    }
    fn on_close(&mut self, _: u32) {}
    fn on_query(&mut self, _: &str, r: QueryResultWriter<'_, Pipe>) -> io::Result<()> { r.completed(0, 0) }
}

#[test]
fn error_after_a_refused_first_cell_reaches_the_client_as_err() {
    let mut bytes = handshake();
    bytes.extend(packet(0, b"\x16SELECT ?"));                        // COM_STMT_PREPARE
    let mut ex = vec![0x17, 1, 0, 0, 0, 0, 1, 0, 0, 0];               // COM_STMT_EXECUTE id 1, no params
    ex.extend_from_slice(&[]);
    bytes.extend(packet(0, &ex));
    bytes.extend(packet(0, &[0x01]));                                // COM_QUIT
    let (r, out) = run(Shim, bytes);
    assert!(r.is_ok(), "{:?}", r.err());
    let pkts = split(&out);
    // the last packet of the execute reply must be an ERR packet: first byte ff, then the code 1292, '#', sqlstate
    let last = pkts.last().unwrap();
    assert_eq!(last.1[0], 0xff, "the error reply starts with {:02x?} (a stray row header precedes the ERR bytes)", &last.1[..last.1.len().min(6)]);
    assert_eq!(u16::from_le_bytes([last.1[1], last.1[2]]), 1292);
}
