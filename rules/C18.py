"""C18 — TLS upgrade loses no bytes and leaks no plaintext (hand-off, delegation, ownership, ordering clauses)."""
import re

from engines import effects, typestate
from engines.paths import enumerate_paths, classify_return
from engines.prog import cname, term_str, place_fields, op_place
from engines import terms as T
from engines.terms import Aff

CONFIGS = ["tls"]
LEVEL = "other"
EXPLANATION = (
    "Clauses of the TLS upgrade that are visible in the code's shape (default-features build). Tail hand-off: the slice given "
    "to the TLS stream at the switch is bytes[len - remaining ..] — by the receive-window invariant (C01) exactly the bytes "
    "received after the SSL request packet — and remaining := 0 afterwards on every path, so those bytes are interpreted "
    "exactly once, as TLS. The prepended bytes are read before the socket: the wrapper's reader is Cursor(prepended.to_vec())."
    "chain(socket) and its Read delegates to that chain, its Write/flush to the socket half. Variant delegation: "
    "SwitchableConn::{read, write, flush} call the same-named method of the active variant in both arms (6 arms), and the "
    "prepending wrapper forwards write and flush to the inner transport. Ownership: the plain socket is moved out with "
    "Option::take and re-stored inside the TLS variant; the error arms return without restoring a usable plain variant, the switch "
    "is called from exactly one place, before which the connection state is clean (no buffered plaintext reply is pending). "
    "Init order: a client that sets CLIENT_SSL without a TLS configuration is refused before after_authentication; with one, "
    "the order is switch -> read -> parse(after_tls = true) -> user name from that response -> client certificates -> "
    "after_authentication. rustls itself (record chunking, certificate validation, absence of plaintext produced inside it) "
    "is outside this analysis.")
ASSUMPTIONS = ["rustls StreamOwned reads/writes only through the wrapped transport it is given", "std::io::Chain reads the first reader to exhaustion before the second"]


def _filled_from(fn, cursor, pidx):
    """Cursor::new(v) where v starts as an empty Vec (new / with_capacity) and the only thing done to it before the cursor takes it is
    one `extend_from_slice(param)` / `extend(param)` of the whole parameter, on every way to the cursor: same content as to_vec()."""
    v0 = T.peel(cursor[2][0], payloads=False)
    if not T.is_call(v0, r"Vec::<T>::new$|Vec::<T>::with_capacity$"):
        return False
    site = cursor[3] if len(cursor) > 3 and isinstance(cursor[3], int) else None
    if site is None:
        return False
    fills = []
    for bb, t in fn.calls():
        if not t["args"] or bb == site:
            continue
        a0 = fn.origin_op(t["args"][0], bb, len(fn.blocks[bb]["stmts"]))
        if T.peel(a0, payloads=False) != v0:
            continue
        name = cname(t["func"])
        if re.search(r"Vec::<T(, A)?>::(len|capacity|reserve|reserve_exact|is_empty)$", name):
            continue
        if re.search(r"Vec::<T(, A)?>::extend_from_slice$|Extend<.*>>::extend$", name) and len(t["args"]) == 2 and \
                T.is_param(T.peel(fn.origin_op(t["args"][1], bb, len(fn.blocks[bb]["stmts"]))), pidx):
            fills.append(bb)
            continue
        return False   # anything else touching the vector (truncate, clear, push, drain, ...) is not recognised
    if len(fills) != 1 or not fn.dominates(fills[0], site):
        return False
    # not inside a loop: the fill must not be able to reach itself
    return fills[0] not in fn.reachable_after(fills[0])


def run(ctx):
    prog = ctx.prog("tls")
    roles, eff = effects.build(prog)
    ctx.rule("C18.tail-handoff", "TLS stream gets bytes[len-remaining..]; remaining := 0; prepended bytes read first")
    ctx.rule("C18.variant-delegation", "SwitchableConn / PrependedReader forward read, write, flush to the right inner object")
    ctx.rule("C18.ownership", "plain socket moved into the TLS stream; single switch site reached in a clean state")
    ctx.rule("C18.init-order", "SSL without config refused before the shim; switch -> read -> parse(true) -> username -> certs -> after_authentication")

    sw = prog.one(r"^packet::PacketConn::<\w+>::switch_to_tls$")
    isw = prog.one(r"^tls::SwitchableConn::<T>::switch_to_tls$")
    for b in (sw, isw):
        ctx.fn(b)
    # ---- tail hand-off ---------------------------------------------------------------------------
    calls = [(bb, t) for bb, t in sw.calls() if cname(t["func"]) == isw.path]
    ok = len(calls) == 1
    ctx.ob("C18.tail-handoff", ok, "the connection must hand over to the TLS stream at exactly one call (found %d)" % len(calls), fn=sw.path, construct="switch-call", nontrivial=False)
    if ok:
        bb, t = calls[0]
        tail = sw.arg_origin(bb, 2)
        ix = T.find(tail, lambda x: T.is_call(x, r"Index<I>>::index$|Index::index$"))
        good = ix is not None and T.is_field(T.peel(ix[2][0]), "bytes") and ix[2][1][0] == "agg" and (ix[2][1][2] or "").endswith("RangeFrom")
        start = None
        if good:
            def atomize(x):
                if T.is_call(x, r"Vec::<T, A>::len$") and T.is_field(T.peel(x[2][0]), "bytes"):
                    return ("len", ("path", "self", "bytes"))
                return None
            start = T.affine(ix[2][1][4][0], atomize)
            good = start == Aff(0, {("len", ("path", "self", "bytes")): 1, ("path", "self", "remaining"): -1})
        if not good:
            # however the sub-slice is spelled (`bytes.split_at(len - remaining).1`, `&bytes[..][k..]`): located as (base, offset, length)
            from engines import cursor as _cur
            lb, lo_, ll = _cur.locate(tail)
            if T.is_field(T.peel(lb), "bytes") and isinstance(lo_, Aff) and lo_.c == 0 and len(lo_.m) == 2:
                pos_ = [a for a, c_ in lo_.m.items() if c_ == 1]
                neg_ = [a for a, c_ in lo_.m.items() if c_ == -1]
                def _is_len_bytes(a):
                    if isinstance(a, tuple) and len(a) == 2 and a[0] == "len" and isinstance(a[1], tuple) and a[1] and a[1][0] == "path" and a[1][-1] == "bytes":
                        return True
                    return T.contains(a, lambda x: (T.is_call(x, r"Vec::<T, A>::len$|slice::<impl \[T\]>::len$") or (isinstance(x, tuple) and x and x[0] == "un" and x[1] == "PtrMetadata"))) and \
                        T.contains(a, lambda x: T.is_field(x, "bytes")) and not T.contains(a, lambda x: T.is_field(x, "remaining"))
                def _is_remaining(a):
                    return T.is_field(T.peel(a), "remaining") or (isinstance(a, tuple) and a and a[0] == "path" and a[-1] == "remaining")
                good = len(pos_) == 1 and len(neg_) == 1 and _is_len_bytes(pos_[0]) and _is_remaining(neg_[0])
                start = lo_
        ctx.ob("C18.tail-handoff", good, "the TLS stream is seeded with %s (start %r); need bytes[len - remaining ..], the bytes received after the SSL request" % (term_str(tail)[:80], start),
               fn=sw.path, construct="tail-slice", where=sw.where(bb), sample={"rule": "tail-handoff", "start": repr(start)})
        # remaining := 0 on every path after the call
        n = 0
        for p in enumerate_paths(sw):
            if p.end != "return":
                continue
            n += 1
            zeroed = False
            after = False
            for blk in p.blocks:
                for si_, s in enumerate(sw.blocks[blk]["stmts"]):
                    to_remaining = s["k"] == "assign" and place_fields(s["lhs"]) == ["remaining"]
                    if s["k"] == "assign" and not to_remaining and s["lhs"]["p"] == ["deref"]:
                        # `*remaining = 0` through a reference taken by destructuring `Self { remaining, .. } = self`
                        to_remaining = T.is_field(T.peel(sw.origin_local(s["lhs"]["l"], blk, si_)), "remaining")
                    if after and to_remaining:
                        zeroed = s["rv"]["k"] == "use" and (s["rv"]["op"].get("const") or {}).get("int") == "0"
                if blk == bb:
                    after = True
            ctx.ob("C18.tail-handoff", zeroed, "after the hand-over `remaining` is not reset to 0: the same bytes would also be parsed as plaintext packets", fn=sw.path,
                   construct="remaining-zero", where=sw.where(p.blocks[-1]))
        ctx.floor("C18.tail-handoff", "paths of the hand-over function", n, 1)
    # the bytes handed over are opaque: whatever was read behind the SSL request — nothing, one byte of a record header, a whole
    # ClientHello — is replayed as it is.  A decision of the hand-over functions that depends on those bytes (their content, or
    # how many there are) treats some chunkings of the same stream differently.
    for hb, pidx in ((sw, None), (isw, 3)):
        nbr = 0
        for bb in range(hb.n):
            t = hb.term(bb)
            if t["k"] != "switch" or hb.is_cleanup(bb):
                continue
            v = hb.origin_op(t["discr"], bb, len(hb.blocks[bb]["stmts"]))
            def _on_tail(x):
                if pidx is not None:
                    return isinstance(x, tuple) and len(x) > 1 and x[0] == "param" and x[1] == pidx
                # in PacketConn::switch_to_tls the tail is a slice of self.bytes
                return isinstance(x, tuple) and len(x) > 2 and x[0] == "call" and isinstance(x[1], str) and re.search(r"Index<.*>>::index$|Index::index$", x[1]) is not None and \
                    isinstance(x[2], tuple) and len(x[2]) > 0 and T.is_field(T.peel(x[2][0]), "bytes")
            def _looks_at_tail(x, depth=0):
                # the tail passed on to a function of the crate (the reader's constructor, the stream factory) is a hand-over, not
                # a look at it: only std operations on the tail itself count (is_empty, len, indexing, pattern tests)
                if depth > 80 or not isinstance(x, tuple) or not x:
                    return False
                if isinstance(x[0], str):
                    if _on_tail(x):
                        return True
                    if x[0] == "call" and len(x) > 1 and isinstance(x[1], str) and x[1] in prog.bodies:
                        return False
                return any(_looks_at_tail(y, depth + 1) for y in x if isinstance(y, tuple))
            if _looks_at_tail(v):
                nbr += 1
                ctx.ob("C18.tail-handoff", False, "%s branches on the bytes received behind the SSL request (%s): the upgrade then depends on how the transport chunked the stream"
                       % (hb.path, term_str(v)[:100]), fn=hb.path, construct="branch-on-tail", where=hb.where(bb))
        ctx.ob("C18.tail-handoff", True, "", fn=hb.path, construct="tail-opaque", nontrivial=False) if nbr == 0 else None

    # PrependedReader::new: Cursor(prepended.to_vec()).chain(rw)
    pn = prog.one(r"^tls::PrependedReader::<RW>::new$")
    ctx.fn(pn)
    rb = pn.return_blocks()[0]
    o = pn.origin_place({"l": 0, "p": []}, rb, len(pn.blocks[rb]["stmts"]))
    # the reader has exactly one field, the chain (whatever it is called)
    inner = o[4][0] if o[0] == "agg" and len(o[4]) == 1 else None
    ok = T.is_call(inner, r"std::io::Read::chain$") and T.is_call(T.peel(inner[2][0], payloads=False), r"Cursor::<T>::new$") and T.is_param(T.peel(inner[2][1]), 2) and \
        T.contains(inner[2][0], lambda x: T.is_call(x, r"to_vec$|to_owned$|Vec<T>>::from$|From<&\[T\]>>::from$|From<&'?\w* ?\[T\]>>::from$") and T.is_param(T.peel(x[2][0]), 1))
    if not ok and T.is_call(inner, r"std::io::Read::chain$") and T.is_call(T.peel(inner[2][0], payloads=False), r"Cursor::<T>::new$") and T.is_param(T.peel(inner[2][1]), 2):
        ok = _filled_from(pn, T.peel(inner[2][0], payloads=False), 1)
    ctx.ob("C18.tail-handoff", ok, "the prepending reader is %s (need Cursor(prepended.to_vec()).chain(socket): prepended bytes first, all of them)" % term_str(inner)[:100],
           fn=pn.path, construct="chain-order", sample={"rule": "tail-handoff", "reader": term_str(inner)[:100]})
    # the inner switch passes the prepend slice and the plain socket to PrependedReader::new
    pcalls = [(bb, t) for bb, t in isw.calls() if cname(t["func"]) == pn.path]
    ok = len(pcalls) == 1 and T.is_param(T.peel(isw.arg_origin(pcalls[0][0], 0)), 3) and \
        T.contains(isw.arg_origin(pcalls[0][0], 1), lambda x: T.is_call(x, r"Option::<T>::take$"))
    ctx.ob("C18.ownership", ok, "the TLS stream must wrap the plain socket taken out of the connection together with the to_prepend slice", fn=isw.path, construct="wrap-taken-socket")

    # ---- delegation ------------------------------------------------------------------------------------
    n = 0
    for meth in ("read", "write", "flush"):
        tr = "std::io::Read" if meth == "read" else "std::io::Write"
        b = prog.one(r"^<tls::SwitchableConn<T> as %s>::%s$" % (re.escape(tr), meth))
        ctx.fn(b)
        for p in enumerate_paths(b):
            if p.end != "return":
                continue
            inner = [(pos, t) for pos, blk, t in p.calls() if t["func"]["path"] in ("std::io::Read::read", "std::io::Write::write", "std::io::Write::flush")]
            inner_calls = [cname(t["func"]) for pos, t in inner]
            n += 1
            ok = len(inner_calls) == 1 and [t["func"]["path"] for pos, blk, t in p.calls() if t["func"]["path"].startswith("std::io::")][-1:] == ["%s::%s" % (tr, meth)]
            if ok:
                # the receiver is the variant's payload itself (the plain socket / the whole TLS stream), not a part of it:
                # writing into the TLS session's buffer instead of the stream, or reading the raw socket under TLS, is no delegation
                recv = T.peel(p.arg(inner[0][0], 0))
                ok = isinstance(recv, tuple) and recv[0] == "field" and isinstance(recv[1], tuple) and recv[1][0] == "variant" and recv[1][2] in ("Plain", "Tls")
                if not ok:
                    inner_calls = ["%s on %s" % (inner_calls[0][-40:], term_str(recv)[-80:])]
                else:
                    # ... and what the wrapper answers is what the inner object answered: a count replaced by buf.len() ("rustls
                    # queues everything") or an Ok(0) swallowed turns a short write / end of stream into lost bytes
                    rv = p.return_value()
                    icn = cname(inner[0][1]["func"])

                    def _is_inner(x):
                        x = T.peel(x, payloads=False) if isinstance(x, tuple) else x
                        return isinstance(x, tuple) and x[0] == "call" and x[1] == icn

                    def _same_result(r):
                        # the call itself, or its result taken apart and put together again unchanged (`let n = inner?; Ok(n)`)
                        if _is_inner(r):
                            return True
                        if isinstance(r, tuple) and r[0] == "agg" and r[1] == "adt" and (r[2] or "").endswith("result::Result") and len(r[4]) == 1:
                            pl = r[4][0]
                            want = "okpayload" if r[3] == "Ok" else "errpayload"
                            return isinstance(pl, tuple) and pl[0] == want and _is_inner(pl[1])
                        if T.is_call(r, r"from_residual$") and len(r[2]) == 1:
                            a = r[2][0]
                            return isinstance(a, tuple) and a[0] == "errresidual" and _is_inner(a[1])
                        return False
                    ok = _same_result(rv)
                    if not ok:
                        inner_calls = ["%s, but returns %s" % (inner_calls[0][-40:], term_str(rv)[:80])]
            ctx.ob("C18.variant-delegation", ok, "SwitchableConn::%s forwards to %s on one variant (need %s::%s)" % (meth, inner_calls, tr, meth), fn=b.path, construct="arm",
                   where=b.where(p.blocks[-1]), sample={"rule": "variant-delegation", "method": meth, "inner": inner_calls} if n <= 2 else None)
    ctx.floor("C18.variant-delegation", "SwitchableConn delegation arms", n, 6)
    for meth, tr in (("read", "std::io::Read"), ("write", "std::io::Write"), ("flush", "std::io::Write")):
        b = prog.one(r"^<tls::PrependedReader<RW> as %s>::%s$" % (re.escape(tr), meth))
        ctx.fn(b)
        ics = [(bb, t) for bb, t in b.calls() if t["func"]["path"] == "%s::%s" % (tr, meth)]
        ok = len(ics) == 1
        if ok:
            recv = b.arg_origin(ics[0][0], 0)
            if meth == "read":
                r_ = T.peel(recv)
                ok = isinstance(r_, tuple) and r_[0] == "field" and T.is_param(T.peel(r_[1]), 1)     # the (only) field of self: the chain
            else:
                # the socket half of the chain: get_mut().1
                ok = T.contains(recv, lambda x: T.is_call(x, r"Chain::<T, U>::get_mut$")) and isinstance(recv, tuple) and recv[0] == "field" and recv[3] == 1
        ctx.ob("C18.variant-delegation", ok, "PrependedReader::%s must forward to %s (found %d forwarding calls)" % (meth, "the chain" if meth == "read" else "the socket half of the chain", len(ics)),
               fn=b.path, construct="wrapper-forward", callee=meth)

    # any further method of Read / Write that a wrapper overrides (write_vectored, write_all, read_exact, ..) replaces std's
    # default, which is defined in terms of read / write: it must be a plain forward of the same call to the same inner object —
    # a hand-written loop over buffers or a re-chunking changes which bytes reach the transport in which order
    n_extra = 0
    for imp in prog.impls:
        tp = imp.get("trait_path") or ""
        if tp not in ("std::io::Read", "std::io::Write") or not re.match(r"tls::(SwitchableConn|PrependedReader)<", imp.get("self_ty") or ""):
            continue
        for m in imp["methods"]:
            meth = m.rsplit("::", 1)[-1]
            if meth in ("read", "write", "flush") or m not in prog.bodies:
                continue
            n_extra += 1
            b = prog.bodies[m]
            ctx.fn(b)
            same = [(bb, t) for bb, t in b.calls() if t["func"]["path"] == "%s::%s" % (tp, meth)]
            other_io = [cname(t["func"]) for bb, t in b.calls() if re.match(r"std::io::(Read|Write)::", t["func"]["path"]) and t["func"]["path"] != "%s::%s" % (tp, meth)]
            ok = len(same) == 1 and not other_io and not b.loops()
            if ok:
                rets = [q.return_value() for q in enumerate_paths(b) if q.end == "return"]
                ok = all(isinstance(r, tuple) and r[0] == "call" and r[1] == cname(same[0][1]["func"]) for r in rets)
            ctx.ob("C18.variant-delegation", ok, "%s overrides %s::%s with something other than a plain forward of the same call (forwarding calls %d, other io calls %s, loops %d)"
                   % (imp["self_ty"], tp, meth, len(same), other_io[:3], len(b.loops())), fn=b.path, construct="extra-method", callee=meth, where=b.where(0))
    ctx.note("transport wrappers override %d Read/Write methods beyond read/write/flush" % n_extra)
    # a *new* local type that implements Read / Write (a buffering or coalescing layer slipped between the packet layer and the
    # transport) is held to the same standard: every method a plain forward of the same call, its result returned unchanged
    for imp in prog.impls:
        tp = imp.get("trait_path") or ""
        st = imp.get("self_ty") or ""
        if tp not in ("std::io::Read", "std::io::Write") or re.match(r"tls::(SwitchableConn|PrependedReader)<|packet::PacketConn<", st):
            continue
        ms = [m for m in imp["methods"] if m in prog.bodies and "::tests::" not in m]
        if not ms or not any(prog.bodies[m].raw.get("local", True) for m in ms):
            continue
        for m in ms:
            meth = m.rsplit("::", 1)[-1]
            b = prog.bodies[m]
            ctx.fn(b)
            bad = None
            if b.loops():
                bad = "contains a loop"
            for q in enumerate_paths(b):
                if q.end != "return" or bad:
                    continue
                same = [(pos, t) for pos, blk, t in q.calls() if t["func"]["path"] == "%s::%s" % (tp, meth)]
                others = [cname(t["func"]) for pos, blk, t in q.calls() if re.match(r"std::io::(Read|Write)::", t["func"]["path"]) and t["func"]["path"] != "%s::%s" % (tp, meth)]
                rv = q.return_value()
                icn = cname(same[0][1]["func"]) if same else None
                direct = isinstance(rv, tuple) and rv[0] == "call" and rv[1] == icn
                if len(same) != 1 or others or not direct:
                    bad = "a path makes %d forwarding calls, other io calls %s, returns %s" % (len(same), others[:2], term_str(rv)[:60])
            ctx.ob("C18.variant-delegation", bad is None, "%s implements %s::%s as something other than a plain forward (%s): bytes can be held back, reordered or dropped between the packet layer and the transport"
                   % (st, tp, meth, bad), fn=b.path, construct="local-io-impl", callee=meth, where=b.where(0))

    # ---- ownership -----------------------------------------------------------------------------------------
    callers = [(b, bb) for b, bb, t in prog.callers_of("^" + re.escape(sw.path) + "$") if "::tests::" not in b.path]
    ctx.ob("C18.ownership", len(callers) == 1 and callers[0][0].path == roles.f_init.path, "the TLS switch is called from %s (need exactly the handshake)" % [c[0].path for c in callers],
           fn=sw.path, construct="single-switch-site")
    if callers:
        fi = roles.f_init
        ts = typestate.ConnTypestate(prog, roles, eff)
        IN, _ = ts.run(fi, typestate.CLEAN)
        st = IN.get(callers[0][1], frozenset())
        ctx.ob("C18.ownership", set(st) <= {typestate.CLEAN}, "a plaintext reply may still be buffered when the connection switches to TLS (state %s)" % sorted(st), fn=fi.path,
               construct="clean-at-switch", where=fi.where(callers[0][1]))
    # no Clone bound / second handle: the transport type parameter of PacketConn is only Read + Write
    pc = prog.adts.get("packet::PacketConn")
    rwf = [f for f in (pc["variants"][0]["fields"] if pc else []) if f["name"] == "rw"]
    other = [f["name"] for f in (pc["variants"][0]["fields"] if pc else []) if f["name"] != "rw" and re.search(r"\bRW\b|SwitchableConn", f["ty"])]
    ctx.ob("C18.ownership", len(rwf) == 1 and not other, "the connection holds additional handles to the transport: %s" % other, fn="packet::PacketConn", construct="single-handle")

    # ---- init order --------------------------------------------------------------------------------------------
    fi = roles.f_init
    ctx.fn(fi)
    nssl = 0
    seen_ssl_tests = set()
    for p in enumerate_paths(fi, max_visits=1, limit=100000):
        if p.end != "return":
            continue
        ssl = None
        for i, blk in enumerate(p.blocks[:-1]):
            t = fi.term(blk)
            if t["k"] == "switch" and "0" in t["vals"]:
                v = p.origin_op(t["discr"], i)
                if T.is_call(v, r"CapabilityFlags>::contains$") and v[2][1][0] == "const" and v[2][1][1][0] == "bits" and v[2][1][1][1] == 0x800:
                    ssl = p.blocks[i + 1] != t["tgts"][t["vals"].index("0")]
                    # what is tested must be the capability word the client sent, unmasked: a test of a derived value
                    # (e.g. intersected with what the server advertised) lets an SSL request through as a plain login
                    recv = T.peel(v[2][0])
                    okr = T.is_field(recv, "capabilities") and T.contains(recv, lambda x: T.is_call(x, r"^commands::client_handshake$")) and \
                        not T.contains(recv, lambda x: isinstance(x, tuple) and x[0] == "call" and re.search(r"BitAnd|BitOr|BitXor|Sub|Not|intersection|difference|from_bits", x[1]))
                    if (blk, "recv") not in seen_ssl_tests:
                        seen_ssl_tests.add((blk, "recv"))
                        ctx.ob("C18.init-order", okr, "CLIENT_SSL is tested on %s, not on the capability flags the client sent" % term_str(recv)[-120:], fn=fi.path,
                               construct="ssl-test-operand", where=fi.where(blk))
        if not ssl:
            continue
        nssl += 1
        seq = []
        for pos, blk, t in p.calls():
            n_ = cname(t["func"])
            if n_ == sw.path:
                seq.append("switch")
            elif n_ == roles.f_read.path:
                seq.append("read")
            elif n_ == "commands::client_handshake":
                seq.append("parse:%s" % ("tls" if T.is_const_int(p.arg(pos, 1), 1) else "plain"))
            elif n_.endswith("::tls_certs"):
                seq.append("certs")
            elif effects.is_shim_call(t) and t["func"].get("name") == "after_authentication":
                seq.append("auth")
        if "auth" in seq:
            i_sw = seq.index("switch") if "switch" in seq else -1
            tail = seq[i_sw:] if i_sw >= 0 else []
            ok = i_sw >= 0 and tail[:3] == ["switch", "read", "parse:tls"] and "certs" in tail and tail.index("certs") < tail.index("auth") and seq.count("auth") == 1
            ctx.ob("C18.init-order", ok, "TLS path order is %s (need … switch, read, parse(after_tls), certs, after_authentication)" % seq, fn=fi.path, construct="tls-order",
                   where=fi.where(p.blocks[-1]), sample={"rule": "init-order", "sequence": seq} if nssl < 4 else None)
        if "switch" not in seq:
            # SSL requested but no switch on this path: must be the refusal (no TLS configuration) and must not reach the shim
            ctx.ob("C18.init-order", "auth" not in seq and classify_return(p) == "err", "a client requesting TLS is not upgraded yet reaches %s / returns %s" % (seq, classify_return(p)),
                   fn=fi.path, construct="refusal", where=fi.where(p.blocks[-1]))
    ctx.floor("C18.init-order", "handshake paths with CLIENT_SSL set", nssl, 3)
    # the certificates handed to the shim come from the (now TLS) connection
    tc = prog.one(r"^packet::PacketConn::<\w+>::tls_certs$")
    ctx.fn(tc)
    pcs = [cname(t["func"]) for _, t in tc.calls()]
    ctx.ob("C18.init-order", any(x.endswith("peer_certificates") for x in pcs), "tls_certs() does not read the peer certificates of the TLS connection (%s)" % pcs, fn=tc.path,
           construct="peer-certs", nontrivial=False)
    # "any client certificate chain": what tls_certs() returns is the whole list rustls holds (or None), not a part of it, and the
    # handshake stores exactly that in the context it hands to the shim
    def _whole_chain(t):
        t = T.peel(t)
        if isinstance(t, tuple) and t[0] == "agg" and t[1] == "adt" and (t[2] or "").endswith("option::Option"):
            return t[3] == "None" or (t[3] == "Some" and len(t[4]) == 1 and isinstance(t[4][0], tuple) and t[4][0][0] == "somepayload" and _whole_chain(t[4][0][1]))
        if T.is_call(t, r"Option<T> as std::ops::FromResidual<std::option::Option<std::convert::Infallible>>>::from_residual$"):
            return True     # `x?` on an Option inside a function returning Option: the residual of an Option is always None
        return T.is_call(t, r"::peer_certificates$")
    nret = 0
    for q in enumerate_paths(tc):
        if q.end != "return":
            continue
        nret += 1
        rv = q.return_value()
        ctx.ob("C18.init-order", _whole_chain(rv), "tls_certs() returns %s: the certificates the client presented do not reach the shim as the whole list (need peer_certificates() itself, or None)" % term_str(rv)[:120],
               fn=tc.path, construct="whole-chain", where=tc.where(q.blocks[-1]), sample={"rule": "init-order/certs", "value": term_str(rv)[:80]})
    ctx.floor("C18.init-order", "return paths of tls_certs", nret, 2)
    nstore = 0
    for bb, i_, s_ in fi.stmts():
        if s_["k"] == "assign" and any(isinstance(e, dict) and e.get("n") == "tls_client_certs" for e in s_["lhs"].get("p", [])):
            nstore += 1
            o = fi.origin_rvalue(s_["rv"], bb, i_, 0)
            ctx.ob("C18.init-order", T.is_call(T.peel(o), r"::tls_certs$"), "the certificate list stored for the shim is %s, not the connection's tls_certs()" % term_str(o)[:120],
                   fn=fi.path, construct="certs-stored", where=fi.where(bb, i_))
    # ... or the context is built in one piece (`AuthenticationContext { username, tls_client_certs: certs }`): every alternative that can
    # flow into the field is the connection's tls_certs() or None, and tls_certs() is among them
    def _alts(t, d=0):
        t = T.peel(t)
        if isinstance(t, tuple) and t and t[0] == "phi" and d < 6:
            out = []
            for a in t[1]:
                out += _alts(a, d + 1)
            return out
        if isinstance(t, tuple) and t and t[0] == "field" and isinstance(t[1], tuple) and t[1] and t[1][0] == "phi" and d < 6:
            # a field of a tuple that is itself chosen between alternatives: (user, certs) = if tls { (.., tls_certs()) } else { (.., None) }
            out = []
            for a in t[1][1]:
                a = T.peel(a)
                if isinstance(a, tuple) and a and a[0] == "agg" and len(a) > 4 and isinstance(t[3], int) and t[3] < len(a[4]):
                    out += _alts(a[4][t[3]], d + 1)
                else:
                    out.append(("unknown", "alt"))
            return out
        return [t]
    for bb, i_, s_ in fi.stmts():
        rv_ = s_.get("rv") or {}
        if s_["k"] == "assign" and rv_.get("k") == "agg" and rv_.get("ak") == "adt" and (rv_.get("adt") or "").endswith("AuthenticationContext") and "tls_client_certs" in (rv_.get("fnames") or []):
            o = fi.origin_op(rv_["fields"][rv_["fnames"].index("tls_client_certs")], bb, i_)
            alts = _alts(o)
            good = all(T.is_call(a, r"::tls_certs$") or (isinstance(a, tuple) and a and a[0] == "agg" and a[3] == "None") for a in alts)
            if any(T.is_call(a, r"::tls_certs$") for a in alts):
                nstore += 1
            ctx.ob("C18.init-order", good, "the certificate list the context is built with is %s, not the connection's tls_certs() (or None before the upgrade)" % term_str(o)[:120],
                   fn=fi.path, construct="certs-stored", where=fi.where(bb, i_), nontrivial=False)
    ctx.floor("C18.init-order", "stores of the client certificates into the authentication context", nstore, 1)

    # `commands are served exactly as over plaintext` presupposes the same wire layer under the TLS stream (a short write
    # of the TLS stream must not truncate a packet): the outbound wire rules run here too

