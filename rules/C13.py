"""C13 — errors reach the client with exact code, SQLSTATE and message.

Decides: (1) ErrorKind <-> u16 is a bijection on the defined kinds (enum discriminants vs the
MIR switch table of From<u16>); (2) sqlstate() is total, 5 bytes of [0-9A-Z]; (3) the ERR
packet layout and which parameter feeds which slot; (4) every reporting entry point forwards
kind and message unmodified to the ERR writer.
"""
import re

from engines.paths import enumerate_paths
from engines.prog import cname, op_const, op_place, term_str, term_contains, place_fields
from engines import tables, wire
from engines import terms as T
from spec import errors as SPEC

CONFIGS = ["tls"]
LEVEL = "other"
EXPLANATION = (
    "Static table and dataflow checks over the exported MIR: the 886 enum discriminants of ErrorKind are compared "
    "with the SwitchInt table of From<u16> (value -> constructed variant) and of sqlstate() (discriminant -> promoted "
    "5-byte constant); the emission sequence of the ERR writer is extracted on every Ok-path and compared slot by slot "
    "with the protocol's ERR layout, with the origin term of every slot (code <- kind as u16, state <- kind.sqlstate(), "
    "message <- the msg parameter); each public error entry point is followed by def-use to the ERR writer. "
    "Decides the table/layout/forwarding clauses for all kinds, messages and sites; does not decide client behaviour.")
ASSUMPTIONS = [
    "rustc's MIR lowering of `match` (SwitchInt) and of `as u16` on a fieldless #[repr(u16)] enum (discriminant read) is faithful",
    "byteorder::write_u16::<LittleEndian> writes 2 little-endian bytes; Write::write_all writes the whole slice",
]

FLOOR_VARIANTS = 886
FLOOR_STATES = 40


def _enum(prog):
    for p, a in prog.adts.items():
        if a["local"] and a["kind"] == "enum" and p.endswith("ErrorKind"):
            return a
    return None


def place_last_field(body, place):
    fs = place_fields(place) if place.get("p") else []
    return fs[-1] if fs else None


def _block_const_assign(body, bb):
    """If block bb is `_0 = <aggregate/const>; goto` return the rvalue."""
    for s in body.blocks[bb]["stmts"]:
        if s["k"] == "assign" and s["lhs"]["l"] == 0 and not s["lhs"]["p"]:
            return s["rv"]
    return None


def run(ctx):
    prog = ctx.prog("tls")
    ek = _enum(prog)
    ctx.rule("C13.code-bijection", "From<u16> switch table == enum discriminants, one arm per variant, otherwise diverges")
    ctx.rule("C13.sqlstate-total", "sqlstate(): every discriminant maps to a 5-byte [0-9A-Z] constant")
    ctx.rule("C13.err-layout", "ERR writer emission sequence == ff | kind as u16 | '#' | kind.sqlstate() | msg | packet end")
    ctx.rule("C13.entry-points", "InitWriter/StatementMetaWriter/QueryResultWriter::error and RowWriter::finish_error forward kind and msg unchanged")
    if not ctx.floor("C13.code-bijection", "enum ErrorKind", 1 if ek else 0, 1):
        return
    variants = ek["variants"]
    ctx.floor("C13.code-bijection", "ErrorKind variants", len(variants), FLOOR_VARIANTS)
    # the driver prints the repr as e.g. Some(Fixed(I16, false)): 16-bit, unsigned
    ri = str(ek["repr_int"])
    ctx.ob("C13.code-bijection", "I16" in ri and "false" in ri,
           "ErrorKind must be #[repr(u16)] (repr=%s)" % ri, fn=ek["path"], construct="repr", nontrivial=False)
    discr = {}
    byname = {}
    for v in variants:
        d = int(v["discr"])
        ok = d not in discr and 0 <= d <= 0xFFFF and not v["fields"]
        ctx.ob("C13.code-bijection", ok, "discriminant %d of %s duplicates %s or is out of u16 range" % (d, v["name"], discr.get(d)),
               fn=ek["path"], construct="discriminant", callee=v["name"], nontrivial=False)
        discr[d] = v["name"]
        byname[v["name"]] = d

    # ---- From<u16> ---------------------------------------------------------------------------
    frm = prog.one(r"^<errorcodes::ErrorKind as std::convert::From<u16>>::from$|ErrorKind as std::convert::From<u16>>::from$")
    ctx.fn(frm)
    def is_code(t):
        t = T.peel(t)
        return T.is_param(t, 1)
    ftab, fopen = tables.value_table(frm, is_code)
    if not ctx.ob("C13.code-bijection", len(ftab) > 0, "From<u16>::from does not decide on its argument (no path pins the code to a value)", fn=frm.path, construct="switch", where=frm.where(0)):
        return
    seen_variants = {}
    for v in sorted(ftab):
        rvs = ftab[v]
        names = {rv[3] if isinstance(rv, tuple) and rv[0] == "agg" and (rv[2] or "").endswith("ErrorKind") else None for rv in rvs}
        built = list(names)[0] if len(names) == 1 else None
        ok = built is not None and byname.get(built) == v
        ctx.ob("C13.code-bijection", ok,
               "From<u16>: %d constructs %s whose code is %s" % (v, built if len(names) == 1 else sorted(map(str, names)), byname.get(built)),
               fn=frm.path, construct="switch-arm", callee=str(built), where=frm.where(0), key_extra={"value": v},
               sample={"rule": "code-bijection", "value": v, "variant": built} if v in (1045, 1064) else None)
        if built:
            seen_variants.setdefault(built, []).append(v)
    for name, d in byname.items():
        ctx.ob("C13.code-bijection", len(seen_variants.get(name, [])) == 1,
               "variant %s (code %d) is produced by %d arms of From<u16> (must be exactly one)" % (name, d, len(seen_variants.get(name, []))),
               fn=frm.path, construct="variant-coverage", callee=name, where=frm.where(0))
    # a code that is not pinned to a defined value never yields a kind: those paths diverge
    ctx.ob("C13.code-bijection", not fopen, "From<u16> can return a value on a path that does not pin the code to a defined value (an undefined code silently maps to some kind)",
           fn=frm.path, construct="otherwise", where=frm.where(fopen[0][0].blocks[-1]) if fopen else None)

    # ---- sqlstate ------------------------------------------------------------------------------
    ss = prog.one(r"errorcodes::ErrorKind::sqlstate$")
    ctx.fn(ss)
    def is_kind(t):
        return isinstance(t, tuple) and t[0] == "discr" and T.is_param(T.peel(t[1]), 1)
    stab, sopen = tables.value_table(ss, is_kind, universe=set(discr))
    if not ctx.ob("C13.sqlstate-total", len(stab) > 0, "sqlstate() has no decision on the discriminant", fn=ss.path, construct="switch"):
        return
    table = {}
    states = set()
    for val in sorted(stab):
        bys = set()
        for rv in stab[val]:
            bys.add(T.const_bytes(T.peel(rv)))
        by = list(bys)[0] if len(bys) == 1 else None
        ok = by is not None and len(by) == 5 and re.fullmatch(rb"[0-9A-Z]{5}", by) is not None
        ctx.ob("C13.sqlstate-total", ok, "sqlstate arm for code %s yields %r (need 5 bytes [0-9A-Z])" % (val, by),
               fn=ss.path, construct="switch-arm", where=ss.where(0), key_extra={"value": int(val)}, nontrivial=False)
        table[int(val)] = by
        if by:
            states.add(by)
    for d, name in discr.items():
        ctx.ob("C13.sqlstate-total", d in table, "kind %s (code %d) has no SQLSTATE arm" % (name, d), fn=ss.path,
               construct="coverage", callee=name)
    ctx.floor("C13.sqlstate-total", "distinct SQLSTATE constants", len(states), FLOOR_STATES)
    for code, st, sym in SPEC.SAMPLES:
        # the documented symbol is informative only (the tree's generated names may be truncated); code and state decide
        ok = code in discr and table.get(code) == st
        ctx.ob("C13.sqlstate-total", ok, "documented triple %d/%s/%s: tree has %s/%r" % (code, st.decode(), sym, discr.get(code), table.get(code)),
               fn=ss.path, construct="spec-sample", callee=sym,
               sample={"rule": "sqlstate-total", "code": code, "sqlstate": st.decode(), "kind": sym})

    # ---- reference through time: the table confirmed on the pinned tree --------------------------
    import json, os
    ref = json.load(open(os.path.join(os.path.dirname(os.path.dirname(os.path.abspath(__file__))), "spec", "error_table.json")))["table"]
    ctx.rule("C13.sqlstate-reference", "every (code, kind, SQLSTATE) equals the reference table confirmed on the pinned tree (values, not text)")
    nref = 0
    for code_s, (kname, st) in ref.items():
        code = int(code_s)
        nref += 1
        got_st = table.get(code)
        ok = discr.get(code) == kname and got_st is not None and got_st.decode("latin1") == st
        ctx.ob("C13.sqlstate-reference", ok, "code %d: reference is %s/%s, tree has %s/%s" % (code, kname, st, discr.get(code), got_st.decode("latin1") if got_st else None),
               fn=ss.path, construct="reference-entry", callee=kname, key_extra={"code": code}, nontrivial=False)
    ctx.floor("C13.sqlstate-reference", "reference entries", nref, FLOOR_VARIANTS)

    # ---- ERR layout ----------------------------------------------------------------------------
    we = prog.one(r"^writers::write_err$")
    ctx.fn(we)
    seqs = wire.ok_sequences(prog, we)
    ctx.floor("C13.err-layout", "Ok-paths of the ERR writer", len(seqs), 1)
    # parameter roles by type
    sig = we.raw["sig_in"]
    kind_i = [i + 1 for i, t in enumerate(sig) if t.endswith("ErrorKind")]
    msg_i = [i + 1 for i, t in enumerate(sig) if t == "&[u8]"]
    ctx.ob("C13.err-layout", len(kind_i) == 1 and len(msg_i) == 1, "ERR writer signature changed: %s" % sig, fn=we.path, construct="signature", nontrivial=False)
    if len(kind_i) != 1 or len(msg_i) != 1:
        return
    ki, mi = kind_i[0], msg_i[0]

    def is_param(t, i):
        return isinstance(t, tuple) and t[0] == "param" and t[1] == i

    for p, cls, ems in seqs:
        sb = wire.sym_bytes(ems)
        desc = wire.sym_str(sb)
        # ff | kind as u16 (little endian) | '#' | kind.sqlstate() | msg | one packet end — however the bytes are grouped into writes
        ok = len(sb) == 7
        why = "byte stream is %s" % desc
        if ok:
            c0, l0, l1, c1, st_, msg_, end_ = sb

            def is_code(t):
                return isinstance(t, tuple) and t[0] == "cast" and t[2] == "u16" and t[1][0] == "discr" and is_param(T.peel(t[1][1]), ki)
            def partial(t):
                return T.find(t, lambda x: isinstance(x, tuple) and x[0] == "agg" and re.search(r"ops::Range(From|To|Inclusive|ToInclusive)?$", x[2] or "") is not None) is not None
            checks = [
                (not partial(st_[1]) and not partial(msg_[1]) if st_[0] == "blob" and msg_[0] == "blob" else True, "SQLSTATE and message must be written whole, not a sub-range"),
                (c0 == ("c", 0xFF), "byte 0 must be the constant ff"),
                (l0[0] == "le" and l1[0] == "le" and l0[2:] == (0, 2) and l1[2:] == (1, 2) and is_code(l0[1]) and is_code(l1[1]), "bytes 1-2 must be `kind as u16`, little endian"),
                (c1 == ("c", 0x23), "byte 3 must be the constant '#'"),
                (st_[0] == "blob" and T.is_call(T.peel(st_[1]), r"ErrorKind::sqlstate$") and is_param(T.peel(T.peel(st_[1])[2][0]), ki), "then kind.sqlstate() written whole"),
                (msg_[0] == "blob" and is_param(T.peel(msg_[1]), mi), "then the msg parameter written whole (got %s)" % term_str(msg_[1])),
                (end_ == ("end",), "the ERR packet must be ended exactly once after the message"),
            ]
            for c, w in checks:
                if not c:
                    ok = False
                    why = w + " (byte stream: %s)" % desc
                    break
        ctx.ob("C13.err-layout", ok, "ERR layout: " + why, fn=we.path, construct="emission-sequence", where=we.where(p.blocks[-1]),
               sample={"rule": "err-layout", "path_blocks": len(p.blocks), "sequence": desc})

    # ---- entry points --------------------------------------------------------------------------
    eps = [
        (r"^resultset::InitWriter::<'a, W>::error$", "direct"),
        (r"^resultset::StatementMetaWriter::<'a, W>::error$", "direct"),
        (r"^resultset::QueryResultWriter::<'a, W>::error$", "direct"),
        (r"^resultset::RowWriter::<'a, W>::finish_error$", "via-result"),
    ]
    found = 0
    for pat, mode in eps:
        bs = prog.find(pat)
        if len(bs) != 1:
            ctx.floor("C13.entry-points", "entry point %s" % pat, len(bs), 1)
            continue
        b = bs[0]
        ctx.fn(b)
        found += 1
        sig = b.raw["sig_in"]
        kpi = [i + 1 for i, t in enumerate(sig) if t.endswith("ErrorKind")]
        mpi = [i + 1 for i, t in enumerate(sig) if t.startswith("&E") or t.startswith("&'")]
        target = r"^writers::write_err$" if mode == "direct" else r"^resultset::QueryResultWriter::<'a, W>::error$"
        sites = list(b.calls_to(target))
        if not sites and mode != "direct":
            # the result writer's `error` inlined into the row writer (finalize, then the ERR writer itself): the same obligations on the
            # direct call (the pending terminator is C03's and C13.entry-points' own clause below)
            sites = list(b.calls_to(r"^writers::write_err$"))
            if sites:
                mode = "direct"
        if not ctx.ob("C13.entry-points", len(sites) == 1 and len(kpi) == 1,
                      "%s must call the ERR writer exactly once (found %d)" % (b.path, len(sites)), fn=b.path, construct="call", callee=target):
            continue
        bb, t = sites[0]
        # every Ok-capable path from entry must pass the call: no return without it except error returns
        n_ok_without = 0
        for p in enumerate_paths(b):
            if p.end == "return" and bb not in p.blocks:
                from engines.paths import classify_return
                if classify_return(p) != "err":
                    n_ok_without += 1
        ctx.ob("C13.entry-points", n_ok_without == 0, "%s can return Ok without writing the ERR packet" % b.path, fn=b.path,
               construct="must-pass", callee=target, where=b.where(bb))
        # argument flow
        if mode == "direct":
            kt = b.arg_origin(bb, 0)
            mt = b.arg_origin(bb, 1)
        else:
            kt = b.arg_origin(bb, 1)
            mt = b.arg_origin(bb, 2)
        ok_k = isinstance(kt, tuple) and kt[0] == "param" and kt[1] == kpi[0]
        ctx.ob("C13.entry-points", ok_k, "%s: kind passed on is %s, not the kind parameter" % (b.path, term_str(kt)), fn=b.path,
               construct="arg-flow", callee="kind", where=b.where(bb))
        # msg: either the parameter itself (forwarded generic) or Borrow::borrow(param)
        def strip_borrow(t):
            while isinstance(t, tuple) and t[0] == "call" and re.search(r"(Borrow::borrow|AsRef::as_ref)$|as std::borrow::Borrow<.*>>::borrow$", t[1]) and len(t[2]) == 1:
                t = t[2][0]
            return t
        m0 = strip_borrow(mt)
        ok_m = isinstance(m0, tuple) and m0[0] == "param" and sig[m0[1] - 1].startswith("&") and m0[1] not in kpi and m0[1] != 1
        ctx.ob("C13.entry-points", ok_m, "%s: message passed on is %s, not the msg parameter" % (b.path, term_str(mt)), fn=b.path,
               construct="arg-flow", callee="msg", where=b.where(bb),
               sample={"rule": "entry-points", "fn": b.path, "kind": term_str(kt), "msg": term_str(mt)})
    ctx.floor("C13.entry-points", "error entry points", found, 4)
    # an error reported after earlier resultsets must still belong to this response: the pending terminator that precedes
    # the ERR packet has to announce more results, else a conformant client stops reading before the ERR (C03.finalize-first)
    qe = prog.find(r"^resultset::QueryResultWriter::<'a, W>::error$")
    if len(qe) == 1:
        b = qe[0]
        fcalls = [(bb, t) for bb, t in b.calls() if cname(t["func"]).endswith("QueryResultWriter::<'a, W>::finalize")]
        import rules.C03 as C03
        ok = len(fcalls) == 1 and C03.more_arg(b.arg_origin(fcalls[0][0], 1)) is True
        werr = [bb for bb, t in b.calls() if cname(t["func"]) == "writers::write_err"]
        ok = ok and werr and b.dominates(fcalls[0][0], werr[0])
        ctx.ob("C13.entry-points", ok, "QueryResultWriter::error must flush the pending terminator with more_results=true before the ERR packet, "
               "otherwise the client never reads the error as part of this response", fn=b.path, construct="terminator-before-err",
               where=b.where(fcalls[0][0]) if fcalls else None)
    # library caller: the authentication failure ERR uses the constant kind ER_ACCESS_DENIED_ERROR
    callers = prog.callers_of(r"^writers::write_err$")
    ctx.floor("C13.entry-points", "callers of the ERR writer", len([1 for b, _, _ in callers if "::tests::" not in b.path]), 4)

    # ---- the ERR packet starts on a packet boundary ---------------------------------------------
    # An error reported after some rows goes out through finish_error -> finish_inner -> QueryResultWriter::error; its bytes
    # are appended to whatever the packet buffer holds.  Two structural obligations keep that buffer empty at that point:
    #  (a) a row-writer call that hands a *refusal* back to the shim (an Err that is not the failure of a packet write itself)
    #      has put nothing into the packet on that path; bytes of an unfinished row are otherwise followed by ff <code> ...
    #  (b) finish_inner reaches its Ok return only with the pending row ended (end_row succeeded) or with no row pending
    #      (col == 0 / no columns), whatever `complete` is.
    ctx.rule("C13.err-on-packet-boundary", "a refusal returned to the shim leaves no bytes in the packet; finish_inner ends a pending row on every path before the ERR is written")
    from engines.paths import classify_return
    n_ref = 0
    for pat in (r"^resultset::RowWriter::<'a, W>::write_col$", r"^resultset::RowWriter::<'a, W>::end_row$", r"^resultset::RowWriter::<'a, W>::write_row$"):
        bs = prog.find(pat)
        if not ctx.floor("C13.err-on-packet-boundary", "row writer entry %s" % pat, len(bs), 1):
            continue
        b = bs[0]
        ctx.fn(b)
        for p in enumerate_paths(b, max_visits=1):
            if p.end != "return" or classify_return(p) != "err":
                continue
            W = [(pos, t) for pos, blk, t in p.calls()
                 if any("packet::PacketConn<" in a for a in (t.get("arg_tys") or [])) and wire.classify_call(p, pos, t) is not None]
            n_ref += 1
            if not W:
                ctx.ob("C13.err-on-packet-boundary", True, "", fn=b.path, construct="refusal-path", nontrivial=False)
                continue
            rv = p.return_value()
            src = T.find(rv, lambda x: isinstance(x, tuple) and x[0] == "call" and not re.search(r"from_residual$|Try>::branch$|map_err$|Into<.*>>::into$|From<.*>>::from$", x[1]))
            last = cname(W[-1][1]["func"])
            decl = W[-1][1]["func"]["path"]
            ok = src is not None and (src[1] == last or src[1] == decl)
            ctx.ob("C13.err-on-packet-boundary", ok,
                   "%s returns an error that does not come from the packet write (%s) after %d write(s) into the unfinished packet; "
                   "an ERR reported next is appended to those bytes" % (b.path.split("::")[-1], term_str(rv)[:90], len(W)),
                   fn=b.path, construct="refusal-after-write", callee=last, where=b.where(p.blocks[-1]),
                   sample={"rule": "err-on-packet-boundary", "fn": b.path, "failing": src[1] if src else None})
    ctx.floor("C13.err-on-packet-boundary", "error-return paths of the row writer", n_ref, 6)
    # (a') the same for the text encoders, which write straight into the packet: an encoder that refuses a value (a date that does not
    # exist, ...) does so before it has written anything of it
    encs = prog.find(r" as value::encode::ToMysqlValue>::to_mysql_text$")
    ctx.floor("C13.err-on-packet-boundary", "text encoders", len(encs), 22)
    for b in encs:
        for p in enumerate_paths(b, max_visits=1):
            if p.end != "return" or classify_return(p) != "err":
                continue
            W = [(pos, t) for pos, blk, t in p.calls()
                 if "indirect" not in t["func"] and (wire.classify_call(p, pos, t) is not None or re.search(r"io::Write::(write|write_all|write_fmt)$", t["func"]["path"]))]
            if not W:
                continue
            rv = p.return_value()
            src = T.find(rv, lambda x: isinstance(x, tuple) and x[0] == "call" and not re.search(r"from_residual$|Try>::branch$|map_err$|Into<.*>>::into$|From<.*>>::from$|Result::<T, E>::map$", x[1]))
            last = cname(W[-1][1]["func"])
            decl = W[-1][1]["func"]["path"]
            ok = src is not None and (src[1] == last or src[1] == decl)
            ctx.ob("C13.err-on-packet-boundary", ok,
                   "%s refuses the value (%s) after %d write(s) of it into the packet; an ERR reported next is appended to those bytes"
                   % (b.path[:70], term_str(rv)[:90], len(W)), fn=b.path, construct="encoder-refusal-after-write", callee=last, where=b.where(p.blocks[-1]))
    fi = prog.find(r"^resultset::RowWriter::<'a, W>::finish_inner$")
    if ctx.floor("C13.err-on-packet-boundary", "finish_inner", len(fi), 1):
        b = fi[0]
        ctx.fn(b)
        from engines.paths import emptiness_of
        n_fin = 0
        wc_b = prog.one(r"^resultset::RowWriter::<'a, W>::write_col$")
        wc_bin_writes = False
        for p in enumerate_paths(wc_b, max_visits=1):
            if any(T.is_field(T.peel(v), "is_bin") and truth for _, _, v, truth in p.decisions()) and \
                    any(any("packet::PacketConn<" in a for a in (t.get("arg_tys") or [])) for pos, blk, t in p.calls()):
                wc_bin_writes = True
        for p in enumerate_paths(b):
            if p.end != "return" or classify_return(p) == "err":
                continue
            # the early return of an already finished writer (however `finished` is read: a load, mem::replace, ...)
            if any(truth and T.find(v, lambda x: T.is_field(x, "finished")) is not None for _, _, v, truth in p.decisions()):
                continue
            n_fin += 1
            ended = any(cname(t["func"]).endswith("RowWriter::<'a, W>::end_row") for pos, blk, t in p.calls())
            nocols = emptiness_of(p, lambda x: T.is_field(T.peel(x), "columns"))
            col0 = None
            for i, blk, v, truth in p.decisions():
                if isinstance(v, tuple) and v[0] == "bin" and v[1] in ("Eq", "Ne") and T.is_field(T.peel(v[2]), "col") and T.is_const_int(v[3], 0):
                    col0 = truth if v[1] == "Eq" else not truth
            # a binary row that is only staged in the row buffer (no write_col path puts bytes into the packet) may be dropped
            isbin = any(T.is_field(T.peel(v), "is_bin") and truth for _, _, v, truth in p.decisions())
            staged_only = isbin and not wc_bin_writes
            ok = ended or nocols is True or col0 is True or staged_only
            ctx.ob("C13.err-on-packet-boundary", ok, "finish_inner can return Ok with a row pending (col != 0) that was neither ended nor refused; the ERR/terminator that follows is appended to its bytes",
                   fn=b.path, construct="pending-row-ended", where=b.where(p.blocks[-1]),
                   sample={"rule": "err-on-packet-boundary", "ended": ended, "no_columns": nocols, "col0": col0})
        ctx.floor("C13.err-on-packet-boundary", "finishing paths of finish_inner", n_fin, 3)

    # every outbound clause of this property presupposes a faithful framing layer (one transport write site that sends the
    # whole pending packet, in order, with a correct header): C04's framing rules are evaluated here as well
