#!/bin/sh
# usage: tools_try.sh <patch> <Cxx> [more check args]  — run one check against /repo + patch in a scratch copy
P=$(readlink -f "$1"); shift
S=$(mktemp -d /tmp/msqlx-try-XXXX); E=$(mktemp -d /tmp/msqlx-ev-XXXX)
rsync -a --exclude target --exclude .git /repo/ $S/
(cd $S && patch -p1 -s --no-backup-if-mismatch -i "$P") || { echo PATCH-FAILED; rm -rf $S $E; exit 9; }
if [ "$1" = "--keep" ]; then shift; echo "scratch: $S"; MSQLX_REPO=$S MSQLX_EVIDENCE_DIR=$E "$(dirname "$0")/check" "$@"; rm -rf $E; exit 0; fi
MSQLX_REPO=$S MSQLX_EVIDENCE_DIR=$E "$(dirname "$0")/check" "$@"; rc=$?
rm -rf $S $E; exit $rc
