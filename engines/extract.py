"""Run the msqlx driver over /repo's current working tree and cache the exported facts.

The exported document is keyed by a content hash of the repository sources, the driver binary
and the feature configuration, so every check analyses exactly the tree that is on disk now.
"""
import hashlib
import json
import os
import shutil
import subprocess
import sys
import time
import uuid

VERIF = os.path.dirname(os.path.dirname(os.path.abspath(__file__)))
REPO = os.environ.get("MSQLX_REPO", "/repo")
CACHE = os.path.join(VERIF, ".cache")
DRIVER = os.path.join(VERIF, "driver", "target", "release", "msqlx")

CONFIGS = {
    "tls": [],
    "notls": ["--no-default-features"],
}


def sysroot_lib():
    out = subprocess.run(["rustc", "+nightly", "--print", "sysroot"], capture_output=True, text=True, check=True)
    return os.path.join(out.stdout.strip(), "lib")


def ensure_driver():
    src = os.path.join(VERIF, "driver", "src", "main.rs")
    if os.path.exists(DRIVER) and os.path.getmtime(DRIVER) >= os.path.getmtime(src):
        return
    env = dict(os.environ, CARGO_NET_OFFLINE="true")
    r = subprocess.run(["cargo", "+nightly", "build", "--release", "--offline"], cwd=os.path.join(VERIF, "driver"),
                       env=env, capture_output=True, text=True)
    if r.returncode != 0:
        sys.stderr.write(r.stderr)
        raise SystemExit("check: cannot build the msqlx driver")


def tree_hash(repo):
    h = hashlib.sha256()
    files = []
    for root, dirs, fs in os.walk(repo):
        dirs[:] = sorted(d for d in dirs if d not in ("target", ".git"))
        for f in sorted(fs):
            if f.endswith((".rs", ".toml", ".lock")):
                files.append(os.path.join(root, f))
    for p in files:
        h.update(os.path.relpath(p, repo).encode() + b"\0")
        with open(p, "rb") as fh:
            h.update(hashlib.sha256(fh.read()).digest())
    with open(DRIVER, "rb") as fh:
        h.update(hashlib.sha256(fh.read()).digest())
    return h.hexdigest()[:24], len(files)


def extract(config, repo=None, crate="msql_srv", force=False, target_tag=None):
    """Returns (path to facts json, info dict). Raises BuildFailed if the tree does not compile."""
    repo = repo or REPO
    ensure_driver()
    os.makedirs(CACHE, exist_ok=True)
    th, nfiles = tree_hash(repo)
    out = os.path.join(CACHE, "facts-%s-%s-%s.json" % (crate, config, th))
    info = {"config": config, "tree_hash": th, "files_hashed": nfiles, "cached": False}
    if os.path.exists(out) and not force:
        info["cached"] = True
        return out, info
    target = os.path.join(CACHE, "target-%s" % (target_tag or config))
    # one extraction per target directory at a time (fingerprint removal + cargo must not interleave)
    import fcntl
    lock = open(os.path.join(CACHE, "lock-%s" % (target_tag or config)), "w")
    fcntl.flock(lock, fcntl.LOCK_EX)
    try:
        if os.path.exists(out) and not force:
            info["cached"] = True
            return out, info
        return _extract_locked(config, repo, crate, target, out, info)
    finally:
        fcntl.flock(lock, fcntl.LOCK_UN)
        lock.close()


def _extract_locked(config, repo, crate, target, out, info):
    # cargo's freshness cache would skip the wrapper: drop the member's fingerprints
    fp = os.path.join(target, "debug", ".fingerprint")
    pkg_prefixes = _member_prefixes(repo)
    if os.path.isdir(fp):
        for d in os.listdir(fp):
            if any(d.startswith(p + "-") for p in pkg_prefixes):
                shutil.rmtree(os.path.join(fp, d), ignore_errors=True)
    nonce = uuid.uuid4().hex
    tmp_out = out + ".run." + nonce
    env = dict(os.environ)
    env.update({
        "LD_LIBRARY_PATH": sysroot_lib() + ((":" + env["LD_LIBRARY_PATH"]) if env.get("LD_LIBRARY_PATH") else ""),
        "RUSTFLAGS": "-Zmir-opt-level=0 -Awarnings",
        "RUSTC_WORKSPACE_WRAPPER": DRIVER,
        "CARGO_TARGET_DIR": target,
        "CARGO_NET_OFFLINE": "true",
        "MSQLX_OUT": tmp_out,
        "MSQLX_NONCE": nonce,
        "MSQLX_CONFIG": config,
        "MSQLX_CRATE": crate,
    })
    env.pop("RUSTC_WRAPPER", None)
    cmd = ["cargo", "+nightly", "check", "--offline", "--lib", "--manifest-path", os.path.join(repo, "Cargo.toml")] + CONFIGS[config]
    t0 = time.time()
    r = subprocess.run(cmd, env=env, capture_output=True, text=True, cwd=repo)
    info["extract_s"] = round(time.time() - t0, 2)
    if r.returncode != 0:
        if os.path.exists(tmp_out):
            os.remove(tmp_out)
        raise BuildFailed(r.stderr[-6000:])
    if not os.path.exists(tmp_out):
        raise BuildFailed("driver produced no fact file (wrapper skipped?)\n" + r.stderr[-3000:])
    with open(tmp_out) as fh:
        doc = json.load(fh)
    if doc.get("nonce") != nonce:
        os.remove(tmp_out)
        raise BuildFailed("fact file nonce mismatch: stale output")
    os.replace(tmp_out, out)
    _prune(crate, config, keep=out)
    return out, info


def _member_prefixes(repo):
    # package name as in Cargo.toml ([package] name = "...")
    names = []
    try:
        with open(os.path.join(repo, "Cargo.toml")) as fh:
            sect = None
            for line in fh:
                s = line.strip()
                if s.startswith("["):
                    sect = s
                elif sect == "[package]" and s.startswith("name"):
                    names.append(s.split("=", 1)[1].strip().strip('"'))
    except OSError:
        pass
    return names or ["msql-srv"]


def _prune(crate, config, keep, maxn=6):
    pre = "facts-%s-%s-" % (crate, config)
    xs = [os.path.join(CACHE, f) for f in os.listdir(CACHE) if f.startswith(pre) and f.endswith(".json")]
    xs.sort(key=os.path.getmtime)
    for p in xs[:-maxn]:
        if p != keep:
            try:
                os.remove(p)
            except OSError:
                pass


class BuildFailed(Exception):
    pass


if __name__ == "__main__":
    for c in sys.argv[1:] or ["tls", "notls"]:
        p, i = extract(c)
        print(p, i)
