"""Well-known (code, SQLSTATE, MariaDB symbol) triples from the MariaDB/MySQL error reference.
Written from the documentation, not from the code under analysis."""
SAMPLES = [
    (1045, b"28000", "ER_ACCESS_DENIED_ERROR"),
    (1044, b"42000", "ER_DBACCESS_DENIED_ERROR"),
    (1049, b"42000", "ER_BAD_DB_ERROR"),
    (1064, b"42000", "ER_PARSE_ERROR"),
    (1054, b"42S22", "ER_BAD_FIELD_ERROR"),
    (1146, b"42S02", "ER_NO_SUCH_TABLE"),
    (1062, b"23000", "ER_DUP_ENTRY"),
    (1213, b"40001", "ER_LOCK_DEADLOCK"),
    (1205, b"HY000", "ER_LOCK_WAIT_TIMEOUT"),
    (1047, b"08S01", "ER_UNKNOWN_COM_ERROR"),
    (1002, b"HY000", "ER_NO"),
    (1040, b"08004", "ER_CON_COUNT_ERROR"),
    (1050, b"42S01", "ER_TABLE_EXISTS_ERROR"),
    (1051, b"42S02", "ER_BAD_TABLE_ERROR"),
    (1048, b"23000", "ER_BAD_NULL_ERROR"),
    (1216, b"23000", "ER_NO_REFERENCED_ROW"),
    (1217, b"23000", "ER_ROW_IS_REFERENCED"),
    (1317, b"70100", "ER_QUERY_INTERRUPTED"),
    (1406, b"22001", "ER_DATA_TOO_LONG"),
    (1365, b"22012", "ER_DIVISION_BY_ZERO"),
]
# ERR packet layout (protocol 4.1): ff | code u16 | '#' | sqlstate[5] | message rest
ERR_LAYOUT = ["ff", "code:u16", "'#'", "sqlstate:5", "message:rest"]
