"""Which column types a path runs under: the intersection of every test of `Column.coltype` taken on the path
(`match` arms, `==` / `!=` against a constant, `matches!`), so that `match`, `if`/`else if` chains and early returns
are read alike."""
from . import terms as T


def _const_coltype(prog, b, t):
    """variant name of a `ColumnType` constant operand (`&ColumnType::X` promoted, or a plain constant)"""
    if not isinstance(t, tuple):
        return None
    if t[0] == "ref":
        t = t[1]
    if t[0] == "const" and t[1][0] == "promoted":
        pb = prog.bodies.get("%s::promoted[%d]" % (t[1][3] if len(t[1]) > 3 else b.path, t[1][1]))
        if pb is None:
            return None
        for _, _, s in pb.stmts():
            if s["k"] == "assign" and s["rv"]["k"] == "agg" and s["rv"].get("ak") == "adt" and s["rv"]["adt"].endswith("constants::ColumnType"):
                return s["rv"]["vname"]
    if t[0] == "agg" and len(t) > 3 and (t[2] or "").endswith("constants::ColumnType"):
        return t[3] if isinstance(t[3], str) else None
    return None


def arm_of(b, p, ct_names, prog=None):
    """The set of column types under which this path runs: the intersection of every test of
    `c.coltype` on the path (match arms, `==` / `!=` against a constant, `matches!`)."""
    allowed = None
    universe = set(ct_names.values())

    def meet(sset):
        nonlocal allowed
        allowed = set(sset) if allowed is None else (allowed & set(sset))
    for i, blk in enumerate(p.blocks[:-1]):
        t = b.term(blk)
        if t["k"] != "switch":
            continue
        v = p.origin_op(t["discr"], i)
        nx = p.blocks[i + 1]
        if v[0] == "discr" and T.is_field(T.peel(v[1]), "coltype"):
            vals = [x for x, g in zip(t["vals"], t["tgts"]) if g == nx]
            named = {ct_names.get(int(x), x) for x in t["vals"]}
            if vals:
                meet({ct_names.get(int(x), x) for x in vals})
            else:
                meet(universe - named)
        elif prog is not None and T.is_call(v, r"PartialEq(<[^>]*>)?>?::(eq|ne)$") and "0" in t["vals"] and len(v[2]) == 2:
            a, c = v[2]
            if not T.is_field(T.peel(a), "coltype"):
                a, c = c, a
            name = _const_coltype(prog, b, c) if T.is_field(T.peel(a), "coltype") else None
            if name is None:
                continue
            truth = nx != t["tgts"][t["vals"].index("0")]
            is_eq = v[1].endswith("::eq")
            meet({name} if truth == is_eq else universe - {name})
    if allowed is None:
        return None
    # a complement of the tested types is reported as ("other",) like the catch-all arm of a match
    if len(allowed) > len(universe) // 2:
        return ("other",)
    return tuple(sorted(allowed)) if allowed else ("other",)


