"""Matching helpers over origin terms (see prog.py / paths.py for their shape)."""
import re

PASS_CALLS = re.compile(
    r"(Deref::deref|DerefMut::deref_mut|Borrow::borrow|BorrowMut::borrow_mut|AsRef::as_ref|AsMut::as_mut|"
    r"Option::<T>::unwrap|Result::<T, E>::unwrap|Option::<T>::expect|Result::<T, E>::expect|"
    r"Option::<T>::as_mut|Option::<T>::as_ref|IntoIterator::into_iter|Vec::<T, A>::as_slice|"
    r"<.* as std::ops::Deref>::deref|<.* as std::ops::DerefMut>::deref_mut|str::<impl str>::as_bytes|"
    r"String::as_bytes|std::hint::must_use|<.* as std::convert::AsRef<.*>>::as_ref|<.* as std::borrow::Borrow<.*>>::borrow|"
    r"<.* as std::iter::IntoIterator>::into_iter|slice::<impl \[T\]>::iter|Index::index|<.* as std::ops::Index<.*>>::index|"
    r"array::<impl std::ops::Index<I> for \[T; N\]>::index)$")


def children(t):
    if not isinstance(t, tuple) or not t:
        return
    k = t[0]
    if k == "call":
        for a in t[2]:
            yield a
    elif k in ("field", "variant", "okpayload", "somepayload", "errpayload", "errresidual", "cast", "un", "discr", "subslice", "repeat"):
        yield t[1] if k != "un" else t[2]
    elif k == "bin":
        yield t[2]
        yield t[3]
    elif k == "agg":
        for a in t[4]:
            yield a
    elif k == "phi":
        for a in t[1]:
            yield a
    elif k == "index":
        yield t[1]
        yield t[2]


def walk(t, depth=0):
    if depth > 80:
        return
    yield t
    for c in children(t):
        yield from walk(c, depth + 1)


def find(t, pred):
    for x in walk(t):
        if pred(x):
            return x
    return None


def contains(t, pred):
    return find(t, pred) is not None


def is_call(t, rx):
    return isinstance(t, tuple) and t[0] == "call" and re.search(rx, t[1]) is not None


def is_param(t, idx=None, name=None):
    return isinstance(t, tuple) and t[0] == "param" and (idx is None or t[1] == idx) and (name is None or t[2] == name)


def is_const_int(t, v=None):
    return isinstance(t, tuple) and t[0] == "const" and t[1][0] == "int" and (v is None or t[1][1] == v)


def const_int(t):
    if isinstance(t, tuple) and t[0] == "const" and t[1][0] == "int":
        return t[1][1]
    return None


def const_bytes(t):
    if isinstance(t, tuple) and t[0] == "const" and t[1][0] == "bytes":
        return t[1][1]
    return None


def is_field(t, name):
    return isinstance(t, tuple) and t[0] == "field" and t[2] == name


def variant_field(t):
    """('Execute', 'stmt', base) if t is a field of an enum variant downcast, else None."""
    if isinstance(t, tuple) and t[0] == "field" and isinstance(t[1], tuple) and t[1][0] == "variant":
        return (t[1][2], t[2], t[1][1])
    return None


def peel(t, extra_rx=None, payloads=True, casts=False):
    """Strip pass-through wrappers: payload projections, unwrap/deref/borrow-like calls."""
    n = 0
    while isinstance(t, tuple) and n < 100:
        n += 1
        k = t[0]
        if payloads and k in ("okpayload", "somepayload"):
            t = t[1]
        elif k == "call" and (PASS_CALLS.search(t[1]) or (extra_rx and re.search(extra_rx, t[1]))) and t[2]:
            t = t[2][0]
        elif casts and k == "cast":
            t = t[1]
        else:
            break
    return t


def same(a, b):
    return a == b


# --------------------------------------------------------------------------------------
# affine normal form of integer origin terms
# --------------------------------------------------------------------------------------

_WIDEN_OK = {
    ("u8", "u16"), ("u8", "u32"), ("u8", "u64"), ("u8", "usize"), ("u16", "u32"), ("u16", "u64"), ("u16", "usize"),
    ("u32", "u64"), ("u32", "usize"), ("usize", "u64"), ("u64", "usize"),
    ("u8", "i16"), ("u8", "i32"), ("u8", "i64"), ("u16", "i32"), ("u16", "i64"), ("u32", "i64"),
    ("i8", "i16"), ("i8", "i32"), ("i8", "i64"), ("i16", "i32"), ("i16", "i64"), ("i32", "i64"), ("i64", "isize"), ("isize", "i64"),
}


class Aff:
    """c + sum coef*atom ; atoms are hashable canonical descriptions."""
    __slots__ = ("c", "m")

    def __init__(self, c=0, m=None):
        self.c = c
        self.m = {k: v for k, v in (m or {}).items() if v != 0}

    def add(self, o, k=1):
        m = dict(self.m)
        for a, v in o.m.items():
            m[a] = m.get(a, 0) + k * v
        return Aff(self.c + k * o.c, m)

    def scale(self, k):
        return Aff(self.c * k, {a: v * k for a, v in self.m.items()})

    def is_const(self):
        return not self.m

    def key(self):
        return (self.c, tuple(sorted(self.m.items(), key=repr)))

    def __eq__(self, o):
        return isinstance(o, Aff) and self.key() == o.key()

    def __hash__(self):
        return hash(self.key())

    def __repr__(self):
        parts = []
        for a, v in sorted(self.m.items(), key=repr):
            parts.append(("%d*" % v if v != 1 else "") + atom_str(a))
        if self.c or not parts:
            parts.append(str(self.c))
        return " + ".join(parts)


def atom_str(a):
    if isinstance(a, tuple):
        if a[0] == "div":
            return "(%r)/%d" % (a[1], a[2])
        if a[0] == "rem":
            return "(%r)%%%d" % (a[1], a[2])
        if a[0] == "shr":
            return "(%r)>>%d" % (a[1], a[2])
        if a[0] == "len":
            return "len(%s)" % atom_str(a[1])
        if a[0] == "path":
            return ".".join(str(x) for x in a[1:])
        if a[0] == "opaque":
            return "<%s>" % a[1]
    return str(a)


def access_path(t):
    """Canonical access path of a param/field chain, or None."""
    t = peel(t)
    names = []
    while isinstance(t, tuple) and t[0] == "field":
        names.append(str(t[2]))
        t = peel(t[1])
    if isinstance(t, tuple) and t[0] == "param":
        return ("path", t[2]) + tuple(reversed(names))
    return None


def affine(t, atomize=None, depth=0):
    """Affine normal form of an integer term; unknown sub-terms become opaque atoms."""
    if depth > 60:
        return Aff(0, {("opaque", "depth"): 1})
    if atomize is not None:
        a = atomize(t)
        if a is not None:
            return Aff(0, {a: 1})
    ci = const_int(t)
    if ci is not None:
        return Aff(ci)
    if isinstance(t, tuple):
        k = t[0]
        if k == "cast" and t[3] == "IntToInt" and (t[4], t[2]) in _WIDEN_OK:
            return affine(t[1], atomize, depth + 1)
        if k == "call" and re.search(r"(convert::From<.*>>::from|convert::Into<.*>>::into|::from)$", t[1]) and len(t[2]) == 1:
            return affine(t[2][0], atomize, depth + 1)
        if k == "bin":
            op = t[1]
            if op in ("Add", "AddWithOverflow", "AddUnchecked"):
                return affine(t[2], atomize, depth + 1).add(affine(t[3], atomize, depth + 1))
            if op in ("Sub", "SubWithOverflow", "SubUnchecked"):
                return affine(t[2], atomize, depth + 1).add(affine(t[3], atomize, depth + 1), -1)
            if op in ("Mul", "MulWithOverflow", "MulUnchecked"):
                a, b = affine(t[2], atomize, depth + 1), affine(t[3], atomize, depth + 1)
                if a.is_const():
                    return b.scale(a.c)
                if b.is_const():
                    return a.scale(b.c)
            if op in ("Div", "Rem", "Shr"):
                a, b = affine(t[2], atomize, depth + 1), affine(t[3], atomize, depth + 1)
                if b.is_const() and b.c > 0:
                    if op == "Shr":
                        return Aff(0, {("div", a, 1 << b.c): 1})
                    if a.is_const() and a.c >= 0:
                        return Aff(a.c // b.c if op == "Div" else a.c % b.c)
                    return Aff(0, {("div" if op == "Div" else "rem", a, b.c): 1})
            if op == "BitAnd":
                a, b = affine(t[2], atomize, depth + 1), affine(t[3], atomize, depth + 1)
                for x, y in ((a, b), (b, a)):
                    if y.is_const() and y.c > 0 and (y.c & (y.c + 1)) == 0:
                        return Aff(0, {("rem", x, y.c + 1): 1})
        if k == "field" and isinstance(t[1], tuple) and t[1][0] == "bin" and t[3] == 0:
            return affine(t[1], atomize, depth + 1)
        if k == "call" and re.search(r"(::len|ExactSizeIterator::len)$", t[1]) and len(t[2]) == 1:
            ap = access_path(t[2][0])
            if ap is not None:
                return Aff(0, {("len", ap): 1})
        ap = access_path(t)
        if ap is not None:
            return Aff(0, {ap: 1})
    r_ = repr(t)
    if len(r_) <= 200:
        return Aff(0, {("opaque", r_): 1})
    # long terms: the readable prefix plus a digest of the whole, so that two different reads behind the same long cursor expression
    # (three `read_u8` of one inlined helper) stay different atoms
    import hashlib
    return Aff(0, {("opaque", r_[:200], hashlib.sha1(r_.encode()).hexdigest()[:10]): 1})
