"""Thorough-tier self-tests: apply every mutant patch and confirmed seeded change filed for a
property to a scratch copy of /repo (mktemp; removed afterwards) and require the property's quick
check to report a violation there; `# expect: silent` variants must stay quiet."""
import glob
import json
import os
import re
import shutil
import subprocess
import tempfile
from concurrent.futures import ThreadPoolExecutor

HERE = os.path.dirname(os.path.abspath(__file__))


def _one(prop, patch, expect_silent, expect_rule):
    scratch = tempfile.mkdtemp(prefix="msqlx-st-")
    evd = tempfile.mkdtemp(prefix="msqlx-ev-")
    try:
        subprocess.run(["rsync", "-a", "--exclude", "target", "--exclude", ".git", "/repo/", scratch + "/"], check=True)
        r = subprocess.run(["patch", "-p1", "-s", "--no-backup-if-mismatch", "-i", patch], cwd=scratch, capture_output=True, text=True)
        if r.returncode != 0:
            return {"patch": os.path.basename(os.path.dirname(patch)) + "/" + os.path.basename(patch), "status": "patch-does-not-apply"}
        env = dict(os.environ, MSQLX_REPO=scratch, MSQLX_EVIDENCE_DIR=evd)
        r = subprocess.run([os.path.join(HERE, "check"), prop, "--tier", "quick"], env=env, capture_output=True, text=True, cwd=HERE)
        rules = sorted(set(re.findall(r"violation rule=(\S+)", r.stdout)))
        fired = r.returncode == 1
        if expect_silent:
            status = "silent-ok" if r.returncode == 0 else "FALSE-ALARM"
        else:
            status = "caught" if fired and (expect_rule is None or any(re.search(expect_rule, x) for x in rules)) else ("caught-other-rule" if fired else ("build-failed" if r.returncode == 2 else "MISSED"))
        return {"patch": os.path.basename(os.path.dirname(patch)) + "/" + os.path.basename(patch), "status": status, "rules": rules}
    finally:
        shutil.rmtree(scratch, ignore_errors=True)
        shutil.rmtree(evd, ignore_errors=True)


def run(prop):
    jobs = []
    for p in sorted(glob.glob(os.path.join(HERE, "selftest", "mutants", "*.patch"))):
        props, rule, silent = [], None, False
        with open(p) as fh:
            for line in fh:
                if line.startswith("# property:"):
                    props = [x.strip() for x in line.split(":", 1)[1].split(",")]
                elif line.startswith("# expect-rule:"):
                    rule = line.split(":", 1)[1].strip()
                elif line.startswith("# expect: silent"):
                    silent = True
                elif line.startswith(("--- ", "diff ")):
                    break
        if prop in props:
            jobs.append((p, silent, rule))
    for d in sorted(glob.glob(os.path.join(HERE, "seeded", "%s-*" % prop))):
        jobs.append((os.path.join(d, "patch.diff"), False, None))
    # behaviour-preserving refactorings: the check must stay silent (except the documented fail-closed pairs)
    exp = {}
    try:
        exp = json.load(open(os.path.join(HERE, "selftest", "equivalents", "EXPECTED_ALARMS.json")))
    except (OSError, ValueError):
        pass
    for p in sorted(glob.glob(os.path.join(HERE, "selftest", "equivalents", "*.diff"))):
        if prop in exp.get(os.path.basename(p), []):
            continue
        jobs.append((p, True, None))
    with ThreadPoolExecutor(max_workers=6) as ex:
        res = list(ex.map(lambda j: _one(prop, *j), jobs))
    bad = [r for r in res if r["status"] not in ("caught", "caught-other-rule", "silent-ok", "patch-does-not-apply")]
    return {"run": len(res), "caught": sum(1 for r in res if r["status"].startswith("caught")), "silent_ok": sum(1 for r in res if r["status"] == "silent-ok"),
            "not_applicable_on_this_tree": [r["patch"] for r in res if r["status"] == "patch-does-not-apply"], "failed": bad, "results": res}, len(bad)
