"""C05 — response sequence ids continue the request's and wrap modulo 256."""
import re

from engines import effects, arms
from engines.paths import enumerate_paths, classify_return
from engines.prog import op_place, cname, term_str, place_fields
from engines import terms as T

CONFIGS = ["tls", "notls"]
LEVEL = "other"
EXPLANATION = (
    "Counter rules over MIR. Stamp-and-wrap: in the packet terminator the header's 4th byte is the counter field and the counter "
    "is then advanced by u8::wrapping_add(_, 1) on the emitting path (never a checked `+`, which asserts at 255 in the profile the "
    "suite runs, nor a saturating add). Seq arithmetic wraps: in client-path functions no checked u8 addition has an operand "
    "derived from a packet header's sequence byte. Reset per exchange: in the command loop the sequence setter is called with "
    "wrapping_add(seq, 1) of the id returned by the reader in the same iteration, and that call precedes every connection write "
    "and every shim callback of the iteration on all enumerated paths; the same after each handshake read; the greeting is "
    "written with the constructor's counter 0 before any reset. Ownership: the counter field is written only by the "
    "constructor, the setter and the terminator. Last fragment: the id returned with a reassembled packet is the one of its "
    "final (short) fragment, and consecutive fragments are compared with wrapping_add.")
ASSUMPTIONS = ["u8::wrapping_add semantics"]


def run(ctx, configs=None):
    for cfg in (configs or CONFIGS):
        prog = ctx.prog(cfg)
        roles, eff = effects.build(prog)
        ft, fs, fnew, fr = roles.f_term, roles.f_setseq, roles.f_new, roles.f_read
        for b in (ft, fs, fnew, fr, roles.f_run, roles.f_init):
            ctx.fn(b)
        ctx.rule("C05.stamp-and-wrap", "terminator stamps header[3] from the counter, then counter = wrapping_add(counter, 1)")
        ctx.rule("C05.seq-arith-wraps", "no checked u8 add on values derived from a header sequence byte")
        ctx.rule("C05.reset-per-exchange", "set_seq(wrapping_add(request seq, 1)) precedes every write/callback of the exchange")
        ctx.rule("C05.counter-ownership", "counter written only by constructor, setter, terminator")
        ctx.rule("C05.last-fragment", "reassembled packets report the final fragment's id; fragment ids compared modulo 256")

        # ---- stamp-and-wrap --------------------------------------------------------------------
        wbb = roles.write_sites[0][1]
        n = 0
        for p in enumerate_paths(ft):
            if p.end != "return" or wbb not in p.blocks:
                continue
            n += 1
            stores = []
            for pos, blk in enumerate(p.blocks):
                for i, s in enumerate(ft.blocks[blk]["stmts"]):
                    if s["k"] == "assign" and place_fields(s["lhs"]) == ["seq"]:
                        stores.append((pos, i, s))
            ok = len(stores) == 1
            why = "counter assigned %d times on an emitting path" % len(stores)
            if ok:
                pos, i, s = stores[0]
                v = ft.origin_rvalue(s["rv"], p.blocks[pos], i, 0)
                ok = T.is_call(v, r"num::<impl u8>::wrapping_add$") and T.is_field(T.peel(v[2][0]), "seq") and T.is_const_int(v[2][1], 1)
                why = "counter := %s (need u8::wrapping_add(counter, 1))" % term_str(v)[:80]
                # stamped before the increment and before the transport write
                wpos = p.blocks.index(wbb)
                ok = ok and pos <= wpos
            ctx.ob("C05.stamp-and-wrap", ok, why, fn=ft.path, construct="increment", where=ft.where(p.blocks[-1]), sample={"rule": "stamp-and-wrap", "config": cfg, "update": why})
        ctx.floor("C05.stamp-and-wrap", "emitting paths of the terminator", n, 1)
        # skip path: counter untouched
        for p in enumerate_paths(ft):
            if p.end == "return" and wbb not in p.blocks and classify_return(p) != "err":
                touched = any(s["k"] == "assign" and place_fields(s["lhs"]) == ["seq"] for blk in p.blocks for s in ft.blocks[blk]["stmts"])
                ctx.ob("C05.stamp-and-wrap", not touched, "the counter advances although no packet is emitted", fn=ft.path, construct="skip-keeps-counter", nontrivial=False)

        # ---- counter ownership -----------------------------------------------------------------
        writers = set()
        for b in prog.non_test_fns():
            if "packet::PacketConn<" not in (b.raw.get("impl_self") or ""):
                continue
            for bb, i, s in b.stmts():
                if s["k"] == "assign" and place_fields(s["lhs"]) == ["seq"]:
                    writers.add(b.path)
        ctx.ob("C05.counter-ownership", writers <= {ft.path, fs.path}, "the sequence counter is written in %s" % sorted(writers - {ft.path, fs.path}), fn=ft.path, construct="writers")
        # ... and it is not read or written outside the packet layer either (a getter inlined into a caller shows up there): ids are
        # arithmetic modulo 256 inside that layer only; a caller comparing or adding ids on its own does it in usize and stalls or
        # repeats at the wrap
        for b in prog.non_test_fns():
            if "packet::PacketConn<" in (b.raw.get("impl_self") or ""):
                continue
            touched = False
            for bb, i, s_ in b.stmts():
                if s_["k"] != "assign":
                    continue
                pls = [s_["lhs"]]
                rv = s_["rv"]
                if rv["k"] in ("ref", "rawptr", "discr"):
                    pls.append(rv["place"])
                for opk in ("op", "a", "b"):
                    if opk in rv and isinstance(rv[opk], dict):
                        pl_ = op_place(rv[opk])
                        if pl_ is not None:
                            pls.append(pl_)
                for pl_ in pls:
                    if any(isinstance(e, dict) and e.get("n") == "seq" and str(e.get("of") or "").startswith("packet::PacketConn<") for e in pl_.get("p", [])):
                        touched = True
            ctx.ob("C05.counter-ownership", not touched, "%s reads or writes the connection's sequence counter directly: outside the packet layer ids are not kept modulo 256" % b.path,
                   fn=b.path, construct="counter-escapes", nontrivial=False) if touched else None
        # constructor: seq = 0
        rb = fnew.return_blocks()[0]
        o = fnew.origin_place({"l": 0, "p": []}, rb, len(fnew.blocks[rb]["stmts"]))
        d = dict(zip(o[5], o[4])) if o[0] == "agg" else {}
        ctx.ob("C05.counter-ownership", T.is_const_int(d.get("seq"), 0), "the counter does not start at 0 (greeting id)", fn=fnew.path, construct="initial")
        # setter stores its argument
        ok = any(s["k"] == "assign" and place_fields(s["lhs"]) == ["seq"] and T.is_param(fs.origin_rvalue(s["rv"], bb, i, 0), 2) for bb, i, s in fs.stmts())
        ctx.ob("C05.counter-ownership", ok, "the sequence setter does not store its argument", fn=fs.path, construct="setter")

        # ---- a failed terminator is final -------------------------------------------------------
        # the terminator stamps and advances the counter before it hands the packet to the transport and keeps the packet pending when
        # the transport refuses it: terminating again after a failure stamps the same packet with the next id (a gap in the ids)
        ctx.rule("C05.failed-terminator-final", "after the Err outcome of a packet terminator no further packet-layer call is reachable in the caller")
        from rules.C19 import uses_of as _uses_of, err_arm as _err_arm
        term_names = {ft.path}
        for b in prog.non_test_fns():
            if "packet::PacketConn<" in (b.raw.get("impl_self") or "") and any(cname(t["func"]) == ft.path for _, t in b.calls() if "indirect" not in t["func"]):
                term_names.add(b.path)
        def _pkt_call(t):
            if "indirect" in t["func"]:
                return False
            n_ = cname(t["func"])
            cb = prog.bodies.get(n_)
            return n_ in term_names or (cb is not None and "packet::PacketConn<" in (cb.raw.get("impl_self") or "")) or n_.startswith("writers::")
        def _err_targets(b, local, depth=0, seen=None):
            seen = seen if seen is not None else set()
            if local in seen or depth > 8:
                return []
            seen.add(local)
            out = []
            for kind, bb_, i_, x in _uses_of(b, local):
                if kind == "discr":
                    e = _err_arm(b, local, bb_)
                    if e is not None:
                        out.append(e)
                elif kind == "move" and not x["lhs"]["p"]:
                    out += _err_targets(b, x["lhs"]["l"], depth + 1, seen)
                elif kind == "ref" and not x["lhs"]["p"]:
                    # is_err(&r) / is_ok(&r) tested by a branch
                    for k2, b2, i2, x2 in _uses_of(b, x["lhs"]["l"]):
                        if k2 == "arg" and "indirect" not in x2["func"] and re.search(r"Result::<T, E>::(is_err|is_ok)$", cname(x2["func"])) and not x2["dest"]["p"]:
                            want_err = cname(x2["func"]).endswith("is_err")
                            for k3, b3, i3, x3 in _uses_of(b, x2["dest"]["l"]):
                                if k3 == "switch" and "0" in x3["vals"]:
                                    z = x3["tgts"][x3["vals"].index("0")]
                                    out.append(x3["otherwise"] if want_err else z)
            return out
        nterm = 0
        for b in prog.non_test_fns():
            if b.path in term_names:
                continue
            for bb, t in b.calls():
                if "indirect" in t["func"] or cname(t["func"]) not in term_names or t["dest"]["p"]:
                    continue
                nterm += 1
                bad = None
                errs = set(_err_targets(b, t["dest"]["l"]))
                if errs:
                    from engines.paths import TooManyPaths
                    try:
                        # path-sensitive: branches that re-test the same result further down follow the Err outcome
                        for p_ in enumerate_paths(b, start=bb, max_visits=2, limit=4000):
                            hit = None
                            for i_ in range(1, len(p_.blocks)):
                                if hit is None and p_.blocks[i_] in errs and b.term(p_.blocks[i_ - 1])["k"] == "switch":
                                    hit = i_
                                elif hit is not None:
                                    t2 = b.term(p_.blocks[i_])
                                    if t2["k"] == "call" and _pkt_call(t2) and (i_ + 1 < len(p_.blocks) or p_.end in ("return", "stop")):
                                        bad = (p_.blocks[i_], cname(t2["func"]))
                                        break
                            if hit is not None and bad is None and p_.end.startswith("cut:"):
                                # the path was cut where it re-enters a block: look at what that block goes on to
                                cb_ = int(p_.end[4:])
                                for rb_ in sorted(b.reachable(cb_)):
                                    t2 = b.term(rb_)
                                    if t2["k"] == "call" and not b.is_cleanup(rb_) and cname(t2["func"]) in term_names:
                                        bad = (rb_, cname(t2["func"]))
                                        break
                            if bad:
                                break
                    except TooManyPaths:
                        for e in errs:
                            for rb_ in sorted(b.reachable(e)):
                                t2 = b.term(rb_)
                                if t2["k"] == "call" and not b.is_cleanup(rb_) and _pkt_call(t2):
                                    bad = (rb_, cname(t2["func"]))
                                    break
                ctx.ob("C05.failed-terminator-final", bad is None, "%s goes on to %s after %s has failed: the pending packet is stamped again with the next id"
                       % (b.path, bad[1] if bad else "", cname(t["func"]).split("::")[-1]), fn=b.path, construct="after-failed-terminator", where=b.where(bb), nontrivial=False)
        ctx.floor("C05.failed-terminator-final", "packet terminator call sites outside the terminator itself (%s)" % cfg, nterm, 8)

        # ---- seq arithmetic wraps ----------------------------------------------------------------
        import rules.C20 as C20
        nadd = 0
        for path in sorted(C20.client_fns(prog, roles)):
            b = prog.bodies[path]
            for bb in range(b.n):
                t = b.term(bb)
                if b.is_cleanup(bb) or t["k"] != "assert" or not t["msg"].startswith("Overflow(Add"):
                    continue
                tys = [s["rv"]["ty"] for s in b.blocks[bb]["stmts"] if s["k"] == "assign" and s["rv"]["k"] == "bin" and s["rv"]["op"] == "AddWithOverflow"]
                if "u8" not in tys:
                    continue
                a = b.origin_op(t["ops"][0], bb, len(b.blocks[bb]["stmts"]))
                c = b.origin_op(t["ops"][1], bb, len(b.blocks[bb]["stmts"]))
                if T.const_int(a) is not None and T.const_int(c) is not None:
                    continue
                nadd += 1
                ctx.ob("C05.seq-arith-wraps", False, "checked u8 addition %s + %s on the client path: a sequence id of 255 would panic instead of wrapping" % (term_str(a)[-40:], term_str(c)[-20:]),
                       fn=path, construct="checked-u8-add", where=b.where(bb))
        ctx.ob("C05.seq-arith-wraps", True, "", fn="*", construct="scan", nontrivial=False, sample={"rule": "seq-arith-wraps", "config": cfg, "checked_u8_adds_on_client_path": nadd})

        # ---- reset per exchange -------------------------------------------------------------------
        lm = arms.LoopModel(prog, roles, eff)
        frun = roles.f_run
        n = 0
        for arm, outcome, p in lm.iteration_paths():
            if outcome == "unreachable":
                continue
            sets = [(pos, bb, t) for pos, bb, t in p.calls() if cname(t["func"]) == fs.path]
            if arm is None and not any(("writes" in eff.of_call(frun, bb, t) or any(x.startswith("shim:") for x in eff.of_call(frun, bb, t)))
                                       for pos, bb, t in p.calls() if cname(t["func"]) != fs.path):
                continue   # no command was dispatched and nothing was written on this path (end of stream, read error)
            n += 1
            first_effect = None
            for pos, bb, t in p.calls():
                e = eff.of_call(frun, bb, t)
                if ("writes" in e or any(x.startswith("shim:") for x in e)) and cname(t["func"]) != fs.path:
                    first_effect = pos
                    break
            ok = len(sets) >= 1 and (first_effect is None or sets[0][0] < first_effect)
            why = "set_seq calls: %d, first write/callback at path position %s" % (len(sets), first_effect)
            if ok:
                for st in sets:
                    v = p.arg(st[0], 1)
                    inner = v[2][0] if T.is_call(v, r"num::<impl u8>::wrapping_add$") and T.is_const_int(v[2][1], 1) else None
                    src_ok = inner is not None and isinstance(inner, tuple) and inner[0] == "field" and str(inner[2]) == "0" and \
                        T.contains(inner, lambda x: T.is_call(x, "^" + re.escape(fr.path) + "$") and x[3] == ("site", lm.read_bb))
                    ok = ok and src_ok
                    if not src_ok:
                        why = "sequence reset to %s (need wrapping_add(id returned by the reader in this iteration, 1))" % term_str(v)[:120]
            ctx.ob("C05.reset-per-exchange", ok, why, fn=frun.path, construct="reset", callee=arm, where=frun.where(p.blocks[-1]),
                   sample={"rule": "reset-per-exchange", "arm": arm} if n < 4 else None)
        ctx.floor("C05.reset-per-exchange", "loop-iteration paths (%s)" % cfg, n, 20)
        # handshake: after each read, a reset before the next write
        fi = roles.f_init
        reads = [bb for bb, t in fi.calls() if cname(t["func"]) == fr.path]
        nh = 0
        for p in enumerate_paths(fi, max_visits=1, limit=100000):
            if p.end != "return":
                continue
            rpos = [pos for pos, bb, t in p.calls() if cname(t["func"]) == fr.path]
            for k, rp in enumerate(rpos):
                nxt_r = rpos[k + 1] if k + 1 < len(rpos) else len(p.blocks)
                seg = [(pos, bb, t) for pos, bb, t in p.calls() if rp < pos < nxt_r]
                sets = [x for x in seg if cname(x[2]["func"]) == fs.path]
                wr = [x for x in seg if ("writes" in eff.of_call(fi, x[1], x[2]) or any(e.startswith("shim:after") for e in eff.of_call(fi, x[1], x[2]))) and cname(x[2]["func"]) != fs.path]
                if not wr:
                    continue
                nh += 1
                ok = bool(sets) and sets[0][0] < wr[0][0]
                if ok:
                    # every reset between this read and the next one uses the id of *this* read: a later reset from an older
                    # packet's id (a stale binding handed to a helper) overrides the right one
                    for st in sets:
                        v = p.arg(st[0], 1)
                        ok = ok and T.is_call(v, r"num::<impl u8>::wrapping_add$") and T.is_const_int(v[2][1], 1) and \
                            T.contains(v[2][0], lambda x: T.is_call(x, "^" + re.escape(fr.path) + "$") and x[3] == ("site", p.blocks[rp]))
                ctx.ob("C05.reset-per-exchange", ok, "a handshake reply is written without first resetting the sequence id from the packet just read", fn=fi.path,
                       construct="handshake-reset", where=fi.where(wr[0][1]), nontrivial=False)
        ctx.floor("C05.reset-per-exchange", "handshake read->write segments (%s)" % cfg, nh, 2)

        # ---- last fragment --------------------------------------------------------------------------
        pk = prog.one(r"^packet::packet$")
        ctx.fn(pk)
        n = 0
        for p in enumerate_paths(pk):
            if p.end != "return" or classify_return(p) != "ok":
                continue
            n += 1
            rv = p.return_value()
            tup = T.find(rv, lambda x: isinstance(x, tuple) and x[0] == "agg" and x[1] == "tuple" and len(x[4]) == 2 and
                         T.find(x[4][1], lambda y: isinstance(y, tuple) and y[0] == "agg" and (y[2] or "").endswith("Packet")) is not None or
                         (isinstance(x, tuple) and x[0] == "agg" and x[1] == "tuple" and len(x[4]) == 2 and "Packet" in term_str(x[4][1])[:400]))
            seqt = None
            if rv[0] == "agg" and rv[3] == "Ok":
                outer = rv[4][0]
                if outer[0] == "agg" and outer[1] == "tuple" and len(outer[4]) == 2 and outer[4][1][0] == "agg" and outer[4][1][1] == "tuple":
                    seqt = outer[4][1][4][0]
            # seqt must be  ((pair(FOLD, LAST)(input))?.1 /*output*/ .1 /*LAST's output*/ .0 /*its sequence byte*/)  with LAST = onepacket
            ok = False
            idx = []
            cur = seqt
            while isinstance(cur, tuple) and cur[0] == "field":
                idx.append(cur[3])
                cur = cur[1]
            idx.reverse()
            if seqt is not None and isinstance(cur, tuple) and cur[0] == "okpayload" and T.is_call(cur[1], r"^nom::sequence::pair::\{closure#0\}$") and idx == [1, 1, 0]:
                mk = T.peel(cur[1][2][0], payloads=False)
                if T.is_call(mk, r"^nom::sequence::pair$") and len(mk[2]) == 2:
                    second = mk[2][1]
                    ok = second[0] == "const" and second[1][0] == "fn" and second[1][1] == "packet::onepacket"
            ctx.ob("C05.last-fragment", ok, "the sequence id returned with a packet is %s (need the id of the final, short fragment)" % (term_str(seqt)[:100] if seqt else None),
                   fn=pk.path, construct="returned-seq", where=pk.where(p.blocks[-1]), sample={"rule": "last-fragment", "seq": term_str(seqt)[:100] if seqt else None})
        ctx.floor("C05.last-fragment", "Ok paths of the packet parser", n, 1)
