"""C02 — each client command reaches exactly the right shim callback, verbatim."""
import re

from engines import effects, arms, cursor
from engines.paths import enumerate_paths
from engines.prog import cname, term_str, op_const
from engines import terms as T
from engines.terms import Aff
from spec import commands as SPEC

CONFIGS = ["tls"]
LEVEL = "other"
EXPLANATION = (
    "Table, layout and def-use rules over MIR. Byte table: from the command parser's MIR, each alternative's tag constant and "
    "the Command variant it constructs are extracted and compared with the protocol's command bytes (9 pairs, one tag per "
    "variant). Fixed fields: the cursor offsets at which Execute/SendLongData/Close fields are read are computed as affine "
    "offsets and compared with the request layouts. Arm callbacks: on every enumerated path through one loop iteration, the "
    "multiset of shim callbacks reached is compared with the table (exactly once for prepare/execute/close/init_db, at most "
    "one of on_query/on_init for query text, none for ping/field-list/long-data/quit); no shim call sits in an inner loop. "
    "Verbatim/UTF-8: the &str handed to on_query/on_prepare/on_init is the Ok payload of a checked from_utf8 over the variant's "
    "whole payload slice (for USE: over payload[len(prefix)..] followed only by str::trim* calls), whose Err arm returns an "
    "error; ids handed to on_execute/on_close are the variant's stmt. Prefix agreement: the slice start equals the length of "
    "the prefix tested by starts_with on that path, and both spellings of a prefix have equal length.")
ASSUMPTIONS = ["nom tag/preceded/map/alt semantics", "str::trim* return sub-slices of their input (std)"]


# Symbolic spellings of `USE <db>` after the 4-byte prefix, as token sequences:
#   [ws] [`] NAME [`] [;] [ws]      (the property: name bare or backtick-quoted, optional trailing
#   semicolon, optional whitespace before the name and after the statement)
USE_SPELLINGS = [
    (["w"] if w1 else []) + (["q"] if q else []) + ["N"] + (["q"] if q else []) + ([";"] if sc else []) + (["w"] if w2 else [])
    for w1 in (0, 1) for q in (0, 1) for sc in (0, 1) for w2 in (0, 1)
]
_CH = {59: ";", 96: "q"}


def _apply_trim(tokens, fn, carg):
    t = list(tokens)
    if fn in ("trim", "trim_start", "trim_end"):
        if fn in ("trim", "trim_start"):
            while t and t[0] == "w":
                t.pop(0)
        if fn in ("trim", "trim_end"):
            while t and t[-1] == "w":
                t.pop()
        return t
    if fn in ("trim_matches", "trim_start_matches", "trim_end_matches"):
        c = _CH.get(carg)
        if c is None:
            return None
        if fn in ("trim_matches", "trim_start_matches"):
            while t and t[0] == c:
                t.pop(0)
        if fn in ("trim_matches", "trim_end_matches"):
            while t and t[-1] == c:
                t.pop()
        return t
    return None


def use_normalisation(chain):
    """Spellings for which the chain does not leave exactly the bare name (abstract evaluation of
    the str::trim* calls on token sequences); an unmodelled call makes every spelling open."""
    bad = []
    for sp in USE_SPELLINGS:
        t = sp
        for fn, carg in chain:
            t = _apply_trim(t, fn, carg)
            if t is None:
                return [("unmodelled", fn, carg)]
        if t != ["N"]:
            bad.append(("".join(sp), "".join(t)))
    return bad


def parse_table(prog, ctx):
    """[(tag_bytes, variant, inner)] extracted from the command parser."""
    pb = prog.one(r"^commands::parse$")
    ctx.fn(pb)
    out = []
    # every alternative is either map(preceded(tag(B), inner), ctor) | preceded(tag(B), localfn) | map(tag(B), closure)
    seen_alt = None
    for bb, t in pb.calls():
        if cname(t["func"]) == "nom::branch::alt":
            seen_alt = bb
    if seen_alt is None:
        return pb, parse_table_match(prog, pb)
    tup = pb.arg_origin(seen_alt, 0)
    if not (tup[0] == "agg" and tup[1] == "tuple"):
        return pb, None

    def _flatten(elems):
        # an alternative that is itself `alt((..))` (grouped alternatives) contributes its own alternatives, in order
        for e in elems:
            e0 = T.peel(e, payloads=False)
            if T.is_call(e0, r"^nom::branch::alt$") and e0[2] and isinstance(e0[2][0], tuple) and e0[2][0][0] == "agg" and e0[2][0][1] == "tuple":
                for x in _flatten(e0[2][0][4]):
                    yield x
            else:
                yield e

    def _tag_bytes(arg):
        a = T.peel(arg)
        cb = T.const_bytes(a)
        if cb is not None:
            return cb
        # `[cmd as u8]` built from constants (an inlined `opcode(cmd)` helper)
        if isinstance(a, tuple) and a[0] == "agg" and a[1] == "array":
            vals = [T.const_int(x) for x in a[4]]
            if all(v is not None and 0 <= v < 256 for v in vals):
                return bytes(vals)
        return None
    for el in _flatten(tup[4]):
        el = T.peel(el, payloads=False)
        variant, inner, tagb = None, None, None
        node = el
        ctor = None
        if T.is_call(node, r"^nom::combinator::map$"):
            ctor = node[2][1]
            node = T.peel(node[2][0], payloads=False)
        if T.is_call(node, r"^nom::sequence::preceded$"):
            inner = node[2][1]
            node = T.peel(node[2][0], payloads=False)
        if T.is_call(node, r"^nom::bytes::complete::tag$"):
            tagb = _tag_bytes(node[2][0])
        # which variant?
        if ctor is not None and ctor[0] == "const" and ctor[1][0] == "fn":
            m = re.search(r"commands::Command::(\w+)$", ctor[1][1])
            variant = m.group(1) if m else None
        elif ctor is not None and (ctor[0] == "agg" and ctor[1] == "closure" or (ctor[0] == "const" and ctor[1][0] == "closure")):
            cpath = ctor[2] if ctor[0] == "agg" else ctor[1][1]
            cb = prog.bodies.get(cpath)
            if cb is not None:
                vs = {s["rv"]["vname"] for _, _, s in cb.stmts() if s["k"] == "assign" and s["rv"]["k"] == "agg" and s["rv"].get("ak") == "adt" and s["rv"]["adt"].endswith("commands::Command")}
                variant = vs.pop() if len(vs) == 1 else None
        elif inner is not None and inner[0] == "const" and inner[1][0] == "fn" and inner[1][1] in prog.bodies:
            ib = prog.bodies[inner[1][1]]
            vs = {s["rv"]["vname"] for _, _, s in ib.stmts() if s["k"] == "assign" and s["rv"]["k"] == "agg" and s["rv"].get("ak") == "adt" and s["rv"]["adt"].endswith("commands::Command")}
            variant = vs.pop() if len(vs) == 1 else None
        out.append((tagb, variant, inner))
    return pb, out


def parse_table_match(prog, pb):
    """The same table read off a hand-written parser (`match` / `if` on the first byte): per concrete command byte the
    Command variant that the returning paths build (or the local sub-parser they delegate to), and where the payload starts."""
    from engines import tables

    def is_cmd_byte(t):
        rd = cursor.reading(t)
        return rd is not None and rd["width"] == 1 and rd["off"] == Aff(0) and T.is_param(T.peel(rd["base"]), 1)
    tab, _open = tables.value_table(pb, is_cmd_byte, universe=None)
    if not tab:
        return None
    out = []
    for byte in sorted(tab):
        variants, inners = set(), set()
        for rv in tab[byte]:
            # `sub(body).map_err(|_| unrecognized())`: the error is replaced, the success value is what it was
            while T.is_call(rv, r"Result::<T, E>::map_err$") and len(rv[2]) == 2:
                rv = rv[2][0]
            agg = T.find(rv, lambda x: isinstance(x, tuple) and x[0] == "agg" and x[1] == "adt" and (x[2] or "").endswith("commands::Command"))
            if agg is not None and isinstance(rv, tuple) and rv[0] == "agg" and rv[3] == "Ok":
                variants.add(agg[3])
                inner = None
                if agg[4]:
                    pay = agg[4][0]
                    rd = cursor.reading(pay)
                    if rd is not None and rd["kind"] == "le_u32" and rd["off"] == Aff(1) and T.is_param(T.peel(rd["base"]), 1):
                        inner = ("const", ("fn", "nom::number::complete::le_u32", "nom::number::complete::le_u32"))
                    else:
                        b_, off, ln = cursor.locate(pay)
                        if T.is_param(T.peel(b_), 1) and off == Aff(1) and (ln is None or not ln.is_const()):
                            inner = ("const", ("fn", "nom::combinator::rest", "nom::combinator::rest"))
                inners.add(inner)
                continue
            if isinstance(rv, tuple) and rv[0] == "agg" and rv[3] == "Err":
                continue        # a refusal for this byte on some path (short body)
            if T.is_call(rv, r"from_residual$") or (isinstance(rv, tuple) and rv[0] in ("errresidual", "errpayload")):
                continue        # the same, passed on with `?` from an inlined sub-parser
            # delegation to a local sub-parser applied to the bytes after the command byte
            c = T.find(rv, lambda x: isinstance(x, tuple) and x[0] == "call" and x[1] in prog.bodies and x[1] != pb.path and
                       "nom::" in prog.bodies[x[1]].raw.get("sig_out", "") and len(x[2]) == 1)
            if c is not None:
                b_, off, ln = cursor.locate(c[2][0])
                if T.is_param(T.peel(b_), 1) and off == Aff(1):
                    ib = prog.bodies[c[1]]
                    vs = {s_["rv"]["vname"] for _, _, s_ in ib.stmts() if s_["k"] == "assign" and s_["rv"]["k"] == "agg" and s_["rv"].get("ak") == "adt" and s_["rv"]["adt"].endswith("commands::Command")}
                    variants |= vs
                    inners.add(("const", ("fn", c[1], c[1])))
                    continue
            variants.add(None)
        if not variants:
            continue        # every path of this byte refuses
        variant = list(variants)[0] if len(variants) == 1 else None
        inner = list(inners)[0] if len(inners) == 1 else None
        out.append((bytes([byte]), variant, inner))
    return out


def run(ctx):
    prog = ctx.prog("tls")
    roles, eff = effects.build(prog)
    lm = arms.LoopModel(prog, roles, eff)
    fr = roles.f_run
    ctx.fn(fr)
    ctx.rule("C02.byte-table", "command byte -> Command variant table equals the protocol's")
    ctx.rule("C02.fixed-fields", "Execute/SendLongData/Close fields are read at the protocol's offsets")
    ctx.rule("C02.arm-callbacks", "per command: which shim callbacks, how often; none in inner loops")
    ctx.rule("C02.verbatim", "shim string/id arguments are the command's payload/ids, unmodified")
    ctx.rule("C02.utf8", "only checked UTF-8 reaches the shim; invalid text returns an error")
    ctx.rule("C02.use-normalisation", "the USE trimming chain maps every quantified spelling (16 token patterns) to the bare name")
    ctx.rule("C02.prefix-agreement", "slice start == length of the prefix tested; both spellings equally long")

    # ---- byte table ------------------------------------------------------------------------
    pb, table = parse_table(prog, ctx)
    if not ctx.ob("C02.byte-table", table is not None, "cannot find the alternative tuple of the command parser", fn=pb.path, construct="alt", nontrivial=False):
        return
    got = {}
    for tagb, variant, inner in table:
        ok = tagb is not None and len(tagb) == 1 and variant is not None and SPEC.COMMAND_BYTES.get(tagb[0]) == variant
        ctx.ob("C02.byte-table", ok, "command byte %s is parsed as %s (protocol: %s)" % (tagb.hex() if tagb else None, variant, SPEC.COMMAND_BYTES.get(tagb[0]) if tagb else None),
               fn=pb.path, construct="alt-arm", callee=str(variant), key_extra={"variant": variant},
               sample={"rule": "byte-table", "byte": tagb.hex() if tagb else None, "variant": variant})
        if variant:
            got.setdefault(variant, []).append(tagb)
    for b_, v in SPEC.COMMAND_BYTES.items():
        ctx.ob("C02.byte-table", len(got.get(v, [])) == 1, "variant %s is produced by %d alternatives (need exactly one, byte %02x)" % (v, len(got.get(v, [])), b_),
               fn=pb.path, construct="variant-coverage", callee=v)
    ctx.floor("C02.byte-table", "parser alternatives", len(table), 9)

    # ---- nothing is dropped between the reader and the dispatcher ------------------------------------
    # "each client command invokes exactly the matching callback": a command the reader delivered reaches the `match` on its kind
    # unless it cannot be parsed.  Every iteration path that leaves the loop before the dispatching match must do so with the
    # reader's own error, the parser's error, or at end of input (the reader's `None`): a filter on anything else (the sequence
    # id, the length, ..) silently discards well-formed commands.
    ctx.rule("C02.dispatch-total", "a command delivered by the reader reaches the dispatching match unless the command parser refuses it")
    n_pre = 0
    parse_rx = r"^commands::parse$"
    for arm, outcome, p in lm.iteration_paths():
        if arm is not None or lm.switch_bb in p.blocks:
            continue
        if outcome == "stop":
            # back at the reader without having reached the dispatching match: the command delivered in this iteration was skipped
            # (`continue` on some condition of it).  The only iteration that may come back without dispatching is one in which the
            # reader delivered nothing — which it reports by returning, not by looping.
            n_pre += 1
            ctx.ob("C02.dispatch-total", False, "the command loop goes back to reading without dispatching the command it was just handed (a `continue` before the dispatching match)",
                   fn=fr.path, construct="pre-dispatch-continue", where=fr.where(p.blocks[-2] if len(p.blocks) > 1 else p.blocks[-1]))
            continue
        if not outcome.startswith("return"):
            continue
        n_pre += 1
        rv = p.return_value()
        calls_on_path = [cname(t["func"]) for _, _, t in p.calls()]
        if outcome == "return-ok":
            # end of input: the reader said `None` (decided by C19.ok-exactly-at-boundary); no command was delivered on this path
            ok = not any(re.search(parse_rx, c) for c in calls_on_path)
            why = "the loop returns Ok before dispatching a command that was already handed to the parser"
        else:
            # the error handed back IS the reader's or the parser's failure (its residual / error payload, possibly mapped); an
            # error built from the *delivered* command (its sequence id, its bytes) is a filter
            def _is_src(y):
                y = T.peel(y, payloads=False) if isinstance(y, tuple) else y
                while isinstance(y, tuple) and y[0] == "call" and re.search(r"(map_err|Into<.*>>::into|From<.*>>::from)$", y[1]) and y[2]:
                    y = T.peel(y[2][0], payloads=False)
                return isinstance(y, tuple) and y[0] == "call" and (y[1] == roles.f_read.path or re.search(parse_rx, y[1]) is not None)
            src = T.find(rv, lambda x: isinstance(x, tuple) and x[0] in ("errresidual", "errpayload") and _is_src(x[1]))
            ok = src is not None
            why = "the loop returns %s before the dispatching match: a delivered command is discarded for a reason other than a read or parse failure" % term_str(rv)[:100]
        ctx.ob("C02.dispatch-total", ok, why, fn=fr.path, construct="pre-dispatch-exit", where=fr.where(p.blocks[-1]),
               sample={"rule": "dispatch-total", "outcome": outcome, "value": term_str(rv)[:80] if rv else None})
    ctx.floor("C02.dispatch-total", "exits of the command loop before the dispatching match", n_pre, 2)

    # a command is whatever the reader reassembled, of any size: the command parsers do not cap it (a "cannot be longer than one
    # packet" guard drops every multi-packet command although the reader delivered it whole)
    ncap = 0
    for pbody in [pb] + [prog.bodies[x] for x in ("commands::execute", "commands::send_long_data") if x in prog.bodies]:
        for bbx in range(pbody.n):
            tx = pbody.term(bbx)
            if tx["k"] != "switch" or pbody.is_cleanup(bbx):
                continue
            vx = pbody.origin_op(tx["discr"], bbx, len(pbody.blocks[bbx]["stmts"]))
            while isinstance(vx, tuple) and vx[0] == "un" and vx[1] == "Not":
                vx = vx[2]
            if isinstance(vx, tuple) and vx[0] == "bin" and vx[1] in ("Gt", "Ge", "Lt", "Le"):
                for a_, k_ in ((vx[2], vx[3]), (vx[3], vx[2])):
                    kv = T.const_int(k_)
                    is_len = isinstance(a_, tuple) and ((a_[0] == "call" and re.search(r"slice::<impl \[T\]>::len$", a_[1])) or a_[0] == "ptrmeta" or "PtrMetadata" in term_str(a_)[:20]) and \
                        T.find(a_, lambda x: T.is_param(x, 1)) is not None
                    if kv is not None and kv >= 65536 and is_len:
                        ncap += 1
                        ctx.ob("C02.dispatch-total", False, "%s compares the length of the command with %d: commands above that size are refused although the reader delivered them whole" % (pbody.path, kv),
                               fn=pbody.path, construct="size-cap", where=pbody.where(bbx))
    if not ncap:
        ctx.ob("C02.dispatch-total", True, "", fn=pb.path, construct="no-size-cap", nontrivial=False)

    # ---- fixed fields ----------------------------------------------------------------------
    for fnpat, variant in ((r"^commands::execute$", "Execute"), (r"^commands::send_long_data$", "SendLongData")):
        b = prog.one(fnpat)
        ctx.fn(b)
        n = 0
        for p in enumerate_paths(b):
            if p.end != "return":
                continue
            rv = p.return_value()
            agg = T.find(rv, lambda x: isinstance(x, tuple) and x[0] == "agg" and x[1] == "adt" and (x[2] or "").endswith("commands::Command") and x[3] == variant)
            if agg is None:
                continue
            n += 1
            fields = dict(zip(agg[5], agg[4]))
            for fname_, (off, width) in SPEC.LAYOUT[variant].items():
                v = fields.get(fname_)
                if width is not None:
                    rd = cursor.reading(v)
                    ok = rd is not None and T.is_param(T.peel(rd["base"]), 1) and rd["off"] == Aff(off) and rd["width"] == width and rd["kind"].startswith("le_u")
                    got_s = "%s@%r" % (rd["kind"], rd["off"]) if rd else term_str(v)
                else:
                    base, o, ln = cursor.locate(v)
                    ok = T.is_param(T.peel(base), 1) and o == Aff(off)
                    got_s = "slice@%r" % (o,)
                ctx.ob("C02.fixed-fields", ok, "%s.%s must be read at offset %d (width %s); got %s" % (variant, fname_, off, width, got_s),
                       fn=b.path, construct="field", callee="%s.%s" % (variant, fname_), where=b.where(p.blocks[-1]),
                       sample={"rule": "fixed-fields", "field": "%s.%s" % (variant, fname_), "got": got_s})
        ctx.floor("C02.fixed-fields", "Ok paths constructing %s" % variant, n, 1)
    # Close: preceded(tag, le_u32) mapped by Command::Close
    for tagb, variant, inner in table:
        if variant == "Close":
            ok = inner is not None and inner[0] == "const" and inner[1][0] == "fn" and inner[1][1] == "nom::number::complete::le_u32"
            ctx.ob("C02.fixed-fields", ok, "COM_STMT_CLOSE id must be a little-endian u32 right after the command byte (inner parser: %s)" % term_str(inner),
                   fn=pb.path, construct="field", callee="Close.0")
        if variant in ("Query", "Prepare", "Init", "ListFields"):
            ok = inner is not None and inner[0] == "const" and inner[1][0] == "fn" and inner[1][1] == "nom::combinator::rest"
            ctx.ob("C02.fixed-fields", ok, "%s payload must be everything after the command byte (inner parser: %s)" % (variant, term_str(inner)),
                   fn=pb.path, construct="field", callee="%s.0" % variant)

    # ---- per-path rules --------------------------------------------------------------------
    loops = fr.loops()
    outer = None
    for h, blks in loops.items():
        if lm.read_bb in blks and (outer is None or len(blks) > len(loops[outer])):
            outer = h
    n_sites = 0
    utf8_sites = set()
    _unknown_cmds = set()
    for arm, outcome, p in lm.iteration_paths():
        if outcome == "unreachable" or arm is None:
            continue
        ev = lm.events(p)
        shim = [e for e in ev if e[0].startswith("shim:")]
        names = [e[0][5:] for e in shim]
        spec = SPEC.CALLBACKS.get(arm)
        if spec is None and arm in _unknown_cmds:
            continue
        if spec is None:
            _unknown_cmds.add(arm)
            # a command the pinned tree does not have: which callback it may reach is not in the table of the property ("each client
            # command invokes exactly the matching shim callback"), so the table has to be extended by hand before this can pass
            ctx.ob("C02.arm-callbacks", False, "command variant %s is not in the command/callback table of this check (spec/commands.py CALLBACKS): a new command needs a reviewed entry "
                   "saying which shim callback it may reach and how often" % arm, fn=fr.path, construct="unknown-command", callee=arm)
            continue
        bad = [n for n in names if n not in spec["allowed"]]
        ctx.ob("C02.arm-callbacks", not bad, "command %s reaches shim callback(s) %s (allowed: %s)" % (arm, bad, sorted(spec["allowed"])),
               fn=fr.path, construct="arm-callback-set", callee=arm, where=fr.where(p.blocks[-1]), key_extra={"callbacks": ",".join(sorted(set(bad)))})
        if outcome in ("stop", "return-ok"):
            if spec.get("exact") is not None:
                ok = len(names) == spec["exact"]
            else:
                ok = len(names) <= spec.get("max", 1)
            ctx.ob("C02.arm-callbacks", ok, "a completed %s command calls the shim %d times %s (expected %s)" % (arm, len(names), names, spec.get("exact") if spec.get("exact") is not None else "<=%d" % spec.get("max", 1)),
                   fn=fr.path, construct="arm-callback-count", callee=arm, where=fr.where(p.blocks[-1]),
                   sample={"rule": "arm-callbacks", "arm": arm, "callbacks": names} if names else None)
        else:
            ctx.ob("C02.arm-callbacks", len(names) <= 1, "an aborted %s command calls the shim %d times" % (arm, len(names)), fn=fr.path,
                   construct="arm-callback-count-err", callee=arm, nontrivial=False)
        for e in shim:
            kind, pos, bb, t = e
            n_sites += 1
            in_inner = any(bb in blks for h, blks in loops.items() if h != outer)
            ctx.ob("C02.arm-callbacks", not in_inner, "shim callback %s sits inside an inner loop" % kind, fn=fr.path, construct="no-inner-loop", callee=kind, where=fr.where(bb), nontrivial=False)
            m = kind[5:]
            if m in ("on_query", "on_prepare", "on_init"):
                s = p.arg(pos, 1)
                # peel trims (only allowed for the USE form)
                trims = 0
                s0 = s
                while T.is_call(s0, r"str::<impl str>::(trim|trim_end_matches|trim_matches|trim_start|trim_end|trim_start_matches)$"):
                    s0 = s0[2][0]
                    trims += 1
                okp = s0[0] == "okpayload"
                inner = T.peel(s0, extra_rx=r"Result::<T, E>::map_err$") if okp else None
                is_checked = inner is not None and T.is_call(inner, r"^std::str::from_utf8$|^core::str::from_utf8$|converts::from_utf8$")
                utf8_sites.add(bb)
                ctx.ob("C02.utf8", okp and is_checked, "%s receives text that is not the Ok payload of a checked from_utf8: %s" % (m, term_str(s)[:160]),
                       fn=fr.path, construct="utf8-checked", callee=m, where=fr.where(bb))
                if not (okp and is_checked):
                    continue
                src = inner[2][0]
                expected_variant = {"on_query": "Query", "on_prepare": "Prepare", "on_init": ("Init", "Query")}[m]
                base, off, ln = cursor.locate(src)
                vf = T.variant_field(T.peel(base))
                if m == "on_init" and arm == "Query":
                    # USE form: payload[k..] with k == len(prefix) tested on this path, then trims only
                    prefixes = []
                    for q, bq, tq in p.calls():
                        if cname(tq["func"]).endswith("slice::<impl [T]>::starts_with") and q < pos:
                            recv = T.variant_field(T.peel(p.arg(q, 0)))
                            pre = T.const_bytes(T.peel(p.arg(q, 1)))
                            # did this test succeed on the path?
                            nb = p.blocks[q + 1]
                            sw = fr.term(nb)
                            took = None
                            if sw["k"] == "switch" and q + 2 < len(p.blocks):
                                took = p.blocks[q + 2] != (sw["tgts"][sw["vals"].index("0")] if "0" in sw["vals"] else None)
                            prefixes.append((recv, pre, took))
                    succeeded = [pre for recv, pre, took in prefixes if took and recv == vf]
                    # `strip_prefix(P)` tests and slices in one step: the slice starts right after the prefix it matched
                    sp = T.find(src, lambda x: isinstance(x, tuple) and x[0] == "somepayload" and T.is_call(T.peel(x[1], payloads=False), r"slice::<impl \[T\]>::strip_prefix$"))
                    if sp is not None:
                        c_ = T.peel(sp[1], payloads=False)
                        pre_ = T.const_bytes(T.peel(c_[2][1]))
                        if pre_ is not None and T.variant_field(T.peel(c_[2][0])) == vf:
                            succeeded.append(pre_)
                    ok = vf is not None and vf[0] == "Query" and off.is_const() and ln is None and bool(succeeded) and len(succeeded[-1]) == off.c
                    ctx.ob("C02.prefix-agreement", ok,
                           "USE: the schema text starts at payload[%r..] but the prefix matched on this path is %r" % (off, succeeded[-1] if succeeded else None),
                           fn=fr.path, construct="prefix-slice", callee="USE", where=fr.where(bb),
                           sample={"rule": "prefix-agreement", "offset": repr(off), "prefix": repr(succeeded[-1]) if succeeded else None})
                    # the trimming chain, applied to every spelling the property quantifies over, yields the bare name
                    chain = []
                    s1 = s
                    while T.is_call(s1, r"str::<impl str>::\w+$"):
                        nm = s1[1].split("::")[-1]
                        carg = T.const_int(s1[2][1]) if len(s1[2]) > 1 else None
                        chain.append((nm, carg))
                        s1 = s1[2][0]
                    chain.reverse()
                    bad_sp = use_normalisation(chain)
                    ctx.ob("C02.use-normalisation", bad_sp == [],
                           "USE: the trimming chain %s leaves %s" % (chain, bad_sp[:3]), fn=fr.path, construct="trim-chain", callee="USE", where=fr.where(bb),
                           sample={"rule": "use-normalisation", "chain": chain, "spellings_checked": len(USE_SPELLINGS)})
                else:
                    ev_ok = vf is not None and (vf[0] == expected_variant or (isinstance(expected_variant, tuple) and vf[0] in expected_variant)) and vf[0] == arm \
                        and off == Aff(0) and ln is None and trims == 0
                    ctx.ob("C02.verbatim", ev_ok, "%s does not receive the command's whole payload verbatim: %s" % (m, term_str(s)[:200]),
                           fn=fr.path, construct="verbatim-text", callee=m, where=fr.where(bb),
                           sample={"rule": "verbatim", "callback": m, "arg": "from_utf8(%s.%s)" % (vf[0], vf[1]) if vf else None})
                # the packet parsed is the one read in this iteration
                if vf is not None:
                    cmd = vf[2]
                    rdc = T.find(cmd, lambda x: T.is_call(x, "^" + re.escape(roles.f_read.path) + "$"))
                    prs = T.find(cmd, lambda x: T.is_call(x, r"^commands::parse$"))
                    ctx.ob("C02.verbatim", rdc is not None and prs is not None and T.contains(prs, lambda x: x == rdc),
                           "the command handed to the shim is not parsed from the packet read in this iteration", fn=fr.path, construct="same-packet", callee=m, nontrivial=False)
            if m in ("on_execute", "on_close"):
                idt = T.variant_field(T.peel(p.arg(pos, 1)))
                want = ("Execute", "stmt") if m == "on_execute" else ("Close", "0")
                ctx.ob("C02.verbatim", idt is not None and (idt[0], str(idt[1])) == want, "%s receives id %s instead of the command's statement id" % (m, term_str(p.arg(pos, 1))[-80:]),
                       fn=fr.path, construct="verbatim-id", callee=m, where=fr.where(bb))
        # invalid UTF-8: the Err arm of from_utf8 leaves with an error before any shim call
        if outcome == "return-err":
            rv = p.return_value()
            bad_utf8 = T.find(rv, lambda x: x[0] == "errresidual" and T.is_call(T.peel(x[1], extra_rx=r"::map_err$", payloads=False), r"from_utf8$"))
            if bad_utf8 is not None:
                ctx.ob("C02.utf8", not shim, "a command with invalid UTF-8 still reaches %s" % names, fn=fr.path, construct="utf8-error-exit", callee=arm,
                       where=fr.where(p.blocks[-1]))
    ctx.floor("C02.arm-callbacks", "shim call sites on enumerated paths", n_sites, 6)
    ctx.floor("C02.utf8", "shim call sites receiving text", len(utf8_sites), 4)
    # from_utf8 variants that skip the check must not be used on the client path
    for b in prog.non_test_fns():
        for bb, t in b.calls():
            n = cname(t["func"])
            if re.search(r"from_utf8_unchecked$|from_utf8_lossy$", n) and b.path in prog.reachable_fns([roles.run_on.path]):
                ctx.ob("C02.utf8", False, "%s uses %s on the connection path" % (b.path, n), fn=b.path, construct="unchecked", callee=n, where=b.where(bb))
    # prefix pairs: both spellings tested for one built-in have the same length
    pres = []
    for bb, t in fr.calls():
        if cname(t["func"]).endswith("slice::<impl [T]>::starts_with") or cname(t["func"]).endswith("slice::<impl [T]>::strip_prefix"):
            pre = T.const_bytes(T.peel(fr.arg_origin(bb, 1)))
            if pre is not None:
                pres.append(pre)
    groups = {}
    for pre in pres:
        groups.setdefault(pre.lower(), []).append(pre)
    for k, g in groups.items():
        ctx.ob("C02.prefix-agreement", len({len(x) for x in g}) == 1, "spellings %s of one prefix differ in length" % g, fn=fr.path, construct="prefix-pair",
               callee=k.decode("latin1"), sample={"rule": "prefix-agreement", "spellings": [x.decode("latin1") for x in g]})
    ctx.floor("C02.prefix-agreement", "prefix tests in the command loop", len(pres), 4)
    # every slice `payload[k..]` of the query text: k == length of the prefix that matched on that path
    n_sl = 0
    seen = set()
    for arm, outcome, p in lm.iteration_paths():
        if arm != "Query" or outcome == "unreachable":
            continue
        succeeded = []
        for pos, bb, t in p.calls():
            n = cname(t["func"])
            if n.endswith("slice::<impl [T]>::starts_with"):
                recv = T.variant_field(T.peel(p.arg(pos, 0)))
                pre = T.const_bytes(T.peel(p.arg(pos, 1)))
                sw = fr.term(p.blocks[pos + 1]) if pos + 1 < len(p.blocks) else None
                if sw is not None and sw["k"] == "switch" and pos + 2 < len(p.blocks) and "0" in sw["vals"]:
                    if p.blocks[pos + 2] != sw["tgts"][sw["vals"].index("0")] and recv is not None and recv[0] == "Query":
                        succeeded.append(pre)
            if n.endswith("slice::<impl [T]>::strip_prefix"):
                recv = T.variant_field(T.peel(p.arg(pos, 0)))
                pre = T.const_bytes(T.peel(p.arg(pos, 1)))
                key = (bb, pre)
                if recv is not None and recv[0] == "Query" and pre is not None and key not in seen:
                    seen.add(key)
                    n_sl += 1
                    ctx.ob("C02.prefix-agreement", True, "", fn=fr.path, construct="prefix-slice", callee="strip_prefix", where=fr.where(bb), nontrivial=False)
            if n.endswith("Index<I> for [T]>::index") or n.endswith("ops::Index::index"):
                recv = T.variant_field(T.peel(p.arg(pos, 0)))
                rng = p.arg(pos, 1)
                if recv is not None and recv[0] == "Query" and rng[0] == "agg" and (rng[2] or "").endswith("RangeFrom"):
                    k = T.const_int(rng[4][0])
                    key = (bb, succeeded[-1] if succeeded else None)
                    if key in seen:
                        continue
                    seen.add(key)
                    n_sl += 1
                    ok = k is not None and bool(succeeded) and succeeded[-1] is not None and len(succeeded[-1]) == k
                    ctx.ob("C02.prefix-agreement", ok, "query text is sliced at [%s..] on a path where the matched prefix is %r" % (k, succeeded[-1] if succeeded else None),
                           fn=fr.path, construct="prefix-slice", callee="index", where=fr.where(bb), key_extra={"k": k, "prefix": repr(succeeded[-1]) if succeeded else None})
    ctx.floor("C02.prefix-agreement", "prefix-dependent slices of the query text (per matched prefix)", n_sl, 4)

    # what the shim is handed is what the reader reassembled: the inbound reassembly clauses (C01's rules: window
    # invariant, parse-before-wait, short-is-not-error, framing constants) are part of `verbatim` / `exactly what the client sent`

